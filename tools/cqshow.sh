#!/bin/bash
# usage: cqshow.sh file.v LINE  — compile the file truncated after LINE with `Show.` appended
f=$1; n=$2
d=$(mktemp -d /tmp/cqshow.XXXX)
b=$(basename $f .v)
head -n $n $f > $d/$b.v
echo "Show. Abort." >> $d/$b.v
cd /verif/coq && coqc -Q gen DW -Q model DW -Q proofs DW -Q props DW $d/$b.v 2>&1 | tail -${3:-40}
rm -rf $d
