#!/usr/bin/env python3
"""Print the markdown tables embedded in DESIGN.md (findings fixed/open, seeded changes, theorem counts)."""
import json, glob, os
V = os.path.dirname(os.path.dirname(os.path.abspath(__file__)))
kf = json.load(open(os.path.join(V, 'known_findings.json')))
print('### Fixed findings (repaired by `fix:` commits in /repo)\n')
print('| id | properties | commit | what failed | call site |\n|---|---|---|---|---|')
for f in kf['findings']:
    if f['status'] == 'fixed':
        p = f['property'] if isinstance(f['property'], list) else [f['property']]
        print('| %s | %s | %s | %s | %s |' % (f['id'], ', '.join(p), f.get('commit', ''), f['what'].replace('|', '\\|'), f.get('call_site', '')))
print('\n### Open findings (recorded, reported as KNOWN-FINDING)\n')
print('| id | property | what fails | call site | region |\n|---|---|---|---|---|')
for path in sorted(glob.glob(os.path.join(V, 'known_findings.d', '*.json'))):
    for f in json.load(open(path)):
        if f.get('status') == 'open':
            p = f['property'] if isinstance(f['property'], list) else [f['property']]
            print('| %s | %s | %s | %s | %s |' % (f['id'], ', '.join(p), f['what'].replace('|', '\\|').replace('\n', ' ')[:400],
                                                   f.get('call_site', '').replace('|', '\\|'), str(f.get('region', '')).replace('|', '\\|')[:200]))
print('\n### Seeded changes (written by independent sub-agents from the property text only)\n')
print('| id | needs | mechanism | result |\n|---|---|---|---|')
for d in sorted(glob.glob(os.path.join(V, 'seeded', '*'))):
    m = json.load(open(os.path.join(d, 'meta.json')))
    vl = m.get('verified_by_lead', {})
    res = vl.get('detection') or vl.get('final_detection_result') or vl.get('first_detection_result', '')
    print('| %s | %s | %s | %s |' % (os.path.basename(d), str(m.get('needs', '')).replace('|', '\\|').replace('\n', ' ')[:250],
                                     str(m.get('mechanism', m.get('summary', ''))).replace('|', '\\|').replace('\n', ' ')[:200], res.replace('|', '\\|')))
