#!/bin/bash
# usage: tools/try_seed.sh <patch.diff> <demo.py|-> <Cxx> [tier]
# Applies a candidate breaking change in a scratch worktree of /repo (never /repo itself),
# checks: suite still passes, demo fails with / passes without, then runs ./check Cxx against it.
set -u
patch=$1; demo=$2; prop=$3; tier=${4:-quick}
wt=/tmp/seedtest_$$
git -C /repo worktree add -q $wt HEAD || exit 2
trap 'git -C /repo worktree remove --force '$wt' >/dev/null 2>&1' EXIT
( cd $wt && git apply "$patch" ) || { echo "PATCH DOES NOT APPLY"; exit 2; }
echo "== suite with change:"; ( cd $wt && /venv/bin/python -m pytest -q -p no:cacheprovider --timeout=900 2>&1 | tail -1 )
if [ "$demo" != "-" ]; then
  PYTHONPATH=$wt PYTHONHASHSEED=0 /venv/bin/python "$demo" >/dev/null 2>&1; echo "== demo with change rc=$? (want 1)"
  PYTHONPATH=/repo PYTHONHASHSEED=0 /venv/bin/python "$demo" >/dev/null 2>&1; echo "== demo on /repo rc=$? (want 0)"
fi
echo "== check $prop ($tier) against change:"
cd /verif && DW_REPO=$wt ./check $prop --tier $tier 2>&1 | tail -6
