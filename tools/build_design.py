#!/venv/bin/python
"""Assemble /verif/DESIGN.md from docs/DESIGN.body.md + generated per-property summaries and tables."""
import sys, os, json, glob, importlib, subprocess
V = os.path.dirname(os.path.dirname(os.path.abspath(__file__)))
sys.path.insert(0, os.path.join(V, 'harness'))
body = open(os.path.join(V, 'docs', 'DESIGN.body.md')).read()
kf = json.load(open(os.path.join(V, 'known_findings.json')))['findings']
openf = []
for p in sorted(glob.glob(os.path.join(V, 'known_findings.d', '*.json'))):
    openf.extend(json.load(open(p)))
def props_of(f):
    return f['property'] if isinstance(f['property'], list) else [f['property']]
ready = set(open(os.path.join(V, 'tools', 'ready.txt')).read().split())
per = []
for l in open(os.path.join(V, 'properties.jsonl')):
    p = json.loads(l); pid = p['id']
    try:
        m = importlib.import_module('props.' + pid.lower()).META
    except Exception as e:
        per.append('### %s — %s\n\n(not built: %s)\n' % (pid, p['title'], e)); continue
    fixed = [f['id'] for f in kf if pid in props_of(f)]
    opn = [f['id'] for f in openf if pid in props_of(f) and f.get('status') == 'open']
    seeds = sorted(os.path.basename(d) for d in glob.glob(os.path.join(V, 'seeded', pid + '-*')))
    s = '### %s — %s\n\n' % (pid, p['title'])
    s += '*Status:* %s. *Detail:* `docs/%s.md`. *Technique:* %s.\n\n' % ('claimed in MANIFEST.json' if pid in ready else 'built, not yet claimed', pid, m['technique'])
    s += '*What the check establishes:* %s\n\n' % m['level_text']
    s += '*Theorems (%d):* %s.\n\n' % (len(m['theorems']), ', '.join('`%s`' % t for t in m['theorems']))
    s += '*Assumed / trusted:* %s\n\n' % m['level_note']
    s += '*Findings:* fixed: %s; open (KNOWN-FINDING): %s. *Seeded changes:* %s.\n' % (', '.join(fixed) or 'none', ', '.join(opn) or 'none', ', '.join(seeds) or 'none yet')
    per.append(s)
tables = subprocess.run([sys.executable, os.path.join(V, 'tools', 'gen_design_tables.py')], capture_output=True, text=True).stdout
i = tables.index('### Seeded changes')
body = body.replace('@@PER_PROPERTY@@', '\n'.join(per)).replace('@@FINDINGS_TABLES@@', tables[:i]).replace('@@SEEDED_TABLE@@', tables[i:])
open(os.path.join(V, 'DESIGN.md'), 'w').write(body)
print('DESIGN.md written: %d lines' % body.count('\n'))
