#!/bin/bash
# Re-run every seeded change against its check (scratch worktrees; /repo untouched). Writes seeded/RESULTS.tsv
cd /verif; out=seeded/RESULTS.tsv; echo -e "seed\tapplies\tsuite_unchanged\tdemo_with_change\tdemo_on_repo\tconcrete_violations\tno_input_violations" > $out
for d in $(ls -d seeded/C*-* | sort -V); do id=$(basename $d); p=${id%-*}
  log=$(tools/try_seed.sh /verif/$d/patch.diff /verif/$d/demo.py $p 2>&1)
  ap=1; echo "$log" | grep -q "PATCH DOES NOT APPLY" && ap=0
  su=$(echo "$log" | grep -c "667 passed, 8 skipped, 6 xfailed, 4 xpassed")
  dw=$(echo "$log" | grep -o "demo with change rc=[0-9]*" | grep -o "[0-9]*$"); dr=$(echo "$log" | grep -o "demo on /repo rc=[0-9]*" | grep -o "[0-9]*$")
  cv=$(echo "$log" | grep -c "^VIOLATION.*json$"); nv=$(echo "$log" | grep -c "no-failing-input-found")
  echo -e "$id\t$ap\t$su\t$dw\t$dr\t$cv\t$nv" | tee -a $out
done
