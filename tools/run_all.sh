#!/bin/bash
# tools/run_all.sh [tier] [seed...] : run every claimed check against /repo; one line per run
cd /verif; tier=${1:-quick}; shift; seeds=${@:-20260929}
for s in $seeds; do for p in $(cat tools/ready.txt | tr ' ' '\n' | sort); do
  t0=$(date +%s); out=$(VERIF_SEED=$s timeout 3000 ./check $p --tier $tier 2>&1); rc=$?; t1=$(date +%s)
  echo "$p seed=$s rc=$rc $((t1-t0))s :: $(echo "$out" | grep -v '^KNOWN-FINDING' | tail -2 | tr '\n' '~' | cut -c1-260)"
done; done
