#!/bin/bash
# tools/test_round.sh <srcprefix e.g. /tmp/mut2> <offset e.g. 3> Cxx [Cyy ...]: test candidates, save under seeded/<Cxx>-<k+offset> with first result
src=$1; off=$2; shift 2
for p in "$@"; do for k in 1 2 3; do d=${src}_${p}_out/$k; [ -d $d ] || continue
  log=$(/verif/tools/try_seed.sh $d/patch.diff $d/demo.py $p 2>&1)
  cv=$(echo "$log" | grep -c '^VIOLATION.*json$'); nv=$(echo "$log" | grep -c no-failing-input-found)
  su=$(echo "$log" | grep -c '667 passed, 8 skipped, 6 xfailed, 4 xpassed'); dw=$(echo "$log" | grep -o 'demo with change rc=[0-9]*' | grep -o '[0-9]*$'); dr=$(echo "$log" | grep -o 'demo on /repo rc=[0-9]*' | grep -o '[0-9]*$')
  if [ "$cv" -gt 0 ]; then r="caught (concrete input)"; elif [ "$nv" -gt 0 ]; then r="reported without input (no-failing-input-found)"; else r="MISSED"; fi
  n=$((k+off)); echo "$p-$n suite_ok=$su demo_with=$dw demo_repo=$dr concrete=$cv noinput=$nv => $r"
  if [ "$su" = "1" ] && [ "$dw" = "1" ] && [ "$dr" = "0" ]; then
    rm -rf /verif/seeded/$p-$n; cp -r $d /verif/seeded/$p-$n
    python3 - "$p-$n" "$r" "$off" <<'PY'
import json,sys
sid,r,off=sys.argv[1:4]; p='/verif/seeded/%s/meta.json'%sid; m=json.load(open(p)); m['round']=1+int(off)//3
m['verified_by_lead']={'suite_with_change':'667 passed, 8 skipped, 6 xfailed, 4 xpassed','demo_with_change_rc':1,'demo_on_repo_rc':0,'ran':'tools/try_seed.sh seeded/%s/patch.diff seeded/%s/demo.py %s'%(sid,sid,sid.split('-')[0]),'first_detection_result':r}
json.dump(m,open(p,'w'),indent=1)
PY
  else echo "   NOT SAVED (conditions not confirmed)"; fi
done; rm -rf ${src}_${p}_out; done
