#!/bin/bash
# tools/validate.sh Cxx [Cyy ...] : quick check with seeds 1 and 2; prints one line per run
cd /verif
for p in "$@"; do for s in 1 2; do
  out=$(VERIF_SEED=$s timeout 1500 ./check $p --tier quick 2>&1 | tail -4 | tr '\n' '~')
  echo "$p seed=$s :: $out"
done; done
