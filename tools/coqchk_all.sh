#!/bin/bash
# Independent re-check of the compiled development with coqchk (lists axioms of everything loaded). ~2 min.
cd /verif/coq && coqchk -silent -o -Q gen DW -Q model DW -Q proofs DW -Q props DW $(for i in 01 02 03 04 05 06 07 08 09 10 11 12 13 14 15 16 17 18 19 20; do echo -n "DW.C$i "; done)
