#!/bin/bash
# Re-base every seeded/<id>/patch.diff (and candidates given as args) onto /repo HEAD when it no longer applies.
# usage: tools/refresh_seeds.sh [dir ...]   (default: /verif/seeded/*)
dirs="$@"; [ -z "$dirs" ] && dirs=$(ls -d /verif/seeded/*)
head=$(git -C /repo rev-parse HEAD)
for d in $dirs; do
  p=$d/patch.diff
  if git -C /repo apply --check "$p" 2>/dev/null; then echo "$(basename $d): applies"; continue; fi
  ok=0
  for c in $(git -C /repo rev-list HEAD); do
    wt=/tmp/refresh_$$; git -C /repo worktree add -q --detach $wt $c 2>/dev/null || continue
    if (cd $wt && git apply "$p" 2>/dev/null); then
      (cd $wt && git -c user.name=x -c user.email=x@x commit -qam seed && git -c user.name=x -c user.email=x@x rebase -q $head 2>/dev/null)
      if [ $? -eq 0 ]; then (cd $wt && git diff $head HEAD) > $p.new; mv $p.new $p; ok=1; echo "$(basename $d): rebased from $(git -C /repo rev-parse --short $c)"; else (cd $wt && git rebase --abort 2>/dev/null); echo "$(basename $d): REBASE CONFLICT from $(git -C /repo rev-parse --short $c)"; ok=2; fi
      git -C /repo worktree remove --force $wt; break
    fi
    git -C /repo worktree remove --force $wt
  done
  [ $ok -eq 0 ] && echo "$(basename $d): NO BASE FOUND"
done
git -C /repo worktree prune
