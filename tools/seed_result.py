#!/usr/bin/env python3
"""tools/seed_result.py <seed-id> <text> : record the (final) detection result in seeded/<id>/meta.json"""
import sys, json
p='/verif/seeded/%s/meta.json'%sys.argv[1]; m=json.load(open(p))
m.setdefault('verified_by_lead',{})['final_detection_result']=sys.argv[2]
json.dump(m,open(p,'w'),indent=1)
