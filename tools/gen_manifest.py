#!/venv/bin/python
"""Regenerate MANIFEST.json from the META of every harness/props/cXX.py."""
import sys, os, json, glob, importlib
V = os.path.dirname(os.path.dirname(os.path.abspath(__file__)))
sys.path.insert(0, os.path.join(V, 'harness'))
props = [json.loads(l) for l in open(os.path.join(V, 'properties.jsonl'))]
checks, na = [], []
hooks_commits = json.load(open(os.path.join(V, 'tools', 'hooks.json'))) if os.path.exists(os.path.join(V, 'tools', 'hooks.json')) else {'source_commits': []}
for p in props:
    pid = p['id']
    path = os.path.join(V, 'harness', 'props', pid.lower() + '.py')
    ready = set(open(os.path.join(V, 'tools', 'ready.txt')).read().split())
    if pid not in ready and os.path.exists(path):
        na.append({'property_id': pid, 'reason': 'check under construction (module exists, not yet validated on the unchanged tree); not claimed yet'})
        continue
    if not os.path.exists(path):
        na.append({'property_id': pid, 'reason': 'check not built yet (design in DESIGN.md section 4 %s); not claimed' % pid})
        continue
    m = importlib.import_module('props.' + pid.lower()).META
    if m.get('not_applicable'):
        na.append({'property_id': pid, 'reason': m['not_applicable']})
        continue
    checks.append({
        'property_id': pid,
        'quick_cmd': './check %s --tier quick' % pid,
        'thorough_cmd': './check %s --tier thorough' % pid,
        'evidence_file': '/verif/evidence/%s.json' % pid,
        'replay_cmd_template': './check %s --replay {path}' % pid,
        'engine': 'coq-model+correspondence',
        'level_claimed': {'category': m.get('level', 'proof'), 'text': m['level_text'], 'design_ref': m.get('design_ref', 'DESIGN.md section 4')},
        'level_note': m['level_note'],
        'technique': m['technique'],
    })
man = {
    'version': 1,
    'setup_cmd': './setup.sh',
    'hooks': {
        'guard': 'DATACLASS_WIZARD_VERIF',
        'enable': 'checks run /repo with DATACLASS_WIZARD_VERIF=1 in the environment (pure Python, nothing to build)',
        'baseline_off_cmd': 'cd /repo && env -u DATACLASS_WIZARD_VERIF /venv/bin/python -m pytest -ra -q -p no:cacheprovider --timeout=900 --continue-on-collection-errors',
        'source_commits': hooks_commits.get('source_commits', []),
        'add_only': True,
    },
    'engines': [{
        'name': 'coq-model+correspondence', 'path': '/verif/coq + /verif/harness',
        'serves_properties': [c['property_id'] for c in checks],
        'kind_free_text': 'Coq 8.16.1 theorems about a hand-written executable Gallina model (coq/model, coq/proofs, coq/props), tables regenerated '
                          'from /repo on every run (coq/gen), and a differential correspondence check that runs the model (vm_compute) and the '
                          'implementation on the same generated cases; direct property predicates on the implementation serve as the failing-input search.'}],
    'checks': checks,
    'not_applicable': na,
    'notes': 'See DESIGN.md. known_findings.json lists genuine defects (open -> KNOWN-FINDING lines; fixed -> repaired by fix: commits in /repo).',
}
json.dump(man, open(os.path.join(V, 'MANIFEST.json'), 'w'), indent=1)
print('checks:', [c['property_id'] for c in checks], 'n/a:', len(na))
