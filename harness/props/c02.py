"""C02 — dump-then-load is the identity (v1 engine); loader generation never fails.

Theorems: coq/props/C02.v (generation totality, generator soundness at every position,
round trip).  Correspondence: the Gallina model of the v1 code generator + evaluator and the
semantic specification `load_v1` against fromdict on generated class models; through hook H1 the
BINDING SUMMARY of every generated function against the summary of the model's gen_expr.
Direct predicates on every generated case: loader generation never raises; generated code reads
no unbound positional variable; fromdict(asdict(x)) == x and from_json(to_json(x)) == x with
equal concrete types.
"""
import json, itertools, decimal, os, copy
from props import c02gen as G
from props.c02gen import leaf, seq, tup, dct, opt, optr, union, lit, named, typed, data

META = {
    'id': 'C02',
    'title': 'Dump-then-load is the identity (v1 engine); loader generation never fails',
    'level': 'proof',
    'technique': ('Coq proof (mutual induction over the type grammar, step-indexed compiler correctness for the '
                  'generated code incl. helper functions and recursive classes; induction over the resolution walk of '
                  'multi-module surface programs) on a hand-written Gallina model of the v1 code generator and of its '
                  'annotation-resolution front end + differential correspondence with the implementation (outcomes and '
                  'binding summaries of generated functions via hook H1; one- and two-module programs written as real modules)'),
    'design_ref': 'DESIGN.md section 4 C02',
    'theorems': ['C02_gen_total', 'C02_gen_main_total', 'C02_gen_sound', 'C02_gen_sound_coherent', 'C02_gen_expr_sound',
                 'C02_roundtrip_partial', 'C02_roundtrip_code_partial', 'C02_refuted_F9',
                 'C02_resolve_total_partial', 'C02_denote_sound', 'C02_nested_own_namespace', 'C02_walk_own_namespace',
                 'C02_surface_gen_total_partial', 'C02_surface_class_denotes', 'C02_surface_sound', 'C02_resolve_refuted'],
    'tables': [],
    'level_text': ('Proved in Coq for ALL class tables over the model grammar, all positions (TypeInfo), all documents and '
                   'all budgets: (a) every supported annotation generates; (b) the generated program equals the semantic '
                   'specification load_v1 whenever the final generator state passes two decidable checks (coherent, '
                   'region_ok) (c) load_v1 '
                   'inverts the dumper on conforming values (leaf laws as hypotheses); (d) for ALL surface programs (any number '
                   'of modules, classes, NamedTuples, TypedDicts, `type` aliases; annotations with Annotated / Required / '
                   'NotRequired / ReadOnly / aliases / quoted names in any nesting, at any depth) inside the decidable region '
                   'okb, resolution succeeds and yields the type the annotation denotes irrespective of the nesting order, every '
                   'nested dataclass is resolved in its OWN module whatever the root / path / depth, and resolution + code '
                   'generation never fails; outside okb the pinned code fails on annotations that denote a type '
                   '(C02_resolve_refuted, finding F70). The model is re-validated against the implementation on every run.'),
    'level_note': ('Trusted: Coq kernel + vm_compute; the hand-written model of v1/loaders.py, v1/decorators.py, '
                   'v1/models.py (statement skeletons of helper functions are shared between evaluator and specification; '
                   'the position-dependent expressions are what is proved); leaf conversions are an oracle (the library\'s '
                   'own loader at a top-level field); the harness.'),
    'rule': ('class models: every leaf type x every container context at depth 1, every ordered pair of contexts at depth 2 '
             '(rotating leaf), a sample of depth-3 compositions, random models, recursive / mutually recursive classes, '
             'key cases (as-is, explicit, AUTO x every dump transform) with canonical AND mixedCase / digit / upper-run field names; '
             'Unions and Literals as members of sibling NamedTuple / TypedDict / dataclass types within one field and below '
             'field-level Unions; Union[None, T]; one to three conforming instances each; SURFACE programs: every wrapper stack '
             '(Annotated, Required, NotRequired, ReadOnly, `type` alias, quoted name) of length <= 2 and a sample (thorough: all) '
             'of length 3 x base type x position (field, list / dict / Optional / tuple argument, NamedTuple field, TypedDict '
             'required / optional key, nested dataclass field), as one module and as two modules (the program in a lower module, '
             'nested below a root of an upper module that does not bind its names); every third case with a nested class is split '
             'into two modules with every dataclass reference of the lower module a quoted name inside its generic (module '
             'imported as a module only / names imported / typing generics); the recursive JSON alias at a field, in containers, '
             'under Annotated and under Required / NotRequired. '
             'A case is non-trivial when the field annotation has depth >= 2 or uses a helper-compiled type; '
             'distinct = distinct (annotation, key case) / distinct document.'),
    'trusted_base': ['model coq/model/V1Gen.v transcribes get_string_for_annotation and setup_recursive_safe_function',
                     'model coq/model/V1Annot.v transcribes the front of get_string_for_annotation (string evaluation, '
                     'Annotated / qualifier strip, alias step, dispatch), eval_forward_ref_if_needed / typing._eval_type '
                     '(deep evaluation in the globals of one module; ForwardRef.__forward_module__ for TypedDict keys) and the '
                     'extras[\'cls\'] switch of load_func_for_dataclass; how Python itself turns source text into annotation '
                     'objects (typing flattens Annotated[Annotated[..]], TypedDict reads qualifiers) is trusted',
                     'leaf conversions (int/float/str/bool/bytes/date/... loaders) are not modelled: oracle tables computed '
                     'by the implementation at a top-level field'],
    'assumptions': ['NamedTuple fields without defaults; Union alternatives are not dataclasses (C13 covers tagged unions)',
                    'surface programs: qualifiers only in TypedDict keys, wrappers not directly on Union members (F72), a quoted '
                    'name is a bare name bound (or not) in the globals of a module; recursive aliases are outside the Gallina '
                    'model (a core type is a finite tree): direct predicates only',
                    'conforming instances contain no NaN and (F3) no negative timedelta'],
}

BUDGET = 14
IMPORTS = ['PyStr', 'V1Base', 'V1Gen', 'V1Errors', 'V1Eval', 'V1Show', 'V1Annot']
SIMPLE = ['int', 'str', 'float', 'bool']
ALL_LEAVES = ['str', 'int', 'float', 'bool', 'none', 'nonebare', 'bytes', 'bytearray', 'uuid', 'decimal', 'path', 'date', 'time',
              'datetime', 'timedelta', 'any', 'enum:Color', 'enum:Num']


# Unions whose dumped form is unambiguous (exact-type dispatch for the simple members, at most one
# member that parses text) and Literals: used like leaves, in particular INSIDE NamedTuple / TypedDict /
# dataclass members that are siblings within one field, and below field-level Unions.
ATOMS = [
    ('U[int,str]', lambda: union(leaf('int'), leaf('str'))),
    ('U[float,bool]', lambda: union(leaf('float'), leaf('bool'))),
    ('U[int,float]', lambda: union(leaf('int'), leaf('float'))),
    ('U[bytes,int]', lambda: union(leaf('bytes'), leaf('int'))),
    ('U[None,int,bytes]', lambda: union(leaf('none'), leaf('int'), leaf('bytes'))),
    ('U[bytearray,int]', lambda: union(leaf('bytearray'), leaf('int'))),
    ('U[str,float,None]', lambda: union(leaf('str'), leaf('float'), leaf('none'))),
    ('U[int,list[int]]', lambda: union(leaf('int'), seq('list', leaf('int')))),
    ('U[bool,dict[str,int]]', lambda: union(leaf('bool'), dct(leaf('str'), leaf('int')))),
    ("L['a','b']", lambda: lit('a', 'b')),
    ('L[1,2]', lambda: lit(1, 2)),
    ('L[True]', lambda: lit(True)),
    ("L['x',3,None]", lambda: lit('x', 3, None)),
]
HELPER_CTX = ['named', 'typedr', 'typedo', 'data']
# field names beyond canonical snake_case (mixedCase, digits, upper-case runs, trailing underscore):
# under AUTO and under every explicit key case the unchanged tree round-trips all of them
VARIED_NAMES = ['nodeId', 'rawData', 'xq', 'Name', 'node2Ix', 'URLPath', 'myHTTPServer', 'get_HTTP_code', 'k9s',
                'camelCaseName', 'ab_cd', 'trail_', 'zz']


# ---------------------------------------------------------------------------------- model builder
class MB:
    def __init__(self, mi, key_case=None, dump=None, json_ok=True):
        self.mi = mi
        self.m = {'classes': [], 'named': {}, 'typed': {}, 'key_case': key_case, 'dump': dump, 'root': 0,
                  'instances': [], 'docs': [], 'json': json_ok}
        self.n = 0

    def fresh(self, p):
        self.n += 1
        return 'K%d%s%d' % (self.mi, p, self.n)

    def cls(self, fields, name=None):
        """fields: list of (name, ty) or (name, ty, default) -> class index"""
        c = {'name': name or self.fresh('c'), 'fields': []}
        self.m['classes'].append(c)
        for f in fields:
            c['fields'].append({'name': f[0], 'ty': f[1], 'default': f[2] if len(f) > 2 else None})
        return len(self.m['classes']) - 1

    def named(self, fs):
        n = self.fresh('n')
        self.m['named'][n] = [list(x) for x in fs]
        return named(n)

    def typed(self, req, optk):
        n = self.fresh('t')
        self.m['typed'][n] = {'req': [list(x) for x in req], 'opt': [list(x) for x in optk]}
        return typed(n)


# contexts: name -> (function(t, mb) -> type, needs_hashable_hole, result_hashable)
def _ctx_data(t, mb):
    c = mb.cls([('inner_val', t), ('other_num', leaf('int'), 'int0')])
    return data(c)


CONTEXTS = {
    'list': lambda t, mb: seq('list', t),
    'set': lambda t, mb: seq('set', t),
    'frozenset': lambda t, mb: seq('frozenset', t),
    'deque': lambda t, mb: seq('deque', t),
    'tuplevar': lambda t, mb: seq('tuple', t),
    'tup0': lambda t, mb: tup(t, leaf('str')),
    'tup1': lambda t, mb: tup(leaf('int'), t),
    'dictv': lambda t, mb: dct(leaf('str'), t),
    'dictk': lambda t, mb: dct(t, leaf('int')),
    'ddictv': lambda t, mb: dct(leaf('str'), t, dd=True),
    'ddictk': lambda t, mb: dct(t, seq('list', leaf('int')), dd=True),
    'odictv': lambda t, mb: dct(leaf('str'), t, od=True),
    'odictk': lambda t, mb: dct(t, leaf('int'), od=True),
    'opt': lambda t, mb: opt(t),
    'optr': lambda t, mb: optr(t),
    'named': lambda t, mb: mb.named([('aa', leaf('int')), ('bb', t)]),
    'typedr': lambda t, mb: mb.typed([('rk', t)], []),
    'typedo': lambda t, mb: mb.typed([('rk', leaf('int'))], [('ok', t)]),
    'data': _ctx_data,
}
NEEDS_HASHABLE = {'set', 'frozenset', 'dictk', 'ddictk', 'odictk'}


def ctx_ok(name, t, model):
    if name in NEEDS_HASHABLE and not G.hashable_ty(t, model):
        return False
    if name in ('opt', 'optr') and (t['k'] in ('opt', 'optr', 'union') or t == leaf('none') or t == leaf('nonebare') or t == leaf('any')):
        return False
    if name == 'ddictv' and not ((t['k'] == 'leaf' and t['l'] in ('str', 'int', 'float', 'bool')) or
                                 (t['k'] == 'seq' and t['kind'] in ('list', 'set')) or
                                 (t['k'] == 'dict' and not t['dd'])):
        return False
    if name in ('dictk', 'ddictk', 'odictk') and t['k'] == 'leaf' and t['l'] in ('none', 'nonebare', 'bool', 'float'):
        return False          # None / True / 1.0 keys: equal keys collapse (1 == True == 1.0)
    return True


def compose(ctxs, l, mb):
    """apply contexts innermost-first to leaf l (a leaf name, or an atom: a ready-made type);
    None when a constraint fails"""
    t = leaf(l) if isinstance(l, str) else l
    for c in ctxs:
        if not ctx_ok(c, t, mb.m):
            return None
        t = CONTEXTS[c](t, mb)
    return t


JSON_KEY_LEAVES = ('str', 'int', 'uuid', 'bytes', 'decimal', 'path', 'date', 'time', 'datetime', 'timedelta', 'enum:Color')


def json_keys_ok(t, model):
    """dict keys whose dumped form is a JSON object key that loads back (text-valued dumps, ints)"""
    for s in G.subtypes(t, model):
        if s['k'] == 'dict' and not (s['kt']['k'] == 'leaf' and s['kt']['l'] in JSON_KEY_LEAVES):
            return False
    return True


# ---------------------------------------------------------------------------------- values
def _dec(tok):
    return decimal.Decimal(tok)


LEAF_POOL = {
    'int': lambda r: ['I', str(r.choice([0, 1, -1, 7, 42, -300, 2 ** 40, 10 ** 25, r.randrange(-10 ** 6, 10 ** 6)]))],
    'str': lambda r: ['S', r.choice(['', 'a', 'abc', '12', 'true', 'x y', 'é✓', 'None', '1.5', 'Z', 'q' * r.randrange(1, 9)])],
    'float': lambda r: ['F', float(r.choice([0.0, 1.5, -2.25, 3.0, 1e300, 1e-7, r.uniform(-1e3, 1e3)])).hex()],
    'bool': lambda r: ['B', r.random() < 0.5],
    'none': lambda r: ['N'],
    'nonebare': lambda r: ['N'],
    'bytes': lambda r: ['Y', bytes(r.randrange(256) for _ in range(r.choice([0, 1, 2, 5]))).hex()],
    'bytearray': lambda r: ['A', bytes(r.randrange(256) for _ in range(r.choice([0, 1, 3]))).hex()],
    'uuid': lambda r: ['O', 'uuid', '%08x-0000-4000-8000-%012x' % (r.randrange(2 ** 32), r.randrange(2 ** 48))],
    'decimal': lambda r: ['O', 'decimal', r.choice(['0', '1.5', '-2.25', '100', '3.14159', '1E+3', '0.001'])],
    'path': lambda r: ['O', 'path', r.choice(['a', 'a/b', '/x/y.txt', '.', 'rel/p q'])],
    'date': lambda r: ['O', 'date', '%04d-%02d-%02d' % (r.choice([1, 1999, 2024]), r.randrange(1, 13), r.randrange(1, 29))],
    'time': lambda r: ['O', 'time', r.choice(['00:00:00', '12:34:56', '23:59:59.000123', '01:02:03+00:00', '07:00:00+05:30'])],
    'datetime': lambda r: ['O', 'datetime', r.choice(['2024-01-02T03:04:05', '1999-12-31T23:59:59.500000',
                                                      '2024-06-01T00:00:00+00:00', '2001-02-03T04:05:06-07:00'])],
    'timedelta': lambda r: ['O', 'timedelta', r.choice(['0,0,0', '0,5,0', '1,0,0', '2,3661,0', '0,0,250000', '400,86399,999999'])],
    'any': lambda r: r.choice([['I', '5'], ['S', 'any'], ['N'], ['B', True], ['F', (2.5).hex()]]),
    'enum:Color': lambda r: ['O', 'enum:Color', r.choice(['RED', 'GREEN', 'BLUE'])],
    'enum:Num': lambda r: ['O', 'enum:Num', r.choice(['ONE', 'TWO', 'TEN'])],
}


def eq_key(v):
    """key under which two generated values of ONE type are == in Python"""
    if v[0] == 'O' and v[1] == 'decimal':
        return ('dec', str(_dec(v[2]).normalize()))
    if v[0] == 'F':
        return ('f', float.fromhex(v[1]))
    return json.dumps(v, sort_keys=True)


def distinct(vals):
    seen, out = set(), []
    for v in vals:
        k = eq_key(v)
        if k not in seen:
            seen.add(k)
            out.append(v)
    return out


def gen_value(r, t, model, depth=0, neg_td=False):
    k = t['k']
    if k == 'leaf':
        if t['l'] == 'timedelta' and neg_td:
            return ['O', 'timedelta', '-1,86399,0']
        return LEAF_POOL[t['l']](r)
    n = r.choice([0, 1, 2, 3]) if depth < 3 else r.choice([0, 1])
    if k == 'seq':
        vals = [gen_value(r, t['t'], model, depth + 1, neg_td) for _ in range(n)]
        if t['kind'] in ('set', 'frozenset'):
            vals = distinct(vals)
        return [G.SEQ_TAG[t['kind']], vals]
    if k == 'tuple':
        return ['T', [gen_value(r, x, model, depth + 1, neg_td) for x in t['ts']]]
    if k == 'dict':
        keys = distinct([gen_value(r, t['kt'], model, depth + 1, neg_td) for _ in range(n)])
        return ['D', G.dd_factory(t['vt']) if t['dd'] else 'OrderedDict' if t.get('od') else None,
                [[kk, gen_value(r, t['vt'], model, depth + 1, neg_td)] for kk in keys]]
    if k in ('opt', 'optr'):
        return ['N'] if r.random() < 0.3 else gen_value(r, t['t'], model, depth, neg_td)
    if k == 'union':
        return gen_value(r, r.choice(t['ts']), model, depth, neg_td)
    if k == 'lit':
        v = r.choice(t['vs'])
        return ['N'] if v is None else ['B', v] if isinstance(v, bool) else ['I', str(v)] if isinstance(v, int) else ['S', v]
    if k == 'named':
        return ['M', t['name'], [gen_value(r, x, model, depth + 1, neg_td) for _, x in model['named'][t['name']]]]
    if k == 'typed':
        d = model['typed'][t['name']]
        items = [[['S', key], gen_value(r, x, model, depth + 1, neg_td)] for key, x in d['req']]
        items += [[['S', key], gen_value(r, x, model, depth + 1, neg_td)] for key, x in d['opt'] if r.random() < 0.6]
        return ['D', None, items]
    if k == 'data':
        return gen_inst(r, t['c'], model, depth + 1, neg_td)
    raise ValueError(k)


def gen_inst(r, c, model, depth=0, neg_td=False):
    cd = model['classes'][c]
    fs = []
    for f in cd['fields']:
        t = f['ty']
        if depth > 4 and _recursive_escape(t):
            fs.append([f['name'], _escape_value(t)])
        else:
            fs.append([f['name'], gen_value(r, t, model, depth, neg_td)])
    return ['C', cd['name'], fs]


def _recursive_escape(t):
    return t['k'] in ('opt', 'seq', 'dict')


def _escape_value(t):
    return ['N'] if t['k'] == 'opt' else [G.SEQ_TAG[t['kind']], []] if t['k'] == 'seq' else \
        ['D', G.dd_factory(t['vt']) if t['dd'] else 'OrderedDict' if t.get('od') else None, []]


def has_neg_td_any(x):
    if isinstance(x, list):
        if len(x) == 3 and x[0] == 'O' and x[1] == 'timedelta' and isinstance(x[2], str) and x[2].startswith('-'):
            return True
        return any(has_neg_td_any(y) for y in x)
    return False


REGION_ID = {'F3': 'F3-neg-timedelta-v1', 'F9': 'F9-v1-same-name', 'F28': 'F28-dump-frozenset-in-dict-key',
             'F52': 'F52-v1-union-none-first', 'F53': 'F53-v1-union-list-before-dict',
             'F70': 'F70-v1-annotation-single-pass', 'F71': 'F71-v1-helper-fwdref-namespace'}


def open_region(ctx, reg):
    return bool(reg) and reg not in RESOLVED and ctx.is_open_region(REGION_ID[reg])


# ---------------------------------------------------------------------------------- case construction
def frozenset_in_key(m):
    """some dict key type of the model contains a frozenset (the dumper turns it into a list)"""
    for c in m['classes']:
        for f in c['fields']:
            for s in G.subtypes(f['ty'], m):
                if s['k'] == 'dict' and any(x['k'] == 'seq' and x['kind'] == 'frozenset' for x in G.subtypes(s['kt'], m)):
                    return True
    return False


def list_before_dict(t, model):
    """F53: a Union in which a list / set / tuple[...] member is tried before a dict member"""
    for s in G.subtypes(t, model):
        if s['k'] == 'union':
            seen_seq = False
            for x in s['ts']:
                if x['k'] == 'seq':
                    seen_seq = True
                if x['k'] == 'dict' and seen_seq:
                    return True
    return False


def model_any(m, pred):
    return any(pred(f['ty'], m) for c in m['classes'] for f in c['fields'])


def has_bare_none(t, model):
    return any(s['k'] == 'leaf' and s['l'] == 'nonebare' for s in G.subtypes(t, model))


def model_has_bare_none(m):
    return any(has_bare_none(f['ty'], m) for c in m['classes'] for f in c['fields'])


def predicted_clean(t, model):
    """Decides only how fields are PACKED into classes: the shapes of the repaired defects (nested fixed
    tuples F18, sequences in dict keys F48, several Literals / Unions in one field F22, bare None F49) and
    of the open dump defect F28 get a class of their own, so that a regression is reported with a
    minimal concrete input."""
    if has_bare_none(t, model) or any(s['k'] == 'optr' for s in G.subtypes(t, model)) or list_before_dict(t, model):
        return False
    if any(s['k'] == 'dict' and any(x['k'] == 'seq' and x['kind'] == 'frozenset' for x in G.subtypes(s['kt'], model))
           for s in G.subtypes(t, model)):
        return False
    if not (G.f18_free(t, False, model) and G.keyseq_free(t, False, model)):
        return False
    lits = [json.dumps(s['vs']) for s in G.subtypes(t, model) if s['k'] == 'lit']
    uns = [json.dumps(s['ts'], sort_keys=True) for s in G.subtypes(t, model) if s['k'] == 'union']
    return len(set(lits)) <= 1 and len(set(uns)) <= 1



# ---------------------------------------------------------------------------------- surface cases
# (annotation-resolution front end: aliases, Annotated, Required / NotRequired / ReadOnly, forward references
#  inside generics, one-module and two-module programs; Gallina: coq/model/V1Annot.v)
S_BASES = [
    ('int', lambda mb: leaf('int')),
    ('list[int]', lambda mb: seq('list', leaf('int'))),
    ('D', lambda mb: data(mb.cls([('inner_val', leaf('int')), ('other_name', leaf('str'), 'str0')]))),
    ('Opt[str]', lambda mb: opt(leaf('str'))),
    ('NT', lambda mb: mb.named([('aa', leaf('int')), ('bb', leaf('bytes'))])),
    ('dict[str,date]', lambda mb: dct(leaf('str'), leaf('date'))),
    ("Lit['a','b']", lambda mb: lit('a', 'b')),
    ('Color', lambda mb: leaf('enum:Color')),
    ('tuple[int,str]', lambda mb: tup(leaf('int'), leaf('str'))),
]
S_POS = {'field': None, 'list': 'list', 'dictv': 'dictv', 'opt': 'opt', 'tup1': 'tup1', 'named': 'named',
         'tdreq': 'typedr', 'tdopt': 'typedo', 'data': 'data'}
S_WRAPS = ['ann', 'alias', 'str', 'Required', 'NotRequired', 'ReadOnly']


def stack_legal(stack, pos, base_t):
    """annotations Python accepts with the meaning the harness intends: qualifiers only in TypedDict keys,
    at most one of Required / NotRequired, NotRequired visible to TypedDict (through Annotated / qualifiers only)
    exactly at optional keys; Annotated[Annotated[..]] is not a distinct object (typing flattens it)"""
    if any(a == 'ann' and b == 'ann' for a, b in zip(stack, stack[1:])):
        return False
    quals = [w for w in stack if w in G.QUALS]
    if quals and pos not in ('tdreq', 'tdopt'):
        return False
    if len([q for q in quals if q != 'ReadOnly']) > 1 or quals.count('ReadOnly') > 1:
        return False
    visible = []
    for w in stack:
        if w == 'ann' or w in G.QUALS:
            visible.append(w)
        else:
            break
    if pos == 'tdopt' and 'NotRequired' not in visible:
        return False
    if pos == 'tdreq' and 'NotRequired' in stack:
        return False
    if pos == 'opt' and base_t['k'] == 'opt':
        return False
    nstr = list(stack).count('str')
    if nstr and base_t['k'] == 'leaf' and base_t['l'].startswith('enum:'):
        # every generated module defines its own Color / Num: a quoted 'Color' below a typing construct is ONE cached
        # ForwardRef object for the whole interpreter (typing caches Annotated["Color", 1]) and keeps the class of the
        # first module that evaluated it.  Names of generated classes are unique per model; these two are not.
        return False
    if nstr > 2 or (nstr > 1 and base_t['k'] == 'lit'):      # quoting depth of the printed source
        return False
    return True


def apply_stack(stack, node, model, holder_mod, fresh):
    """wrap a surface node, innermost wrapper last in `stack`"""
    for w in reversed(stack):
        if w == 'ann':
            node = G.s_ann(node)
        elif w == 'str':
            node = G.s_str(node)
        elif w == 'alias':
            x = fresh()
            model['surface']['aliases'][x] = node
            model['surface']['mod_of']['alias:' + x] = holder_mod
            node = G.s_alias(x)
        else:
            node = G.s_qual(w, node)
    return node


def surface_wrapped(mi, stacks_bases_pos, two_mod, twice=False):
    """one model whose root has one field per (stack, base, position): the base type, wrapped by the stack,
    sits at the position.  two_mod: everything lives in module 0 and a new root in module 1 nests the old one."""
    mb = MB(mi)
    mb.cls([])
    fields = []
    for j, (stack, (bn, bf), pos) in enumerate(stacks_bases_pos):
        b = bf(mb)
        b['_hole'] = j + 1
        t = b if S_POS[pos] is None else CONTEXTS[S_POS[pos]](b, mb)
        fields.append({'name': G.FIELD_NAMES[j % len(G.FIELD_NAMES)], 'ty': t, 'default': None})
    mb.m['classes'][0]['fields'] = fields
    m = mb.m
    mod_of = None
    if two_mod:
        w = mb.cls([('inner_box', data(0)), ('tail_num', leaf('int'), 'int0')])
        m['root'] = w
        mod_of = {'data:%d' % i: 0 for i in range(w)}
        mod_of.update({'named:' + n: 0 for n in m['named']})
        mod_of.update({'typed:' + n: 0 for n in m['typed']})
        mod_of['data:%d' % w] = 1
    G.auto_surface(m, mod_of)
    n = [0]

    def fresh():
        n[0] += 1
        return 'K%dA%d' % (mi, n[0])
    for j, (stack, _, pos) in enumerate(stacks_bases_pos):
        for where, holder, idx, sa in G.surface_annotations(m):
            path = _find_mark(sa, j + 1)
            if path is None:
                continue
            hm = m['surface']['mod_of']['data:%d' % holder] if where == 'cls' else \
                m['surface']['mod_of']['%s:%s' % (where.split('-')[0], holder)]
            node = _node_at(sa, path)
            new = apply_stack(stack, {k: v for k, v in node.items() if k != '_hole'}, m, hm, fresh)
            if twice and new['k'] == 'ann':
                new['twice'] = True
            G.set_annotation(m, where, holder, idx, G.replace_at(sa, path, new))
            break
    G.strip_marks(m['classes'])
    G.strip_marks(m['named'])
    G.strip_marks(m['typed'])
    G.strip_marks(m['surface'])
    m['json'] = True
    return mb


def _find_mark(s, mark):
    if s.get('_hole') == mark:
        return []
    for i, c in enumerate(G.s_children(s)):
        p = _find_mark(c, mark)
        if p is not None:
            return [i] + p
    return None


def _node_at(s, path):
    for i in path:
        s = G.s_children(s)[i]
    return s


def all_stacks(max_len):
    out = []
    for n in range(1, max_len + 1):
        out.extend(itertools.product(S_WRAPS, repeat=n))
    return out


def split_lower(m):
    """classes (other than the root) from which the root is not reachable, with the helpers they use:
    they can live in a lower module"""
    n = len(m['classes'])
    reach = {}
    for i in range(n):
        seen, todo = set(), [i]
        while todo:
            c = todo.pop()
            for f in m['classes'][c]['fields']:
                for s in G.subtypes(f['ty'], m):
                    if s['k'] == 'data' and s['c'] not in seen:
                        seen.add(s['c'])
                        todo.append(s['c'])
        reach[i] = seen
    root = m.get('root', 0)
    lower = [i for i in range(n) if i != root and root not in reach[i] and i in reach[root]]
    mod_of = {'data:%d' % i: (0 if i in lower else 1) for i in range(n)}
    used_low, used_up = set(), set()
    for i in range(n):
        for f in m['classes'][i]['fields']:
            for s in G.subtypes(f['ty'], m):
                if s['k'] in ('named', 'typed'):
                    (used_low if i in lower else used_up).add('%s:%s' % (s['k'], s['name']))
    for k in list(m['named']) + list(m['typed']):
        pass
    for it in ['named:' + x for x in m['named']] + ['typed:' + x for x in m['typed']]:
        mod_of[it] = 0 if it in used_low else 1
    return lower, mod_of


def helper_refs_ok(m, mod_of):
    """no helper of the lower module refers to something of the upper one"""
    for it, mm in mod_of.items():
        kind, x = it.split(':', 1)
        if kind == 'data' or mm != 0:
            continue
        items = m['named'][x] if kind == 'named' else m['typed'][x]['req'] + m['typed'][x]['opt']
        for _, t in items:
            for s in G.subtypes(t, m):
                it2 = G.item_of(s)
                if it2 and mod_of.get(it2) == 1:
                    return False
    return True


def split_modules(mb, variant):
    """turn a one-module case into a two-module program: the classes below the root that do not refer back to
    it (and their helpers) move to a lower module, where EVERY dataclass reference in a dataclass field is a
    quoted name inside its generic; the upper module imports the lower one as a module only (variant 0/2)
    or also its names (variant 1).  Returns False when the case has nothing to split."""
    m = mb.m
    if m.get('named_alias') or m.get('load_meta') or any(c.get('meta') for c in m['classes']) or m.get('surface'):
        return False
    if any(f.get('path') or f.get('alias') for c in m['classes'] for f in c['fields']):
        return False
    lower, mod_of = split_lower(m)
    if not lower or not helper_refs_ok(m, mod_of):
        return False
    names = [m['classes'][i]['name'] for i in lower] + [it.split(':', 1)[1] for it, mm in mod_of.items()
                                                         if mm == 0 and not it.startswith('data:')]
    G.auto_surface(m, mod_of, fwd_mods=(0,), imports={1: names} if variant == 1 else None, tg=(variant == 2))
    surf = m['surface']
    if any(x['k'] == 'str' for ss in surf['named'].values() for s in ss for x in _walk(s)) or \
            any(x['k'] == 'str' for d in surf['typed'].values() for s in d['req'] + d['opt'] for x in _walk(s)):
        del m['surface']        # a quoted name inside a NamedTuple / TypedDict: namespace of the enclosing dataclass (F71)
        return False
    m.pop('ann_style', None)
    return True


def _walk(s):
    yield s
    for c in G.s_children(s):
        yield from _walk(c)


def json_alias_model(mi, where):
    """the recursive alias `type J = str | int | float | bool | dict[str, J] | list[J] | None` (outside the
    Gallina model: a core type is a finite tree), used at a field, inside containers, under Annotated and under
    the TypedDict qualifiers.  Core = the alias unfolded twice (values of the unfolding conform to the alias)."""
    mb = MB(mi)
    scal = [leaf('str'), leaf('int'), leaf('float'), leaf('bool')]
    j0 = union(*scal, leaf('none'))
    j1 = union(*scal, dct(leaf('str'), j0), seq('list', j0), leaf('none'))
    j2 = union(*scal, dct(leaf('str'), j1), seq('list', j1), leaf('none'))
    x = 'K%dJ' % mi
    ja = G.s_alias(x)
    td = mb.typed([('name', leaf('str')), ('value', copy.deepcopy(j2))], [('payload', copy.deepcopy(j2))])
    spec = {'field': ([('alpha', copy.deepcopy(j2)), ('beta_val', seq('list', copy.deepcopy(j2)))],
                      [ja, seq('list', ja)]),
            'ann': ([('alpha', copy.deepcopy(j2)), ('beta_val', dct(leaf('str'), copy.deepcopy(j2))), ('gamma2', opt(copy.deepcopy(j1)))],
                    [G.s_ann(ja), dct(leaf('str'), G.s_ann(ja)), opt(G.s_ann(ja))]),
            'typed': ([('alpha', seq('list', td)), ('beta_val', dct(leaf('str'), td))],
                      [seq('list', td), dct(leaf('str'), td)])}[where]
    mb.cls(spec[0])
    m = mb.m
    G.auto_surface(m)
    surf = m['surface']
    surf['aliases'][x] = union(*scal, dct(leaf('str'), ja), seq('list', ja), leaf('none'))
    surf['aliases'][x]['bar'] = where != 'ann'
    surf['mod_of']['alias:' + x] = 0
    surf['recursive_alias'] = True
    surf['cls'][0] = spec[1]
    surf['typed'][td['name']] = {'req': [leaf('str'), G.s_qual('Required', ja)], 'opt': [G.s_qual('NotRequired', ja)], 'total': True}
    return mb


def helper_ns_model(mi, kind, reach_low_first):
    """F71 (open): a NamedTuple / TypedDict of the lower module whose own annotation quotes a name of the lower
    module (list['Leaf']), used by a dataclass of the upper module, where that name is not bound"""
    mb = MB(mi)
    mb.cls([])
    lf = mb.cls([('leaf_val', leaf('int'))])
    h = mb.named([('aa', leaf('int')), ('ls', seq('list', data(lf)))]) if kind == 'named' else \
        mb.typed([('aa', leaf('int')), ('ls', seq('list', data(lf)))], [])
    fields = [('alpha', h), ('beta_val', leaf('int'))]
    mod_of = {'data:0': 1, 'data:%d' % lf: 0, '%s:%s' % (h['k'], h['name']): 0}
    if reach_low_first:          # the helper is generated first below a dataclass of the LOWER module: well scoped
        box = mb.cls([('boxed', h)])
        mod_of['data:%d' % box] = 0
        fields = [('alpha', data(box)), ('beta_val', leaf('int'))]
    mb.m['classes'][0]['fields'] = [{'name': n, 'ty': t, 'default': None} for n, t in fields]
    G.auto_surface(mb.m, mod_of)
    surf = mb.m['surface']
    sl = seq('list', G.s_str(data(lf)))
    if kind == 'named':
        surf['named'][h['name']][1] = sl
    else:
        surf['typed'][h['name']]['req'][1] = sl
    return mb


def surface_cases(ctx, mi):
    r = ctx.sub_rng('surface')
    quick = ctx.tier == 'quick'
    out = []

    def nxt():
        mi[0] += 1
        return mi[0]

    nb, positions = len(S_BASES), list(S_POS)
    stacks = all_stacks(2)
    three = all_stacks(3)[len(stacks):]
    r.shuffle(three)
    stacks = stacks + three[:(40 if quick else len(three))]
    combos = []
    k = 0
    for st in stacks:
        tdpos = ['tdreq', 'tdopt'] if any(w in G.QUALS for w in st) else positions
        if quick:
            picks = [(S_BASES[(k * 2 + j) % nb], tdpos[(k + 3 * j) % len(tdpos)]) for j in range(2)]
        else:
            picks = [(S_BASES[(k + j) % nb], p) for j, p in enumerate(tdpos)] + \
                    [(S_BASES[(k * 2 + 1 + j) % nb], p) for j, p in enumerate(tdpos)]
        k += 1
        for (b, pos) in picks:
            if stack_legal(st, pos, b[1](MB(0))):
                combos.append((st, b, pos))
    # probe every combination on its own to learn whether the single pass handles it (Python mirror of the
    # model); the ones it handles are packed five per class, the others keep a class of their own
    good, bad = [], []
    for cb in combos:
        probe = surface_wrapped(0, [cb], False)
        (bad if G.surface_verdict(probe.m) else good).append(cb)
    ci = 0
    for i in range(0, len(good), 5):
        pack = good[i:i + 5]
        two = (ci % 2 == 1)
        out.append(('surf:%s[%s]' % ('2mod' if two else '1mod', ' + '.join('%s<%s>@%s' % ('.'.join(st), b[0], pos) for st, b, pos in pack)),
                    surface_wrapped(nxt(), pack, two, twice=(ci % 3 == 2))))
        ci += 1
    for j, cb in enumerate(bad):
        st, b, pos = cb
        out.append(('surf:%s[%s<%s>@%s]' % ('2mod' if j % 2 else '1mod', '.'.join(st), b[0], pos), surface_wrapped(nxt(), [cb], bool(j % 2))))
    # the recursive JSON alias (direct predicates only)
    for where in ('field', 'ann', 'typed'):
        out.append(('surf:json-alias@%s' % where, json_alias_model(nxt(), where)))
    # helper types that quote names of their own module, used from another module (F71) and the neighbour
    # in which the helper is first generated below a dataclass of its own module
    for kind in ('named', 'typed'):
        out.append(('surf:F71:%s-from-upper' % kind, helper_ns_model(nxt(), kind, False)))
        out.append(('surf:%s-below-lower-class' % kind, helper_ns_model(nxt(), kind, True)))
    return out


def build_cases(ctx):
    """-> list of (label, MB).  Every MB has a root class 0 and instances."""
    r = ctx.sub_rng('models')
    quick = ctx.tier == 'quick'
    cases = []
    mi = [0]
    pending = []   # (label, ctxs, leaf) clean fields to pack

    def new_mb(kc=None, dump=None):
        mi[0] += 1
        return MB(mi[0], kc, dump)

    def flush(pack, kc=None, dump=None, names=None):
        """pack: list of (label, ctxs, leaf).  Builds one model whose root has these fields."""
        names = names or G.FIELD_NAMES
        mb = new_mb(kc, dump)
        root = mb.cls([])            # reserve index 0 for the root
        fields, labels = [], []
        for i, (label, ctxs, l) in enumerate(pack):
            t = compose(ctxs, l, mb)
            if t is None:
                continue
            fields.append({'name': names[len(fields) % len(names)] + ('' if len(fields) < len(names) else 'x'),
                           'ty': t, 'default': None})
            labels.append(label)
        if not fields:
            return
        mb.m['classes'][0]['fields'] = fields
        mb.m['json'] = all(json_keys_ok(f['ty'], mb.m) for c in mb.m['classes'] for f in c['fields'])
        cases.append(('+'.join(labels), mb))

    def add(label, ctxs, l):
        mb = MB(0)
        mb.cls([])
        t = compose(ctxs, l, mb)
        if t is None:
            return
        if predicted_clean(t, mb.m):
            pending.append((label, ctxs, l))
            if len(pending) >= 5:
                flush(pending[:])
                pending.clear()
        else:
            flush([(label, ctxs, l)])

    names = list(CONTEXTS)
    # depth 0 and 1: every leaf at field top level and in every context
    for l in ALL_LEAVES:
        add('%s' % l, [], l)
        for c in names:
            add('%s(%s)' % (c, l), [c], l)
    # depth 2: every ordered pair of contexts, rotating leaf (thorough: every leaf on a rotating subset)
    k = 0
    for c1 in names:
        for c2 in names:
            ls = [ALL_LEAVES[k % len(ALL_LEAVES)]] if quick else [ALL_LEAVES[(k + j * 5) % len(ALL_LEAVES)] for j in range(4)]
            k += 1
            for l in ls:
                add('%s(%s(%s))' % (c2, c1, l), [c1, c2], l)
    # depth 3: sample
    triples = list(itertools.product(names, repeat=3))
    r.shuffle(triples)
    for (c1, c2, c3) in triples[:(140 if quick else 3375)]:
        for l in ([r.choice(ALL_LEAVES)] if quick else r.sample(ALL_LEAVES, 2)):
            add('%s(%s(%s(%s)))' % (c3, c2, c1, l), [c1, c2, c3], l)
    if pending:
        flush(pending[:])
        pending.clear()
    # Unions / Literals as members of NamedTuple / TypedDict / dataclass types that are SIBLINGS inside one
    # field, below list / dict, and below a field-level Union (helpers reached from helpers)
    na = len(ATOMS)
    k = 0
    for h1 in HELPER_CTX:
        for h2 in HELPER_CTX:
            pairs = [(k % na, (k * 5 + 3) % na)] if quick else [((k + j) % na, (k * 5 + 3 + 2 * j) % na) for j in range(6)]
            k += 1
            for (i1, i2) in pairs:
                if i1 == i2:
                    i2 = (i2 + 1) % na
                for wrap in (['id', 'list'] if quick else ['id', 'list', 'dictv', 'opt', 'union']):
                    mbx = new_mb()
                    mbx.cls([])
                    a = CONTEXTS[h1](ATOMS[i1][1](), mbx)
                    b = CONTEXTS[h2](ATOMS[i2][1](), mbx)
                    t = tup(a, b)
                    t = {'id': t, 'list': seq('list', t), 'dictv': dct(leaf('str'), t), 'opt': opt(t),
                         'union': union(leaf('int'), seq('list', t))}[wrap]
                    mbx.m['classes'][0]['fields'] = [{'name': 'alpha', 'ty': t, 'default': None},
                                                     {'name': 'beta_val', 'ty': leaf('bytearray'), 'default': None}]
                    cases.append(('sib:%s(tup(%s(%s),%s(%s)))' % (wrap, h1, ATOMS[i1][0], h2, ATOMS[i2][0]), mbx))
    # a field-level Union that reaches a helper type with its own Union / Literal
    for hi, h in enumerate(HELPER_CTX[:3]):
        for ai in (range(na) if not quick else [(hi * 4 + j) % na for j in range(4)]):
            mbx = new_mb()
            mbx.cls([])
            inner = CONTEXTS[h](ATOMS[ai][1](), mbx)
            t = union(leaf('int'), seq('list', inner))
            mbx.m['classes'][0]['fields'] = [{'name': 'alpha', 'ty': t, 'default': None},
                                             {'name': 'beta_val', 'ty': opt(inner), 'default': None}]
            cases.append(('ureach:U[int,list[%s(%s)]]' % (h, ATOMS[ai][0]), mbx))
    # atoms in every container context (depth 1)
    for ai, (an, af) in enumerate(ATOMS):
        for c in names:
            add('%s(%s)' % (c, an), [c], af())
    # key cases: same small class under every consistent (load key case, dump transform) pair
    for kc, dump in [(None, 'NONE'), ('CAMEL', 'CAMEL'), ('PASCAL', 'PASCAL'), ('KEBAB', 'LISP'), ('SNAKE', 'SNAKE'),
                     ('AUTO', 'CAMEL'), ('AUTO', 'PASCAL'), ('AUTO', 'LISP'), ('AUTO', 'SNAKE'), ('AUTO', 'NONE')]:
        for rep in range(1 if quick else 4):
            pack = []
            for i in range(4):
                cs = [r.choice(names) for _ in range(r.choice([0, 1, 2]))]
                pack.append(('kc:%s/%s' % (kc, dump), cs, r.choice(ALL_LEAVES)))
            pack = [p for p in pack if _clean_pack(p)]
            # a nested dataclass (multi-word field names) in every key-case model: used for the histories
            pack.insert(0, ('kc:%s/%s' % (kc, dump), ['data'] + [r.choice(['list', 'dictv', 'opt'])] * r.choice([0, 1]), r.choice(['int', 'str', 'date'])))
            n0 = len(cases)
            flush(pack, kc, dump)
            vn = VARIED_NAMES[:]
            r.shuffle(vn)
            flush(pack, kc, dump, names=vn)
            for j, (_, mbk) in enumerate(cases[n0:]):
                mbk.m['history_kind'] = 'AB'[j % 2]
    # tagged Unions of dataclasses (members possibly subsumed by one another), in every simple position;
    # outside the Gallina model (direct predicates only)
    for wi, wrap in enumerate(['id', 'opt', 'list', 'dictv', 'tup1', 'odictv', 'named']):
        for variant in range(1 if quick else 3):
            mbx = new_mb()
            mbx.cls([])
            a = mbx.cls([('leaf_val', leaf('int'), 'int0'), ('leaf_name', leaf('str'), 'str0')])            # all defaulted
            b = mbx.cls([('leaf_val', leaf('int'), 'int0'), ('branch_kids', seq('list', union(data(a), data(a + 1))), 'list'),
                         ('branch_note', opt(union(data(a), data(a + 1))), 'none')])                                # recursive, superset of a
            u = union(data(a), data(b)) if variant != 1 else union(data(b), data(a))
            t = u if wrap == 'id' else CONTEXTS[wrap](u, mbx)
            mbx.m['classes'][0]['fields'] = [{'name': 'alpha', 'ty': t, 'default': None}, {'name': 'beta_val', 'ty': leaf('int'), 'default': None}]
            mbx.m['load_meta'] = {'auto_assign_tags': True}
            mbx.m['json'] = wrap != 'tup1' or True
            cases.append(('tagged:%s(U[A,B])#%d' % (wrap, variant), mbx))
    # explicit shapes
    cases.extend(explicit_models(mi, r))
    # two-module programs: every third case that has a nested class not referring back to the root is split
    nsplit = 0
    for label, mb in list(cases):
        if len(mb.m['classes']) > 1 and not label.startswith(('tagged:', 'F9:')):
            nsplit += 1
            if nsplit % 3 == 0 and split_modules(mb, (nsplit // 3) % 3):
                mb.split = True
    n_before_surface = len(cases)
    cases.extend(surface_cases(ctx, mi))
    # annotation styles: plain names / every dataclass reference a string / `from __future__ import annotations`
    for ci, (label, mb) in enumerate(cases):
        if mb.m.get('surface'):
            continue
        st = ['plain', 'fwd', 'future'][ci % 3]
        if st == 'future' and any(d['opt'] for d in mb.m['typed'].values()):
            st = 'fwd'      # NotRequired[...] cannot be seen inside string annotations (typing limitation)
        if st == 'fwd' and any(x['k'] == 'data' for d in mb.m['typed'].values() for _, t in d['opt'] for x in G.subtypes(t, mb.m)):
            st = 'plain'    # NotRequired['Fwd']: the reference below the qualifier is not resolved (noted, not listed)
        mb.m['ann_style'] = st
    # histories inside one interpreter: a nested class is loaded on its own (keys as-is) before (A) or only
    # after (B) it is used under the root; afterwards the root is used again
    hn = 0
    for label, mb in cases:
        m = mb.m
        if len(m['classes']) > 1 and m['classes'][1]['fields'] and not m.get('named_alias') and not label.startswith('surf:') \
                and all(predicted_clean(f['ty'], m) and json_keys_ok(f['ty'], m) for f in m['classes'][1]['fields']):
            hn += 1
            if hn % 2 == 0 or m.get('history_kind'):
                rh = ctx.sub_rng('hist', label, mb.mi)
                inst = gen_inst(rh, 1, m, depth=3)
                kind = m.pop('history_kind', None) or ('A' if (hn // 2) % 2 == 0 else 'B')
                if m.get('key_case') not in (None, 'AUTO'):
                    kind = 'A'      # B under an explicit key case: the root's Meta leaks into the nested class (F10, C07)
                m['history'] = {'kind': kind, 'cls': 1, 'instance': inst,
                                'doc': G.dump_doc(inst, data(1), {**m, 'key_case': None}, rh)}
    # instances
    for label, mb in cases:
        if mb.m['instances']:
            continue
        ri = ctx.sub_rng('inst', label, mb.mi)
        for _ in range((3 if label.startswith(('sib:', 'ureach:')) else 1) if quick else 3):
            mb.m['instances'].append(gen_inst(ri, mb.m['root'], mb.m))
    return cases


def _clean_pack(p):
    mb = MB(0)
    mb.cls([])
    t = compose(p[1], p[2], mb)
    return t is not None and predicted_clean(t, mb.m)


def explicit_models(mi, r):
    out = []

    def mk(label, build, kc=None, dump=None, json_ok=True):
        mi[0] += 1
        mb = MB(mi[0], kc, dump, json_ok)
        build(mb)
        out.append((label, mb))

    # self-referential class: children: list[Self], parent: Optional[Self]
    def rec_self(mb):
        mb.cls([('value', leaf('int')), ('children', seq('list', data(0))), ('maybe', opt(data(0)), 'none'),
                ('by_name', dct(leaf('str'), data(0)), 'dict')])
    mk('recursive:self', rec_self)

    # mutually recursive classes A <-> B through containers
    def rec_mutual(mb):
        mb.cls([('bs', seq('list', data(1))), ('tag', leaf('str'))])
        mb.cls([('maybe_a', opt(data(0))), ('num', leaf('int')), ('pair', tup(leaf('int'), opt(data(0))))])
    mk('recursive:mutual', rec_mutual)

    # the same NamedTuple / TypedDict / Literal / dataclass used in several fields and positions (guard reuse)
    def reuse(mb):
        nt = mb.named([('aa', leaf('int')), ('bb', seq('list', leaf('str')))])
        td = mb.typed([('rk', leaf('date'))], [('ok', seq('list', leaf('int')))])
        c1 = mb.cls([])          # root placeholder (index 0)
        c2 = mb.cls([('inner_val', nt), ('lit_val', lit('a', 'b'))])
        mb.m['classes'][0]['fields'] = [
            {'name': 'alpha', 'ty': nt, 'default': None},
            {'name': 'beta_val', 'ty': seq('list', nt), 'default': None},
            {'name': 'gamma2', 'ty': dct(leaf('str'), td), 'default': None},
            {'name': 'delta_my_key', 'ty': td, 'default': None},
            {'name': 'eps', 'ty': seq('list', data(c2)), 'default': None},
            {'name': 'zeta_aa9', 'ty': data(c2), 'default': None},
            {'name': 'eta_bb', 'ty': opt(lit('a', 'b')), 'default': None},
        ]
    mk('reuse:helpers', reuse)

    # unions of simple types (exact-type dispatch) and one container alternative
    def unions(mb):
        mb.cls([('alpha', union(leaf('int'), leaf('str'))),
                ('beta_val', seq('list', union(leaf('int'), leaf('str')))),
                ('gamma2', union(leaf('float'), leaf('bool'), leaf('none'))),
                ('delta_my_key', dct(leaf('str'), union(leaf('int'), seq('list', leaf('int')))))])
    mk('unions:simple', unions)

    # bytes / bytearray in several positions
    def bts(mb):
        mb.cls([('alpha', leaf('bytes')), ('beta_val', seq('list', leaf('bytearray'))),
                ('gamma2', dct(leaf('str'), leaf('bytes'))), ('delta_my_key', opt(leaf('bytearray'))),
                ('eps', tup(leaf('bytes'), leaf('bytearray')))])
    mk('bytes', bts)

    # shapes of the repaired defects (regression inputs) and witnesses of the open ones
    mk('shape-F18:tuple-in-tuple', lambda mb: mb.cls([('alpha', tup(tup(leaf('int'), leaf('str')), leaf('str')))]))
    mk('shape-F22:two-literals', lambda mb: mb.cls([('alpha', tup(lit('a'), lit('b')))]))
    mk('shape-F22:two-unions', lambda mb: mb.cls([('alpha', tup(union(leaf('int'), leaf('str')), union(leaf('float'), leaf('bool'))))]))
    mk('shape-F23:literal-1-true', lambda mb: mb.cls([('alpha', lit(1)), ('beta_val', lit(True))]))
    def neg_td(mb):
        mb.cls([('alpha', leaf('timedelta')), ('beta_val', seq('list', leaf('timedelta')))])
        mb.m['instances'].append(['C', mb.m['classes'][0]['name'],
                                  [['alpha', ['O', 'timedelta', '-1,86399,0']], ['beta_val', ['L', [['O', 'timedelta', '0,5,0']]]]]])
    mk('F3:negative-timedelta', neg_td)
    def f18_more(mb):
        nt = mb.named([('aa', leaf('int')), ('bb', tup(leaf('int'), leaf('str')))])
        td = mb.typed([('rk', tup(leaf('int'), tup(leaf('str'), leaf('float'))))], [])
        mb.cls([('alpha', seq('list', nt)), ('beta_val', td), ('gamma2', tup(opt(tup(leaf('int'), leaf('str'))), leaf('str'))),
                ('delta_my_key', seq('list', tup(tup(tup(leaf('int'), leaf('str')), leaf('bool')), leaf('str'))))])
    mk('shape-F18:nt-td-opt-depth3', f18_more)

    def f22_more(mb):
        nt = mb.named([('aa', lit('x')), ('bb', lit('y'))])
        mb.cls([('alpha', nt), ('beta_val', dct(lit('k1', 'k2'), lit(1, 2))), ('gamma2', lit(0)), ('delta_my_key', lit(False)),
                ('eps', seq('list', tup(union(leaf('int'), leaf('str')), union(leaf('float'), leaf('bool')))))])
    mk('shape-F22-F23:literals-unions', f22_more)
    mk('shape-F48:frozenset-list-keys', lambda mb: mb.cls([('alpha', dct(tup(seq('tuple', leaf('str')), leaf('int')), seq('list', leaf('int')))),
                                                          ('beta_val', dct(seq('tuple', seq('tuple', leaf('int'))), leaf('str')))]), json_ok=False)
    mk('shape-F49:none-positions', lambda mb: mb.cls([('alpha', leaf('nonebare')), ('beta_val', tup(leaf('int'), leaf('nonebare'))),
                                                     ('gamma2', dct(leaf('str'), leaf('nonebare')))]))

    # F47: Union[list[int], str] — the container member is tried first, `str` is returned as is
    def union_container(mb):
        mb.cls([('alpha', union(seq('list', leaf('int')), leaf('str'))), ('beta_val', seq('list', union(seq('list', leaf('int')), leaf('str'))))])
        n = mb.m['classes'][0]['name']
        mb.m['instances'] += [['C', n, [['alpha', ['L', [['I', '1'], ['I', '2']]]], ['beta_val', ['L', [['S', 'ab'], ['L', [['I', '3']]]]]]]],
                              ['C', n, [['alpha', ['S', 'ab']], ['beta_val', ['L', []]]]]]
    mk('shape-F47:union-container-str', union_container)

    # F9 (open): two different NamedTuple types with the same __name__
    def same_name(mb):
        a = mb.named([('aa', leaf('int'))])
        b = mb.named([('aa', leaf('str')), ('bb', leaf('int'))])
        mb.m['named_alias'] = {a['name']: 'SameP', b['name']: 'SameP'}
        mb.cls([('alpha', a), ('beta_val', b)])
        mb.m['instances'].append(['C', mb.m['classes'][0]['name'],
                                  [['alpha', ['M', a['name'], [['I', '1']]]], ['beta_val', ['M', b['name'], [['S', 's'], ['I', '2']]]]]])
    mk('F9:same-name-namedtuples', same_name)
    # F52 / F53 (open) and their well-behaved neighbours
    mk('F52:union-none-first', lambda mb: (mb.cls([('alpha', optr(leaf('int'))), ('beta_val', opt(leaf('int')))]),
                                           mb.m['instances'].append(['C', mb.m['classes'][0]['name'], [['alpha', ['I', '5']], ['beta_val', ['I', '5']]]])))
    mk('F53:union-list-before-dict', lambda mb: (mb.cls([('alpha', union(leaf('int'), seq('list', leaf('str')), dct(leaf('str'), leaf('int'))))]),
                                                 mb.m['instances'].append(['C', mb.m['classes'][0]['name'], [['alpha', ['D', None, [[['S', 'kk'], ['I', '1']]]]]]])))
    mk('shape:union-dict-before-list', lambda mb: mb.cls([('alpha', union(leaf('int'), dct(leaf('str'), leaf('int')), seq('list', leaf('int')))),
                                                          ('beta_val', seq('list', union(leaf('none'), dct(leaf('str'), leaf('str')), seq('list', leaf('str')))))]))
    mk('F28:frozenset-in-key', lambda mb: mb.cls([('alpha', dct(tup(seq('frozenset', leaf('int')), leaf('str')), leaf('int')))]), json_ok=False)
    mk('shape-F49:none-annotation', lambda mb: mb.cls([('alpha', seq('list', leaf('nonebare')))]))
    mk('shape-F48:seq-in-dict-key', lambda mb: mb.cls([('alpha', dct(seq('tuple', leaf('int')), leaf('int')))]), json_ok=False)
    return out


# ---------------------------------------------------------------------------------- model evaluation
def coq_exprs(cases, impl):
    """prelude definitions + expressions; returns (prelude, exprs, index)"""
    pre, exprs, index = [], [], []
    for ci, ((label, mb), res) in enumerate(zip(cases, impl)):
        if res.get('setup_err') or 'keys' not in res:
            continue
        m = mb.m
        surface = bool(m.get('surface'))
        if res.get('gen_err') and not surface:
            continue
        try:
            ct = G.coq_ct(m, res['keys'])
            senv = G.coq_senv(m, res['keys']) if surface else None
        except ValueError:
            continue          # outside the Gallina model: direct predicates only
        try:
            tb = G.coq_oracle([(l, o, v, a) for l, o, v, a in res['oracle']])
        except ValueError:
            tb = '[]'
        if surface:
            # the whole pipeline of the model: surface program -> resolve / walk -> class table -> generator;
            # `ct` (written by the harness from the core model) is only what the result is compared with
            exprs.append('(let E := %s in case_sgen E %d %s)' % (senv, m['root'], ct))
            index.append((ci, 'sgen', None))
            ct = '(force_table %s %d)' % (senv, m['root'])
            if res.get('gen_err'):
                continue
        else:
            exprs.append('(let ct := %s in case_gen ct %d)' % (ct, m['root']))
            index.append((ci, 'gen', None))
        for ii, inst in enumerate(res['inst']):
            if 'doc' in inst:
                try:
                    exprs.append('(let ct := %s in let tb : list oentry := %s in case_load tb ct %d %d %s)' % (
                        ct, tb, BUDGET, m['root'], G.coq_pv(inst['doc'])))
                    index.append((ci, 'inst', ii))
                except ValueError:
                    pass
    return '\n'.join(pre), exprs, index


def same_outcome(model_res, impl_res):
    """model outcome (parse_res) vs implementation outcome"""
    if 'ok' in model_res:
        return 'ok' in impl_res and G.norm(model_res['ok']) == G.norm(impl_res['ok'])
    if 'lib' in model_res:
        if impl_res.get('kind') != model_res['lib'] or impl_res.get('cls') != model_res['cls']:
            return False
        if model_res['lib'] in ('P', 'D'):
            if impl_res.get('fld') != model_res['fld']:
                return False
            if 'obj' in impl_res and G.norm(impl_res['obj']) != G.norm(model_res['obj']):
                return False
        if model_res['lib'] == 'M' and sorted(impl_res.get('names') or []) != sorted(model_res['names']):
            return False
        return True
    return False


def same_names(m):
    """two different helper-compiled types of the model with the same __name__ (F9)"""
    al = m.get('named_alias') or {}
    names = [al.get(n, n) for n in m['named']] + list(m['typed']) + [c['name'] for c in m['classes']]
    return len(set(names)) < len(names)


def classify(mb, gen, inst_tree):
    """open region of a failing case (None: no listed region)"""
    if inst_tree is not None and has_neg_td_any(inst_tree):
        return 'F3'
    return classify_py(mb)


def classify_py(mb):
    m = mb.m
    if same_names(m):
        return 'F9'
    if model_any(m, lambda t, mm: any(s['k'] == 'optr' for s in G.subtypes(t, mm))):
        return 'F52'
    if model_any(m, list_before_dict):
        return 'F53'
    return None


RESOLVED = set()


def run(ctx):
    # ---- listed findings: replay the witnesses first.  A finding whose witness no longer fails is
    # RESOLVED: its region is then treated like any other input (a failure there is a violation) and
    # the faithful-to-the-defect model is not compared inside it.
    RESOLVED.clear()
    id_region = {v: k for k, v in REGION_ID.items()}
    for f in ctx.findings('open'):
        w = f.get('witness')
        if w and w.get('kind') in ('instance', 'model'):
            fails = not replay(ctx, w, quiet=True)
            ctx.known_finding(f['id'], still_fails=fails)
            if not fails and f['id'] in id_region:
                RESOLVED.add(id_region[f['id']])
    cases = build_cases(ctx)
    for _, mb in cases:
        if same_names(mb.m):     # F9 (open): the generated code converts values at the wrong positions;
            for c in mb.m['classes']:          # give the faithful model an oracle answer for whatever it reads
                for f in c['fields']:
                    f['generous'] = True
    payload = {'models': [mb.m for _, mb in cases]}
    impl = []
    CH = 120
    for i in range(0, len(cases), CH):
        impl.extend(ctx.impl('c02', {'models': payload['models'][i:i + CH]}, timeout=900)['models'])
    # ---- model side
    gens, loads, sgens = {}, {}, {}
    model_ok = True
    try:
        prelude, exprs, index = coq_exprs(cases, impl)
        SH = 40
        shards = [(prelude, exprs[i:i + SH]) for i in range(0, len(exprs), SH)]
        outs = [o for sh in G.coq_shards(os.path.join(ctx.workdir, 'cases'), IMPORTS, shards,
                                         jobs=8 if ctx.tier == 'quick' else 14, timeout=900) for o in sh]
        for (ci, kind, ii), o in zip(index, outs):
            if kind == 'gen':
                gens[ci] = G.parse_gen(o)
            elif kind == 'sgen':
                sgens[ci] = G.parse_sgen(o)
                if 'gen' in sgens[ci]:
                    gens[ci] = sgens[ci]['gen']
            else:
                parts = o.split('#')
                loads[(ci, ii)] = {'code': G.parse_res(parts[0], cases[ci][1].m), 'spec': G.parse_res(parts[1], cases[ci][1].m)}
    except Exception as e:  # the model could not be evaluated: every direct predicate still runs
        model_ok = False
        ctx.broken_tie('model evaluation failed: %s' % str(e)[:800])

    n_tie = 0
    for ci, ((label, mb), res) in enumerate(zip(cases, impl)):
        m = mb.m
        nontrivial = any(_depth(f['ty']) >= 2 or f['ty']['k'] in ('named', 'typed', 'data', 'union', 'lit')
                         for f in m['classes'][m['root']]['fields'])
        rp_model = {'kind': 'model', 'label': label, 'model': m}
        ctx.count(1, key='m:%s|%s|%s' % (label, m['key_case'], m['dump']), nontrivial=nontrivial)
        ctx.hist('key_case', '%s/%s' % (m['key_case'], m['dump']))
        for f in m['classes'][m['root']]['fields']:
            ctx.hist('field_depth', _depth(f['ty']))
            for s in G.subtypes(f['ty'], m):
                ctx.hist('constructor', s['k'] if s['k'] != 'seq' else s['kind'])
        if res.get('setup_err'):
            ctx.broken_tie('harness could not define the class model %s' % label, res['setup_err'][-800:])
            continue
        gen = gens.get(ci)
        region = classify(mb, gen, None)
        py_region = classify_py(mb)
        tie_ok = model_ok and py_region not in RESOLVED
        # ---- surface programs: the front end of the model against the implementation
        sv = sreg = None
        if m.get('surface'):
            ctx.hist('surface', '%d module(s)%s' % (m['surface']['n_mod'], ', typing generics' if m['surface'].get('tg') else ''))
            for _, _, _, sa in G.surface_annotations(m):
                for x in _walk(sa):
                    if x['k'] in ('ann', 'qual', 'alias', 'str'):
                        ctx.hist('wrapper', x['q'] if x['k'] == 'qual' else x['k'])
            sv = G.surface_verdict(m)          # Python mirror of the single pass: None | (kind, why, in_helper, class)
            if sv:
                sreg = 'F70' if sv[0] == 'type' else 'F71' if sv[2] else None
                tie_ok = tie_ok and sreg not in RESOLVED
            sg = sgens.get(ci)
            if model_ok and sg is not None and sreg not in RESOLVED:      # (a resolved finding: the model is faithful to the defect)
                ctx.traces_validated += 1
                if ('reserr' in sg) != bool(sv):
                    ctx.broken_tie('front-end model (V1Annot.resolve) and its Python mirror disagree (%s)' % label,
                                   {'model': sg.get('raw', 'resolves'), 'mirror': sv})
                if 'reserr' in sg and not res['gen_err']:
                    ctx.disagreements_checked += 1
                    ctx.broken_tie('front-end model fails (%s) where the implementation builds the loader (%s)' % (sg['raw'], label),
                                   {'sources': (res.get('sources') or [''])[-1][-1500:]})
                if 'reserr' not in sg and not sg['same']:
                    ctx.broken_tie('resolved class table differs from the denotation written by the harness (%s)' % label)
                if 'reserr' not in sg and res['gen_err'] and not sreg:
                    ctx.disagreements_checked += 1
                    ctx.broken_tie('front-end model resolves where the implementation fails (%s)' % label, res['gen_err'])
                ctx.hist('front_end', 'model fails' if 'reserr' in sg else 'resolves, inside okb' if sg['inok'] else 'resolves, outside okb')
        # ---- direct predicate 1: loader generation never raises
        if res['gen_err']:
            if sreg and open_region(ctx, sreg) and \
                    res['gen_err']['err'] == ('NameError' if sreg == 'F71' else res['gen_err']['err']):
                ctx.hist('known_region', sreg)
                ctx.count(1, key='g:%s' % label, nontrivial=True)
            else:
                ctx.violation('v1 loader generation raised %s for %s: %s' % (res['gen_err']['err'], label, res['gen_err']['msg'][:200]), rp_model)
            continue
        if sreg and open_region(ctx, sreg) and model_ok:
            # inside the region of an open finding, yet the loader builds: the finding's witness decides (FINDING-RESOLVED)
            ctx.hist('known_region_builds', sreg)
        if tie_ok and gen is not None and 'err' in gen:
            ctx.broken_tie('model generator fails where the implementation generates (%s)' % label, gen['err'])
        # ---- direct predicate 2: generated code reads no unbound positional variable (hook H1)
        if not res.get('hook'):
            ctx.broken_tie('hook H1 (function_builder._VERIF_REGISTRY) is not active')
        for fname, s in res['fns'].items():
            if s.get('parse_err'):
                ctx.violation('generated function %s is not parseable: %s' % (fname, s['parse_err']), rp_model)
            elif s['unbound']:
                if True:
                    ctx.violation('generated function %s reads unbound variable(s) %s (%s)' % (fname, s['unbound'], label), rp_model)
        # ---- tie: binding summaries
        if tie_ok and gen is not None and 'err' not in gen and res.get('hook'):
            mf = gen['fns']
            if set(mf) != set(res['fns']):
                ctx.broken_tie('generated function names differ from the model (%s)' % label,
                               {'impl': sorted(res['fns']), 'model': sorted(mf)})
            for fname in set(mf) & set(res['fns']):
                if res['fns'][fname]['toks'] is not None and mf[fname]['toks'] != res['fns'][fname]['toks']:
                    n_tie += 1
                    ctx.disagreements_checked += 1
                    if n_tie <= 5:
                        ctx.broken_tie('binding summary of %s differs from the model (%s)' % (fname, label),
                                       {'impl': res['fns'][fname]['toks'], 'model': mf[fname]['toks'],
                                        'source': res['fns'][fname]['source'][:1500]})
                ctx.traces_validated += 1
        # ---- history steps (direct predicate: the results do not depend on who used the nested class first)
        for st in res.get('history') or []:
            ctx.count(1, key='h:%s|%s' % (label, st['step']), nontrivial=True)
            ctx.hist('history', '%s/%s/%s' % ((m.get('history') or {}).get('kind'), st['step'], 'ok' if st['ok'] else 'fails'))
            if not st['ok'] and st['step'] == 'root again' and res['inst'] and inst_failure(res['inst'][0], m):
                continue          # the same instance already fails without any history: reported / classified below
            if not st['ok']:
                ctx.violation('%s: history %s: step "%s" fails%s' % (label, m['history']['kind'], st['step'],
                                                                     ' with %s' % st['err']['err'] if st.get('err') else ''),
                              {'kind': 'model', 'label': label, 'model': m})
        # ---- instances
        for ii, (tree, ir) in enumerate(zip(m['instances'], res['inst'])):
            rp = {'kind': 'instance', 'label': label, 'model': {**m, 'instances': [tree], 'docs': []}}
            ctx.count(1, key='i:%s|%d|%s' % (label, ii, json.dumps(tree)[:300]), nontrivial=nontrivial)
            reg = classify(mb, gen, tree)
            if 'dump_err' in ir and frozenset_in_key(m):
                reg = 'F28'
            bad = inst_failure(ir, m)
            if bad:
                ctx.hist('instance_outcome', 'fails')
                if open_region(ctx, reg):
                    ctx.hist('known_region', reg)
                else:
                    ctx.violation('%s: %s' % (label, bad), rp)
            else:
                ctx.hist('instance_outcome', 'round-trips')
            # correspondence with the model
            if tie_ok and (ci, ii) in loads and 'load' in ir:
                lo = loads[(ci, ii)]
                if 'marker' in lo['code']:
                    ctx.broken_tie('model budget / oracle table exhausted (%s): %s' % (label, lo['code']))
                elif not same_outcome(lo['code'], ir['load']):
                    ctx.disagreements_checked += 1
                    ctx.broken_tie('generated-code model and implementation disagree on a load (%s)' % label,
                                   {'model': lo['code'], 'impl': {k: v for k, v in ir['load'].items() if k != 'msg'}, 'doc': ir.get('doc')})
                    if bad and not open_region(ctx, reg):
                        pass  # already reported as a violation with its input
                if gen and 'err' not in gen and gen['coherent'] and 'marker' not in lo['spec'] \
                        and not same_outcome(lo['spec'], ir['load']):
                    ctx.disagreements_checked += 1
                    ctx.broken_tie('specification load_v1 and implementation disagree inside the proved region (%s)' % label,
                                   {'model': lo['spec'], 'impl': {k: v for k, v in ir['load'].items() if k != 'msg'}})
                ctx.traces_validated += 1
        if ci in (3, 40):
            ctx.sample({'label': label, 'annotation': [G.py_ann(f['ty'], m) for f in m['classes'][m['root']]['fields']],
                        'instance': m['instances'][0] if m['instances'] else None,
                        'impl': {k: v for k, v in (res['inst'][0] if res['inst'] else {}).items() if k in ('eq', 'same', 'json')},
                        'model_gen': {k: gen[k] for k in ('coherent', 'distinct')} if gen and 'err' not in gen else None})



def _depth(t):
    k = t['k']
    if k in ('seq', 'opt', 'optr'):
        return 1 + _depth(t['t'])
    if k in ('tuple', 'union'):
        return 1 + max(_depth(x) for x in t['ts'])
    if k == 'dict':
        return 1 + max(_depth(t['kt']), _depth(t['vt']))
    if k in ('named', 'typed', 'data'):
        return 2
    return 0


def inst_failure(ir, m):
    """direct predicate on one instance: None if fromdict(asdict(x)) == x (and JSON) with equal types"""
    if 'build_err' in ir:
        return 'harness could not build the instance: %s' % ir['build_err']
    if 'dump_err' in ir:
        return 'asdict raised %s' % ir['dump_err']['err']
    lo = ir['load']
    if 'ok' not in lo:
        return 'fromdict(asdict(x)) raised %s (%s)' % (lo['err'], (lo.get('msg') or '')[:160].replace('\n', ' '))
    if not ir['eq']:
        return 'fromdict(asdict(x)) != x'
    if not ir['same']:
        return 'fromdict(asdict(x)) == x but concrete types differ'
    j = ir.get('json')
    if j is not None:
        if 'dumps_err' in j:
            return None if not m.get('json') else 'to_json raised %s' % j['dumps_err']
        if 'load_err' in j:
            return 'from_json(to_json(x)) raised %s' % j['load_err']['err']
        if not j['eq'] or not j['same']:
            return 'from_json(to_json(x)) != x (or concrete types differ)'
    return None


def replay(ctx, obj, quiet=False):
    if obj.get('kind') not in ('instance', 'model'):
        print('replay object names a broken tie, not an input: %s' % json.dumps(obj)[:1500])
        return False
    m = obj['model']
    res = ctx.impl('c02', {'models': [m]})['models'][0]
    ok = True
    if res.get('setup_err'):
        if not quiet:
            print('setup error: %s' % res['setup_err'])
        return False
    if res['gen_err']:
        ok = False
        if not quiet:
            print('loader generation raised: %s' % res['gen_err'])
    for fname, s in res['fns'].items():
        if s.get('unbound'):
            ok = False
            if not quiet:
                print('generated function %s reads unbound %s' % (fname, s['unbound']))
    for tree, ir in zip(m.get('instances', []), res['inst']):
        bad = inst_failure(ir, m)
        if bad:
            ok = False
        if not quiet:
            print('instance %s: %s' % (json.dumps(tree)[:300], bad or 'round-trips'))
    return ok
