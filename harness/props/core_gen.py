"""Generators shared by the default-engine core checks (C03, C05, C01): abstract class models
(type specs) and conforming values (value specs), both plain JSON.  The implementation
runner (harness/impl/core_rt.py) turns them into real classes / objects.

Systematic part: every leaf type in every container position, to depth 3 (root field ->
container -> container -> leaf); then random class models.
"""
import keyword, string, itertools, json

LEAVES = ['bool', 'int', 'float', 'str', 'bytes', 'bytearray', 'uuid', 'decimal', 'path', 'date', 'datetime', 'time',
          'timedelta', 'enum_plain', 'enum_int', 'enum_str', 'literal', 'any', 'none']
TOKS = ['uuid', 'decimal', 'path', 'date', 'datetime', 'time', 'timedelta']
HASHABLE_LEAVES = [l for l in LEAVES if l not in ('bytearray', 'any')]
CONTEXTS = ['list', 'set', 'frozenset', 'deque', 'tuple2', 'vartuple', 'dictval', 'dictkey', 'defaultdict', 'ordered',
            'opt', 'union', 'nt', 'td', 'tdopt', 'data', 'tagunion', 'autotagunion',
            'listopt', 'dictvalopt', 'ddkey', 'odkey', 'nonefirst', 'subdata']
RESERVED = {'o', 'cls', 'field', 'fields', 'i', 'e', 'v1', 'tp', 'result', 'config', 'hooks', 'exclude', 'self',
            'dict_factory', 'asdict', 'paths', 'k', 'v', 'skip_defaults', 'json_key', 'py_field', 'init_kwargs',
            'catch_all', 'field_to_parser', 'json_to_field', 'py_case', 'count', 'index', 'copy', 'field'}


# strings: line endings, control characters, unicode planes, quoting, whitespace, look-alikes of other JSON/YAML/TOML scalars
STR_ZOO = ['', 'a', 'hello world', 'Z', '+00:00', 'x"y\'z', 'line\nbreak', 'crlf\r\nline', 'lone\rcr', 'tab\there', '\n', ' lead', 'trail ', '  ',
           'back\\slash', '\\n', '"""', "'''", 'é✓', '\U0001F600 astral', 'e\u0301 combining', '\u2028ls', 'nul\x00byte', 'bell\x07', '\x7f',
           'True', 'true', 'null', 'None', '~', '1', '1.5', '-0', '1e3', '0x10', '2020-01-01', '2020-01-01T00:00:00Z', '12:30:00', 'yes', 'no',
           '# not a comment', 'key: value', '[1, 2]', '{a: 1}', 'x' * 300, '- item', '%s %d {0}']


class Gen:
    def __init__(self, rng, opts=None):
        self.r = rng
        self.n = 0
        self.opts = opts or {}
        self.used_sub = False

    # ---- names ----------------------------------------------------------
    def fresh(self):
        self.n += 1
        return self.n

    def word(self, ext=False):
        r = self.r
        if ext:
            # snake_case words outside the canonical shape: one-letter words, digit-heavy words
            return ''.join(r.choice(string.ascii_lowercase) for _ in range(r.choice([1, 1, 2, 3, 5]))) + \
                   ''.join(r.choice(string.digits) for _ in range(r.choice([0, 1, 1, 2])))
        return ''.join(r.choice(string.ascii_lowercase) for _ in range(r.choice([2, 2, 3, 4, 6]))) + \
               ''.join(r.choice(string.digits) for _ in range(r.choice([0, 0, 0, 1, 2])))

    def name(self, allow_wild=True):
        """Field-name grammars.  canonical: words [a-z]{2,}[0-9]* joined by single underscores (default);
        opts['ext_names'] = probability of the wider LOWER-CASE grammar: words [a-z]+[0-9]* joined by runs of 1..4
        underscores (point2_x, utf8_s, retry___count, x);  opts['wild_names'] = probability of a WILD identifier:
        leading / trailing underscores, capitals inside (mixedCase, UPPER_x, _private, trailing_)."""
        r = self.r
        c = r.random()
        wild = allow_wild and c < self.opts.get('wild_names', 0)
        ext = wild or c < self.opts.get('wild_names', 0) + self.opts.get('ext_names', 0)
        for _ in range(200):
            k = r.choice([1, 2, 2, 3])
            if ext:
                ws = [self.word(True) for _ in range(k)]
                n = ws[0]
                for w in ws[1:]:
                    n += ('_' * r.choice([2, 3, 4]) if r.random() < self.opts.get('us_runs', 0.3) else '_') + w
            else:
                n = '_'.join(self.word() for _ in range(k))
            if wild:
                m = r.random()
                if m < 0.3:
                    n = '_' + n
                elif m < 0.5:
                    n = n + '_'
                elif m < 0.8:
                    i = r.randrange(len(n))
                    n = n[:i] + n[i].upper() + n[i + 1:]
                else:
                    n = n.upper() if r.random() < 0.5 else n.title().replace('_', '')
                    n = n[:1].lower() + n[1:] if r.random() < 0.5 else n
            if n in RESERVED or keyword.iskeyword(n) or keyword.issoftkeyword(n) or not n.isidentifier():
                continue
            if n.startswith('__') or (n.startswith('_') and n[1:2].isdigit()):
                continue
            if len(n) > 1 or ext:
                return n
        return 'fallback_name%d' % self.fresh()

    @staticmethod
    def _canon(n):
        import re
        return bool(re.match(r'^[a-z]{2,}[0-9]*(_[a-z]{2,}[0-9]*)*$', n))

    def names(self, k, allow_wild=True):
        """k distinct field names.  Canonical names may collide after removing underscores / lower-casing their camel form
        (username + user_name): the library keeps them apart, and with opts['name_families'] such near-collision families are
        generated on purpose (joined words, prefixes).  Non-canonical names stay apart modulo underscores and case, because there the
        dumped spellings themselves can coincide."""
        out = []
        fam = self.r.random() < self.opts.get('name_families', 0)
        while len(out) < k:
            n = self.name(allow_wild)
            if fam and out and self._canon(out[0]):
                base = self.r.choice([x for x in out if self._canon(x)])
                ws = base.split('_')
                c = self.r.random()
                if len(ws) >= 2 and c < 0.5:
                    j = self.r.randrange(len(ws) - 1)
                    cand = '_'.join(ws[:j] + [ws[j] + ws[j + 1]] + ws[j + 2:])        # user_name -> username
                elif len(ws) >= 2 and c < 0.75:
                    cand = '_'.join(ws[:-1])                                           # user_name -> user
                elif len(ws[-1]) >= 4 and ws[-1].isalpha():
                    h = len(ws[-1]) // 2
                    cand = '_'.join(ws[:-1] + [ws[-1][:h], ws[-1][h:]])                # filename -> file_name
                else:
                    cand = base + '_' + self.word()                                    # user -> user_name
                if self._canon(cand) and cand not in RESERVED and not keyword.iskeyword(cand):
                    n = cand
            if n in out:
                continue
            if not self._canon(n) or not all(self._canon(x) for x in out):
                key = n.replace('_', '').lower()
                if any(key == x.replace('_', '').lower() for x in out if not (self._canon(x) and self._canon(n))):
                    continue
            out.append(n)
        return out

    # ---- leaf types -------------------------------------------------------
    def leaf(self, l):
        if l in ('bool', 'int', 'float', 'str', 'bytes', 'bytearray', 'any', 'none'):
            return {'t': l}
        if l in TOKS:
            return {'t': 'tok', 'k': l}
        if l.startswith('enum_'):
            mix = l[5:]
            i = self.fresh()
            k = self.r.choice([1, 2, 3, 4])
            names = ['M%d' % j for j in range(k)]
            style = self.r.random()
            flag = False
            if style < 0.2:
                names = self.r.sample(['NORTH', 'SOUTH', 'EAST', 'WEST', 'UP'], k)      # real-looking names (values may name OTHER members)
            if mix == 'int' or (mix == 'plain' and self.r.random() < 0.45):
                vals = self.r.sample(range(-3, 40), k)
                if style > 0.85:
                    vals = list(range(1, k + 1))[::-1] if self.r.random() < 0.5 else list(range(k))    # values = positions of other members
                if mix == 'plain' and 0.5 < style < 0.62 and not self.opts.get('no_flag'):
                    vals, flag = [2 ** j for j in range(k)], True                                   # enum.Flag
                members = [[n, {'v': 'int', 'x': str(v)}] for n, v in zip(names, vals)]
            else:
                vals = self.r.sample(['a', 'b', 'red', 'GREEN', 'x y', '', 'Z', '1'], k)
                if style < 0.2 and k >= 2:
                    vals = names[1:] + names[:1]                                                    # value == the NAME of another member
                elif style < 0.3:
                    vals = [n.lower() for n in names]
                members = [[n, {'v': 'str', 'x': v}] for n, v in zip(names, vals)]
                if mix == 'plain' and 0.3 < style < 0.4 and k >= 2:
                    members[-1][1] = {'v': 'int', 'x': str(self.r.randint(0, 9))}                 # values of mixed types
            if 0.62 < style < 0.75 and k >= 2 and not flag:
                members.append(['ALIAS', dict(members[0][1])])                                      # two names, one value
            nm = 'E%d' % i
            if self.r.random() < self.opts.get('same_named_enums', 0):
                nm = self.r.choice(['Status', 'Color'])       # distinct classes sharing a __name__
            out = {'t': 'enum', 'id': i, 'name': nm, 'mix': mix, 'members': members}
            if flag:
                out['flag'] = True
            return out
        if l == 'literal':
            pool = [{'v': 'int', 'x': '1'}, {'v': 'int', 'x': '-7'}, {'v': 'str', 'x': 'a'}, {'v': 'str', 'x': 'B c'},
                    {'v': 'bool', 'x': True}, {'v': 'none'}, {'v': 'int', 'x': '0'}, {'v': 'str', 'x': ''}]
            c = self.r.random()
            if c < 0.25:      # members of one numeric type: value lookup alone cannot tell 1 / 1.0 / True apart
                vs = [{'v': 'int', 'x': str(k)} for k in self.r.sample(range(0, 4), self.r.choice([1, 2, 3]))]
            elif c < 0.35:
                vs = self.r.sample([{'v': 'bool', 'x': True}, {'v': 'bool', 'x': False}], self.r.choice([1, 2]))
            elif c < 0.45:
                vs = [{'v': 'str', 'x': x} for x in self.r.sample(['a', 'b', '1', 'true', ''], 2)]
            else:
                vs = self.r.sample(pool, self.r.choice([1, 2, 3]))
            # members that are == but of different type (1/True, 0/False) make the Literal ambiguous: keep one
            seen, out = set(), []
            for v in vs:
                key = {'bool': lambda x: int(x), 'int': lambda x: int(x), 'str': lambda x: 's' + x, 'none': lambda x: 'n'}[v['v']](v.get('x'))
                if key not in seen:
                    seen.add(key); out.append(v)
            return {'t': 'lit', 'vs': out}
        raise ValueError(l)

    def hashable_type(self, ty):
        t = ty['t']
        if t in ('bool', 'int', 'float', 'str', 'bytes', 'tok', 'enum', 'lit', 'none'):
            return True
        if t == 'seq':
            return ty['k'] == 'frozenset' and self.hashable_type(ty['e'])
        if t == 'tuple':
            return all(self.hashable_type(e) for e in ty['es'])
        if t == 'vartuple':
            return self.hashable_type(ty['e'])
        if t == 'opt':
            return self.hashable_type(ty['e'])
        if t == 'union':
            return all(self.hashable_type(e) for e in ty['es'])
        if t == 'nt':
            return all(self.hashable_type(f[1]) for f in ty['fields'])
        return False

    def key_type_ok(self, ty):
        """hashable AND its dumped form is hashable (a frozenset dumps to a list: impossible as a dict key)"""
        t = ty['t']
        if t == 'seq':
            return False
        if t in ('tuple', 'union'):
            return all(self.key_type_ok(e) for e in ty['es'])
        if t in ('vartuple', 'opt'):
            return self.key_type_ok(ty['e'])
        if t == 'nt':
            return all(self.key_type_ok(f[1]) for f in ty['fields'])
        return self.hashable_type(ty)

    # wire type of the dumped value (what UnionParser can tell apart by `type(o) is base_type`)
    def wire(self, ty):
        t = ty['t']
        if t in ('bool', 'int', 'float', 'str'): return t
        if t == 'seq' and ty['k'] == 'list': return 'list'
        if t == 'dict' and ty['k'] == 'dict': return 'dict'
        if t == 'data' and ty.get('tag') is not None: return 'tagged'
        return None

    # ---- container contexts ---------------------------------------------------
    def wrap(self, ctx, inner):
        """Type spec placing `inner` at one position of container `ctx`; None when Python itself
        forbids the position (unhashable set element / dict key)."""
        if ctx in ('list', 'deque'):
            return {'t': 'seq', 'k': ctx, 'e': inner}
        if ctx in ('set', 'frozenset'):
            return {'t': 'seq', 'k': ctx, 'e': inner} if self.hashable_type(inner) else None
        if ctx == 'tuple2':
            return {'t': 'tuple', 'es': [inner, {'t': 'int'}]}
        if ctx == 'vartuple':
            return {'t': 'vartuple', 'e': inner}
        if ctx == 'dictval':
            return {'t': 'dict', 'k': 'dict', 'kt': {'t': 'str'}, 'vt': inner}
        if ctx == 'dictkey':
            return {'t': 'dict', 'k': 'dict', 'kt': inner, 'vt': {'t': 'int'}} if self.key_type_ok(inner) else None
        if ctx == 'defaultdict':
            return {'t': 'dict', 'k': 'defaultdict', 'kt': {'t': 'str'}, 'vt': inner}
        if ctx == 'ordered':
            return {'t': 'dict', 'k': 'ordered', 'kt': {'t': 'str'}, 'vt': inner}
        if ctx == 'opt':
            return None if inner['t'] in ('opt', 'none', 'any', 'union') else {'t': 'opt', 'e': inner}
        if ctx == 'union':
            w = self.wire(inner)
            if w is None:
                return None
            others = [o for o in ({'t': 'int'}, {'t': 'str'}, {'t': 'float'}, {'t': 'bool'},
                                  {'t': 'seq', 'k': 'list', 'e': {'t': 'int'}}) if self.wire(o) != w]
            other = self.r.choice(others)
            es = [inner, other]
            self.r.shuffle(es)
            return {'t': 'union', 'es': es}
        if ctx == 'nt':
            i = self.fresh()
            a, b = self.names(2, allow_wild=False)       # namedtuple fields cannot start with an underscore
            return {'t': 'nt', 'id': i, 'name': 'N%d' % i, 'fields': [[a, inner, None], [b, {'t': 'int'}, {'v': 'int', 'x': '7'}]]}
        if ctx == 'td':
            i = self.fresh()
            a, b = self.names(2)
            return {'t': 'td', 'id': i, 'name': 'D%d' % i, 'req': [[a, inner]], 'opt': [[b, {'t': 'int'}]]}
        if ctx == 'nonefirst':
            # Optional[X] written None-first: Union[None, X]
            if self.opts.get('no_nonefirst') or inner['t'] in ('opt', 'none', 'any', 'union') or '"auto_tag"' in json.dumps(inner):
                return None      # (under Union[None, X] the parsers of X are never built - F55 - so auto tags are never assigned)
            return {'t': 'union', 'es': [{'t': 'none'}, inner]}
        if ctx == 'subdata':
            # nested dataclass Child(Base): the leaf is a field of the BASE class, Child adds one field
            ib, ic = self.fresh(), self.fresh()
            a, b = self.names(2)
            fa = {'name': a, 'ty': inner, 'alias': None, 'default': None}
            base = {'t': 'data', 'id': ib, 'name': 'K%d' % ib, 'tag': None, 'fields': [fa]}
            return {'t': 'data', 'id': ic, 'name': 'K%d' % ic, 'tag': None, 'base': base,
                    'fields': [dict(fa, inherited=True), {'name': b, 'ty': {'t': 'int'}, 'alias': None, 'default': {'v': 'int', 'x': '3'}}]}
        if ctx in ('listopt', 'dictvalopt'):
            # element / value type Optional[inner]: None and real values side by side in one container
            o = inner if inner['t'] in ('opt', 'none', 'any', 'union') else {'t': 'opt', 'e': inner}
            if ctx == 'listopt':
                return {'t': 'seq', 'k': 'list', 'e': o}
            return {'t': 'dict', 'k': 'dict', 'kt': {'t': 'str'}, 'vt': o}
        if ctx in ('ddkey', 'odkey'):
            # every dict-like container x the leaf as KEY
            if not self.key_type_ok(inner):
                return None
            return {'t': 'dict', 'k': 'defaultdict' if ctx == 'ddkey' else 'ordered', 'kt': inner, 'vt': {'t': 'int'}}
        if ctx == 'tdopt':
            # the leaf sits at a NON-required key (NotRequired / total=False), Optional where the type allows
            i = self.fresh()
            a, b = self.names(2)
            o = inner if inner['t'] in ('opt', 'none', 'any', 'union') else {'t': 'opt', 'e': inner}
            return {'t': 'td', 'id': i, 'name': 'D%d' % i, 'req': [[b, {'t': 'int'}]], 'opt': [[a, o]], 'opt_p': 0.9}
        if ctx == 'autotagunion':
            # Union of two dataclasses WITHOUT explicit tags; the root Meta sets auto_assign_tags (tag = class name)
            i, j2 = self.fresh(), self.fresh()
            a, b, c2 = self.names(3)
            k1 = {'t': 'data', 'id': i, 'name': 'K%d' % i, 'tag': None, 'auto_tag': True,
                  'fields': [{'name': a, 'ty': inner, 'alias': None, 'default': None},
                             {'name': b, 'ty': {'t': 'int'}, 'alias': None, 'default': {'v': 'int', 'x': '3'}}]}
            k2 = {'t': 'data', 'id': j2, 'name': 'K%d' % j2, 'tag': None, 'auto_tag': True,
                  'fields': [{'name': c2, 'ty': {'t': 'str'}, 'alias': None, 'default': None}]}
            es = [k1, k2, {'t': 'int'}]
            self.r.shuffle(es)
            return {'t': 'union', 'es': es}
        if ctx == 'tagunion':
            # Union of two tagged dataclasses (dispatch on the tag) and a scalar
            i, j2 = self.fresh(), self.fresh()
            a, b, c2 = self.names(3)
            k1 = {'t': 'data', 'id': i, 'name': 'K%d' % i, 'tag': 'tag-%d' % i,
                  'fields': [{'name': a, 'ty': inner, 'alias': None, 'default': None},
                             {'name': b, 'ty': {'t': 'int'}, 'alias': None, 'default': {'v': 'int', 'x': '3'}}]}
            k2 = {'t': 'data', 'id': j2, 'name': 'K%d' % j2, 'tag': 'tag-%d' % j2,
                  'fields': [{'name': c2, 'ty': {'t': 'str'}, 'alias': None, 'default': None}]}
            es = [k1, k2, {'t': 'int'}]
            self.r.shuffle(es)
            return {'t': 'union', 'es': es}
        if ctx == 'data':
            i = self.fresh()
            a, b = self.names(2)
            return {'t': 'data', 'id': i, 'name': 'K%d' % i, 'tag': None,
                    'fields': [{'name': a, 'ty': inner, 'alias': None, 'default': None},
                               {'name': b, 'ty': {'t': 'int'}, 'alias': None, 'default': {'v': 'int', 'x': '3'}}]}
        raise ValueError(ctx)

    def respell(self, ty):
        """equal-but-differently-written annotations: typing.List[int] / list[int], Optional[X] / Union[X, None] / X | None"""
        if not isinstance(ty, dict):
            return
        if self.opts.get('spellings') and self.r.random() < self.opts['spellings']:
            if ty.get('t') in ('seq', 'dict', 'tuple', 'vartuple'):
                ty['spell'] = self.r.choice(['typing', 'builtin'])
            elif ty.get('t') in ('opt', 'union'):
                ty['spell'] = self.r.choice(['typing', 'pep604', 'union'])
        for k in ('e', 'kt', 'vt'):
            if k in ty: self.respell(ty[k])
        for e in ty.get('es', []): self.respell(e)
        for f in ty.get('fields', []): self.respell(f['ty'] if isinstance(f, dict) else f[1])
        for _, ft in ty.get('req', []) + ty.get('opt', []): self.respell(ft)

    def root(self, field_types, tag=None, names=None, aliases=None, defaults=None, bases=None):
        i = self.fresh()
        names = names or self.names(len(field_types))
        fields = []
        for j, (n, ty) in enumerate(zip(names, field_types)):
            fields.append({'name': n, 'ty': ty, 'alias': (aliases or {}).get(j), 'default': (defaults or {}).get(j)})
        # fields without default must precede fields with default
        fields.sort(key=lambda f: f['default'] is not None)
        out = {'t': 'data', 'id': i, 'name': 'K%d' % i, 'tag': tag, 'fields': fields, 'bases': bases or []}
        self.respell(out)
        return out

    # ---- random types ----------------------------------------------------------
    def rand_type(self, depth, allow=None):
        r = self.r
        if depth <= 0 or r.random() < 0.3:
            pool = allow or LEAVES
            return self.leaf(r.choice(pool))
        for _ in range(20):
            ctx = r.choice(CONTEXTS)
            need_hash = ctx in ('set', 'frozenset', 'dictkey')
            inner = self.rand_type(depth - 1, HASHABLE_LEAVES if need_hash else allow)
            if ctx == 'union' and self.wire(inner) is None:
                inner = self.leaf(r.choice(['int', 'str', 'float', 'bool']))
            t = self.wrap(ctx, inner)
            if t is not None:
                return t
        return self.leaf('int')

    # ---- values ------------------------------------------------------------------
    def scalar_any(self):
        r = self.r
        return r.choice([{'v': 'none'}, {'v': 'bool', 'x': True}, {'v': 'int', 'x': str(r.randint(-5, 5))},
                         {'v': 'str', 'x': r.choice(['', 'a', 'x y'])}, {'v': 'float', 'x': (1.5).hex()},
                         {'v': 'seq', 'k': 'list', 'xs': [{'v': 'int', 'x': '1'}, {'v': 'str', 'x': 'q'}]},
                         {'v': 'dict', 'k': 'dict', 'kvs': [[{'v': 'str', 'x': 'k'}, {'v': 'int', 'x': '2'}]]}])

    def tok_value(self, k):
        r = self.r
        neg_td = self.opts.get('neg_timedelta', True)
        if k == 'uuid':
            return {'v': 'tok', 'k': k, 'x': '%032x' % r.getrandbits(128)}
        if k == 'decimal':
            return {'v': 'tok', 'k': k, 'x': r.choice(['0', '-1.50', '1E+5', '3.14159', '-0', '12345678901234567890.123', 'Infinity', '1.0', '1.00'])}
        if k == 'path':
            return {'v': 'tok', 'k': k, 'x': r.choice(['/a/b', 'rel/x.txt', '.', 'a b', '/', '..', 'Z', '/tmp/é'])}
        ext = self.opts.get('extreme_dates', False)
        if k == 'date':
            if ext and r.random() < 0.15:
                return {'v': 'tok', 'k': k, 'x': r.choice([[1, 1, 1], [9999, 12, 31], [1600, 2, 29]])}
            return {'v': 'tok', 'k': k, 'x': [r.randint(1971, 2090), r.randint(1, 12), r.randint(1, 28)]}
        # tzinfo zoo: naive, UTC, fixed offsets (positive, negative, named, zero-but-not-named-UTC, sub-minute),
        # IANA zones (zero offset in winter / one hour in summer, half-hour, always zero)
        tz = r.choice([None, None, 0, 0, 19800, -28800, 3600]) if not self.opts.get('naive_only') else None
        if self.opts.get('tz_zoo', True) and not self.opts.get('naive_only') and r.random() < 0.35:
            tz = r.choice([{'off': 0, 'name': 'GMT'}, {'off': 0, 'name': 'WET'}, {'off': 3600, 'name': 'CET'}, {'off': -18000, 'name': 'EST'},
                           {'zone': 'Europe/London'}, {'zone': 'Africa/Abidjan'}, {'zone': 'Asia/Kolkata'}, {'zone': 'America/St_Johns'},
                           {'zone': 'UTC'}, {'zone': 'Atlantic/Reykjavik'}, -1800, -45])
        if self.opts.get('odd_offsets') and r.random() < 0.1:
            tz = r.choice([30, 59, -30])
        us = r.choice([0, 0, 1, 500000, 999999])
        if k == 'datetime':
            y = r.randint(1971, 2090)
            if ext and r.random() < 0.1:
                y = r.choice([2, 9998])
            return {'v': 'tok', 'k': k, 'x': [y, r.randint(1, 12), r.randint(1, 28), r.randint(0, 23), r.randint(0, 59), r.randint(0, 59), us, tz]}
        if k == 'time':
            return {'v': 'tok', 'k': k, 'x': [r.randint(0, 23), r.randint(0, 59), r.randint(0, 59), us, tz]}
        if k == 'timedelta':
            c = r.random()
            if c < 0.2:
                return {'v': 'tok', 'k': k, 'x': [0, 0, 0]}
            days = r.choice([0, 0, 1, 2, 400])
            if neg_td and c > 0.8:
                days = -r.choice([1, 1, 3])
            return {'v': 'tok', 'k': k, 'x': [days, r.randint(0, 86399), r.choice([0, 0, 5, 250000])]}
        raise ValueError(k)

    def value(self, ty, depth=0):
        v = self.value0(ty, depth)
        # runtime type axis: an instance of a user SUBCLASS of the documented type (class Stamp(datetime), MyList(list) ...)
        if self.opts.get('subclasses') and self.r.random() < self.opts['subclasses'] and isinstance(v, dict):
            if v.get('v') in ('tok', 'seq', 'dict', 'str', 'int', 'float') and ty['t'] not in ('lit', 'enum', 'td', 'any', 'union', 'opt'):
                v = dict(v); v['sub'] = True
                self.used_sub = True
        return v

    def value0(self, ty, depth=0):
        r = self.r
        t = ty['t']
        if t == 'any': return self.scalar_any()
        if t == 'none': return {'v': 'none'}
        if t == 'bool': return {'v': 'bool', 'x': r.random() < 0.5}
        if t == 'int':
            return {'v': 'int', 'x': str(r.choice([0, 1, -1, 2 ** 63, -2 ** 70, r.randint(-1000, 1000), r.randint(-10 ** 30, 10 ** 30)]))}
        if t == 'float':
            pool = [0.0, -0.0, 1.5, -2.25, 1e300, 5e-324, 0.1, 3.0, 1e16, r.uniform(-1e6, 1e6)]
            x = r.choice(pool)
            if self.opts.get('nonfinite') and r.random() < 0.08:
                return {'v': 'float', 'x': r.choice(['nan', 'inf', '-inf'])}
            return {'v': 'float', 'x': x.hex()}
        if t == 'str':
            return {'v': 'str', 'x': r.choice(STR_ZOO + [''.join(r.choice(string.printable[:94]) for _ in range(r.randint(1, 12)))])}
        if t in ('bytes', 'bytearray'):
            n = r.choice([0, 1, 2, 3, 10])
            return {'v': 'bytes', 'mut': t == 'bytearray', 'x': bytes(r.getrandbits(8) for _ in range(n)).hex()}
        if t == 'tok': return self.tok_value(ty['k'])
        if t == 'enum': return {'v': 'enum', 'id': ty['id'], 'm': r.choice(ty['members'])[0]}
        if t == 'lit': return r.choice(ty['vs'])
        n = r.choice([0, 1, 2, 3]) if depth < 3 else r.choice([0, 1])
        if t == 'seq':
            xs = self.elems(ty['e'], n, depth)
            if ty['k'] in ('set', 'frozenset'):
                xs = self.distinct(xs)
            return {'v': 'seq', 'k': ty['k'], 'xs': xs}
        if t == 'tuple': return {'v': 'seq', 'k': 'tuple', 'xs': [self.value(e, depth + 1) for e in ty['es']]}
        if t == 'vartuple': return {'v': 'seq', 'k': 'tuple', 'xs': self.elems(ty['e'], n, depth)}
        if t == 'dict':
            ks = self.distinct([self.value(ty['kt'], depth + 1) for _ in range(n)])
            vals = self.elems(ty['vt'], len(ks), depth)
            out = {'v': 'dict', 'k': ty['k'], 'kvs': [[k, v] for k, v in zip(ks, vals)]}
            if ty['k'] == 'defaultdict':
                vt = ty['vt']
                out['factory'] = {'int': 'int', 'str': 'str'}.get(vt['t']) or \
                    ({'list': 'list', 'set': 'set'}.get(vt.get('k')) if vt['t'] == 'seq' else ('dict' if vt['t'] == 'dict' and vt['k'] == 'dict' else None))
            return out
        if t == 'opt':
            return {'v': 'none'} if r.random() < 0.3 else self.value(ty['e'], depth)
        if t == 'union':
            datas = [e for e in ty['es'] if e['t'] == 'data']
            e = datas[0] if datas and r.random() < 0.6 else r.choice(ty['es'])
            return self.value(e, depth)
        if t == 'nt': return {'v': 'nt', 'id': ty['id'], 'xs': [self.value(f[1], depth + 1) for f in ty['fields']]}
        if t == 'td':
            kvs = [[{'v': 'str', 'x': k}, self.value(ft, depth + 1)] for k, ft in ty['req']]
            kvs += [[{'v': 'str', 'x': k}, self.value(ft, depth + 1)] for k, ft in ty['opt'] if r.random() < ty.get('opt_p', 0.6)]
            return {'v': 'dict', 'k': 'dict', 'kvs': kvs}
        if t == 'data': return {'v': 'inst', 'id': ty['id'], 'xs': [self.value(f['ty'], depth + 1) for f in ty['fields']]}
        raise ValueError(ty)

    def elems(self, et, n, depth):
        """n element values of type et.  For Optional / Union element types the members are laid out in every order:
        None (or a scalar member) FIRST and a complex member later, None in the middle, complex first."""
        r = self.r
        if et['t'] == 'opt' and n >= 1:
            n = max(n, r.choice([2, 3]))
            real = lambda: self.value(et['e'], depth + 1)
            pat = r.choice(['NR', 'NRN', 'RNR', 'NNR', 'RN', 'RRN'])
            return [({'v': 'none'} if ch == 'N' else real()) for ch in (pat * 2)[:n]]
        if et['t'] == 'union' and n >= 1:
            ms = [e for e in et['es']]
            scal = [e for e in ms if e['t'] in ('none', 'int', 'str', 'float', 'bool')]
            rest = [e for e in ms if e not in scal]
            n = max(n, min(3, len(ms)))
            order = (scal + rest) if r.random() < 0.6 else (rest + scal)
            return [self.value(order[i % len(order)], depth + 1) for i in range(n)]
        return [self.value(et, depth + 1) for _ in range(n)]

    @staticmethod
    def vkey(v):
        """Python-equality class of a value spec (1 == True == 1.0; equal Decimals; equal instants)."""
        import json, decimal
        v = {a: b for a, b in v.items() if a != 'sub'}
        k = v['v']
        if k in ('bool', 'int'):
            return ('num', int(v['x']))
        if k == 'float':
            try:
                f = float.fromhex(v['x'])
                return ('num', int(f)) if f == int(f) else ('num', f)
            except Exception:
                return ('f', v['x'])
        if k == 'tok' and v['k'] == 'decimal':
            d = decimal.Decimal(v['x'])
            return ('dec', str(d.normalize()) if d.is_finite() else str(d))
        if k == 'tok' and v['k'] in ('datetime', 'time'):
            return ('t', v['k'], v['x'][-1] is None)     # keep at most one naive and one aware (equal instants collide)
        if k == 'tok' and v['k'] == 'timedelta':
            return ('td', v['x'][0] * 86400 * 10 ** 6 + v['x'][1] * 10 ** 6 + v['x'][2])
        if k == 'tok' and v['k'] == 'path':
            return ('p', v['x'])
        return json.dumps(v, sort_keys=True)

    def distinct(self, xs):
        seen, out = set(), []
        for x in xs:
            k = self.vkey(x)
            if k not in seen:
                seen.add(k); out.append(x)
        return out


# --------------------------------------------------------------------------- systematic enumeration
def systematic_types(g, max_depth=3, leaves=LEAVES):
    """(label, field type) for every leaf in every container position: depth 1 = the field
    itself, depth 2 = one container, depth 3 = two nested containers."""
    out = []
    for l in leaves:
        out.append((l, g.leaf(l)))
    if max_depth >= 2:
        for c in CONTEXTS:
            for l in leaves:
                t = g.wrap(c, g.leaf(l))
                if t is not None:
                    out.append(('%s<%s>' % (c, l), t))
    if max_depth >= 3:
        for c1 in CONTEXTS:
            for c2 in CONTEXTS:
                for l in leaves:
                    inner = g.wrap(c2, g.leaf(l))
                    if inner is None:
                        continue
                    t = g.wrap(c1, inner)
                    if t is not None:
                        out.append(('%s<%s<%s>>' % (c1, c2, l), t))
    return out


def type_stats(ty, hist, depth=0):
    hist[ty['t'] + (':' + ty['k'] if 'k' in ty and isinstance(ty['k'], str) else '')] = hist.get(ty['t'], 0) + 1
    for k in ('e', 'kt', 'vt'):
        if k in ty: type_stats(ty[k], hist, depth + 1)
    for e in ty.get('es', []): type_stats(e, hist, depth + 1)
    for f in ty.get('fields', []):
        type_stats(f['ty'] if isinstance(f, dict) else f[1], hist, depth + 1)
    for k, ft in ty.get('req', []) + ty.get('opt', []): type_stats(ft, hist, depth + 1)


def type_depth(ty):
    subs = [ty[k] for k in ('e', 'kt', 'vt') if k in ty] + list(ty.get('es', []))
    subs += [f['ty'] if isinstance(f, dict) else f[1] for f in ty.get('fields', [])]
    subs += [ft for _, ft in ty.get('req', []) + ty.get('opt', [])]
    return 1 + max([type_depth(s) for s in subs] or [0])
