"""C09 — absent keys: defaults for optional fields, else one exact MissingFields error.

Theorems: coq/props/C09.v (model coq/model/FieldsMissing.v).  Correspondence: for every
generated class tree (required / default / default_factory / init=False fields, nested
dataclasses, lists of dataclasses, Optional nested with default None), the complete
document and ALL its key-position subsets when there are <= 10 positions (random subsets
above), both engines: model outcome == implementation outcome (instance tree or
MissingFields class / provided / missing lists).  Direct predicates on the implementation
for every case, from an independent Python reference written from the property text.
"""
import itertools, json, keyword
from lib.coqrun import coq_str, coq_list

META = {
    'id': 'C09',
    'title': 'Absent keys: defaults for optional fields, else one exact MissingFields error',
    'level': 'proof',
    'technique': 'Coq proof (induction over the class tree, loop invariants for both engines, refinement to a declarative '
                 'specification) on a hand-written Gallina model + differential correspondence with the implementation',
    'design_ref': 'DESIGN.md section 4 C09',
    'theorems': ['C09_subset_partial', 'C09_refines_partial', 'C09_ok_iff', 'C09_error_exact', 'C09_subset_top_partial', 'C09_factory_fresh',
                 'C09_v1_refuted_kwonly', 'C09_missing_source_tie'],
    'tables': ['MissingFieldsAlg'],
    'level_text': ('Theorems proved in Coq for ALL class trees (any mix of required/default/default_factory/init=False fields, '
                   'nested dataclasses and lists of dataclasses, any depth) and ALL deletion subsets of a complete document at any '
                   'depth (no bound on the number of keys), for both engines, about an executable model of the generated '
                   'cls_fromdict tail, the dataclass __init__, MissingFields.__init__ and v1 raise_missing_fields; the model is '
                   're-validated against the implementation on every run (exhaustive subsets up to 10 key positions per class).'),
    'level_note': ('Trusted: Coq kernel + vm_compute; the hand-written model; the correspondence harness. Per-field leaf '
                   'conversion is a Section variable (conv); key spelling is out of scope (keys are the field names; C08/C10). '
                   'Python dict/dataclasses semantics are modelled, exercised by the correspondence, not proved.'),
    'rule': ('classes: random trees of depth <= 2 with 1-5 fields per class, 3-22 key positions (required first, then default / default_factory, '
             'init=False anywhere; kinds leaf int/str/List[int], nested dataclass, List[dataclass] with 0-2 elements, Optional nested '
             'default None, nested default_factory); documents: the complete document and every subset of its key positions when '
             '<= 10 positions (exhaustive), else 200 (quick) / 1000 (thorough) random subsets, deduplicated by resulting document; '
             'both engines; declaration styles: keyword-only fields (per field / class), frozen, slots, a base class; entry points fromdict / '
             'fromlist / JSONWizard.from_dict / from_json; every document loaded three times (the third after mutating the factory '
             'products of the first two).  Separate stream (direct predicates only): classes with key-path fields (path_field / KeyPath / '
             'AliasPath) of type int/str/List[int]/Dict[str,int]/Any/dataclass with default, default_factory or required, all subsets '
             'of their key positions.  Non-trivial = at least one key deleted; distinct = distinct (class, engine, document).'),
    'trusted_base': ['model coq/model/FieldsMissing.v transcribes loaders.py cls_fromdict tail, errors.py MissingFields.__init__, '
                     'v1/loaders.py field loop + check_and_raise_missing_fields and dataclasses.__init__ (validated by correspondence)'],
    'assumptions': ['Coq model: keys of the document are the field names (no aliases / key-case transforms); key-path fields are checked by direct predicates only',
                    'v1 theorems exclude classes with a required keyword-only field (open finding F43, refuted in Coq)',
                    'no recursive classes; field names pairwise distinct (wf_cls); unique class names'],
}

# --- lead: algorithm-level source tie mentioned in the technique (kept separate so the builder's text stays intact)
META['technique'] = META['technique'] + ' + translation of the comprehensions of errors.MissingFields.__init__ and v1 check_and_raise_missing_fields from the current source text into Gallina, proved equal to the hand-written model on every run (tie T for algorithms)'

RESERVED = {'o', 'cls', 'field', 'fields', 'i', 'e', 'v1', 'tp', 'result', 'config', 'hooks', 'exclude', 'self', 'k', 'v'}
LETTERS = 'abcdefghjmnpqrstuwxyz'


# --------------------------------------------------------------------------- generation
def gen_name(r, used):
    while True:
        n = r.choice(LETTERS) + ''.join(r.choice(LETTERS + '_0123456789') for _ in range(r.choice([0, 1, 2, 4])))
        n = n.rstrip('_') or 'a'
        if n not in used and n not in RESERVED and not keyword.iskeyword(n) and '__' not in n:
            used.add(n)
            return n


def gen_class(r, depth, counter, max_fields=5):
    counter[0] += 1
    name = 'K%d' % counter[0]
    used = set()
    nf = r.randint(1, max_fields)
    fields = []
    for _ in range(nf):
        kind = 'leaf'
        if depth > 0:
            kind = r.choice(['leaf', 'leaf', 'leaf', 'nested', 'list'])
        dflt = r.choice(['req', 'req', 'def', 'fac'])
        init = r.random() > 0.15
        f = {'name': gen_name(r, used), 'kind': kind, 'init': init, 'dflt': dflt, 'fid': 0}
        if kind == 'leaf':
            f['ty'] = r.choice(['int', 'int', 'str', 'ints'])
            if dflt == 'def':
                if f['ty'] == 'ints':
                    f['ty'] = 'int'
                f['default'] = r.randint(0, 99) if f['ty'] == 'int' else r.choice(['', 'dv', 'x y'])
            elif dflt == 'fac':
                f['ty'] = 'ints'; f['fac'] = 'list'; f['fid'] = 1
        else:
            f['cls'] = gen_class(r, depth - 1, counter, max_fields=3)
            if dflt == 'def':
                if kind == 'nested':
                    f['default'] = None
                else:
                    f['dflt'] = 'fac'; f['fac'] = 'list'; f['fid'] = 1
            elif dflt == 'fac':
                if kind == 'nested':
                    f['fac'] = 'inst'; f['fid'] = 2
                else:
                    f['fac'] = 'list'; f['fid'] = 1
        fields.append(f)
    # declaration styles: keyword-only fields (per field / whole class), frozen, slots, a base class
    kw_cls = r.random() < 0.07
    for f in fields:
        f['kw_only'] = bool(f['init'] and (kw_cls or r.random() < 0.1))
    # dataclass rule: among the positional init fields, required ones come first; keyword-only and
    # init=False fields may stand anywhere
    req = [f for f in fields if f['init'] and not f['kw_only'] and f['dflt'] == 'req']
    opt = [f for f in fields if f['init'] and not f['kw_only'] and f['dflt'] != 'req']
    free = [f for f in fields if not f['init'] or f['kw_only']]
    ordered = req + opt
    for f in free:
        ordered.insert(r.randint(0, len(ordered)), f)
    spec = {'name': name, 'fields': ordered, 'kw_only_cls': kw_cls,
            'frozen': r.random() < 0.15, 'slots': r.random() < 0.15, 'base_split': None}
    if len(ordered) >= 2 and r.random() < 0.35:
        k = spec['base_split'] = r.randint(1, len(ordered) - 1)
        # the base class declares the first k fields; the subclass may RE-DECLARE some of them differently
        # (default -> required, required -> default, default_factory <-> default, bare `list` -> List[int]);
        # spec['fields'] is what dataclasses.fields(subclass) gives; spec['base_fields'] what the base declares
        base = [dict(f) for f in ordered[:k]]
        for b in base:
            if b['kind'] != 'leaf' or not b['init'] or r.random() > 0.6:
                continue
            old_b = dict(b)
            if b['dflt'] == 'req':
                if b['ty'] == 'ints':
                    b.update(dflt='fac', fac='list', fid=1)
                else:
                    b.update(dflt='def', default=(7 if b['ty'] == 'int' else 'base'))
            elif r.random() < 0.6:
                b['dflt'] = 'req'; b.pop('default', None); b.pop('fac', None)
            elif b['dflt'] == 'def':
                b['default'] = 8 if b['ty'] == 'int' else 'other'
            if b['ty'] == 'ints' and r.random() < 0.5:
                b['bare_list'] = True
            if not valid_order(base):
                b.clear(); b.update(old_b)
            else:
                b['overridden'] = True
        spec['base_fields'] = base
        spec['base_first'] = r.random() < 0.6         # history: the base class is loaded and dumped first
    return spec


def valid_order(fields):
    """dataclass rule: among positional init fields no required one after a defaulted one"""
    seen_default = False
    for f in fields:
        if not f['init'] or f.get('kw_only'):
            continue
        if f['dflt'] != 'req':
            seen_default = True
        elif seen_default:
            return False
    return True


def base_preops(spec, doc, acc):
    """(class name, complete document of its BASE class) for every class of the tree whose base is used first"""
    if spec.get('base_first') and spec.get('base_fields') and isinstance(doc, dict):
        names = [b['name'] for b in spec['base_fields'] if b['init']]
        if all(n in doc for n in names):
            acc.append({'cls': spec['name'], 'doc': {n: doc[n] for n in names}})
    for f in spec['fields']:
        if f['kind'] == 'nested' and isinstance(doc, dict) and isinstance(doc.get(f['name']), dict):
            base_preops(f['cls'], doc[f['name']], acc)
        elif f['kind'] == 'list' and isinstance(doc, dict) and doc.get(f['name']):
            base_preops(f['cls'], doc[f['name']][0], acc)
    return acc


def kw_pairs(spec, acc):
    for f in spec['fields']:
        if f.get('kw_only'):
            acc.append((spec['name'], f['name']))
        if f['kind'] != 'leaf':
            kw_pairs(f['cls'], acc)
    return acc


def f43_positions(spec, doc, acc):
    """v1: dataclass positions whose class has a required keyword-only init field and where no required field
    is omitted (so the constructor is reached): region of finding F43"""
    reqs = [f for f in spec['fields'] if f['init'] and f['dflt'] == 'req']
    if any(f.get('kw_only') for f in reqs) and all(f['name'] in doc for f in reqs):
        acc.append(spec['name'])
    for f in spec['fields']:
        if f['init'] and f['name'] in doc:
            if f['kind'] == 'nested':
                f43_positions(f['cls'], doc[f['name']], acc)
            elif f['kind'] == 'list':
                for d in doc[f['name']]:
                    f43_positions(f['cls'], d, acc)
    return acc


def gen_leaf_value(r, ty):
    if ty == 'int':
        return 0 if r.random() < 0.15 else r.randint(0, 999)
    if ty == 'str':
        return r.choice(['', 'a', 'hello', 'x_y', 'Z9'])
    return [r.randint(0, 9) for _ in range(r.choice([0, 1, 3]))]


def gen_complete(r, spec):
    doc = {}
    for f in spec['fields']:
        if not f['init']:
            continue
        if f['kind'] == 'leaf':
            doc[f['name']] = gen_leaf_value(r, f['ty'])
        elif f['kind'] == 'nested':
            doc[f['name']] = gen_complete(r, f['cls'])
        else:
            doc[f['name']] = [gen_complete(r, f['cls']) for _ in range(r.choice([0, 1, 1, 2]))]
    # document order need not be declaration order
    if r.random() < 0.4:
        ks = list(doc)
        r.shuffle(ks)
        doc = {k: doc[k] for k in ks}
    return doc


def positions(spec, doc, prefix=()):
    out = []
    for f in spec['fields']:
        if not f['init'] or f['name'] not in doc:
            continue
        p = prefix + (f['name'],)
        out.append(p)
        if f['kind'] == 'nested':
            out.extend(positions(f['cls'], doc[f['name']], p))
        elif f['kind'] == 'list':
            for i, d in enumerate(doc[f['name']]):
                out.extend(positions(f['cls'], d, p + (i,)))
    return out


def delete(doc, paths):
    """copy of doc without the key positions in `paths`"""
    def go(d, prefix):
        if isinstance(d, dict):
            return {k: go(v, prefix + (k,)) for k, v in d.items() if prefix + (k,) not in paths}
        if isinstance(d, list):
            return [go(x, prefix + (i,)) for i, x in enumerate(d)]
        return d
    return go(doc, ())


# --------------------------------------------------------------------------- reference
def enc_leaf(v):
    if v is None:
        return 'n'
    if isinstance(v, bool):
        return 'b%d' % v
    if isinstance(v, int):
        return 'i%d' % v if v >= 0 else 'im%d' % -v
    if isinstance(v, str):
        return 's' + v.encode().hex()
    return 'l' + 'x'.join(str(x) for x in v)


def ref_failures(spec, doc, acc):
    """every dataclass position with omitted required init fields: (class name, [fields in declaration order])"""
    miss = [f['name'] for f in spec['fields'] if f['init'] and f['dflt'] == 'req' and f['name'] not in doc]
    if miss:
        acc.append((spec['name'], miss))
    for f in spec['fields']:
        if f['init'] and f['name'] in doc:
            if f['kind'] == 'nested':
                ref_failures(f['cls'], doc[f['name']], acc)
            elif f['kind'] == 'list':
                for d in doc[f['name']]:
                    ref_failures(f['cls'], d, acc)
    return acc


def ref_tree(spec, doc):
    parts = []
    for f in spec['fields']:
        nm = f['name']
        if f['init'] and nm in doc:
            if f['kind'] == 'leaf':
                s = 'V' + enc_leaf(doc[nm])
            elif f['kind'] == 'nested':
                s = ref_tree(f['cls'], doc[nm])
            else:
                s = 'L[' + ','.join(ref_tree(f['cls'], d) for d in doc[nm]) + ']'
        elif f['dflt'] == 'def':
            s = 'V' + enc_leaf(f['default'])
        elif f['dflt'] == 'fac':
            s = 'F%d' % f['fid']
        else:
            continue          # init=False without default: attribute stays unset
        parts.append('%s=%s' % (nm, s))
    return 'I(%s:%s)' % (spec['name'], ','.join(parts))


def n_factory_omitted(spec, doc):
    n = 0
    for f in spec['fields']:
        if f['init'] and f['name'] in doc:
            if f['kind'] == 'nested':
                n += n_factory_omitted(f['cls'], doc[f['name']])
            elif f['kind'] == 'list':
                n += sum(n_factory_omitted(f['cls'], d) for d in doc[f['name']])
        elif f['dflt'] == 'fac':
            n += 1
    return n


def direct_predicate(spec, doc, res):
    """None when the property holds on the implementation's outcome, else a description"""
    fails = ref_failures(spec, doc, [])
    if not res.get('input_unchanged', True):
        return 'the input document was mutated'
    if not fails:
        if 'ok' not in res:
            return 'no required field omitted but the load raised %s: %s' % (res.get('err'), res.get('msg'))
        exp = ref_tree(spec, doc)
        if res['ok'] != exp:
            return 'loaded %s, expected %s' % (res['ok'], exp)
        if not res.get('fresh', False):
            return 'default_factory products are shared between instances (or with the cached default)'
        if res.get('n_products') != n_factory_omitted(spec, doc):
            return 'expected %d default_factory products, found %d' % (n_factory_omitted(spec, doc), res.get('n_products'))
    else:
        if 'ok' in res:
            return 'required field(s) omitted %r but the load succeeded' % (fails,)
        if res.get('err') != 'MissingFields':
            return 'required field(s) omitted %r but %s was raised: %s' % (fails, res.get('err'), res.get('msg'))
        if not res.get('renders'):
            return 'MissingFields message cannot be rendered (%s)' % res.get('render_err')
        got = (res.get('class_name'), res.get('missing_fields'))
        if got not in fails:
            return 'MissingFields(%s, %r) is not the omitted required fields of any position %r' % (got[0], got[1], fails)
    if res.get('repeat_same') is False:
        return 'the second identical load gave a different outcome'
    if res.get('after_mutation_same') is False:
        return 'after mutating the default_factory products of earlier instances, the same load gives a different instance'
    return None


# --------------------------------------------------------------------------- Coq terms
def coq_id(s):
    return coq_str(s)


def coq_cls(spec):
    fs = []
    for f in spec['fields']:
        if f['dflt'] == 'req':
            d = 'Required'
        elif f['dflt'] == 'def':
            d = '(Default %s)' % coq_str(enc_leaf(f['default']))
        else:
            d = '(Factory %d%%N)' % f['fid']
        if f['kind'] == 'leaf':
            k = '(KLeaf %s)' % coq_str(f['ty'])
        elif f['kind'] == 'nested':
            k = '(KNested %s)' % coq_cls(f['cls'])
        else:
            k = '(KList %s)' % coq_cls(f['cls'])
        fs.append('FD %s %s %s %s' % (coq_str(f['name']), d, 'true' if f['init'] else 'false', k))
    return '(Cls %s %s)' % (coq_str(spec['name']), coq_list(fs))


def coq_doc(spec, doc):
    items = []
    kinds = {f['name']: f for f in spec['fields']}
    for k, v in doc.items():
        f = kinds[k]
        if f['kind'] == 'leaf':
            t = '(JAtom %s)' % coq_str(enc_leaf(v))
        elif f['kind'] == 'nested':
            t = coq_doc(f['cls'], v)
        else:
            t = '(JList %s)' % coq_list([coq_doc(f['cls'], d) for d in v])
        items.append('(%s, %s)' % (coq_str(k), t))
    return '(JDict %s)' % coq_list(items)


PRELUDE_HEAD = '''
Definition xconv (t r : pstr) : option pstr := Some r.
Definition digit (n : N) : pstr := [ch (48 + n)].
Fixpoint show_pv (v : pv pstr) : pstr :=
  match v with
  | PVal x => S "V" ++ x
  | PFac fid _ => S "F" ++ digit fid
  | PInst cn attrs =>
      S "I(" ++ cn ++ S ":" ++
      join (S ",") ((fix go (l : list (pstr * pv pstr)) : list pstr :=
                       match l with [] => [] | (k, x) :: r => (k ++ S "=" ++ show_pv x) :: go r end) attrs)
      ++ S ")"
  | PList l =>
      S "L[" ++ join (S ",") ((fix go (l : list (pv pstr)) : list pstr :=
                                 match l with [] => [] | x :: r => show_pv x :: go r end) l) ++ S "]"
  end.
Definition show_err (e : err) : pstr :=
  match e with
  | EMissingFields cn p m => S "E:" ++ cn ++ S ":" ++ join (S ",") p ++ S ":" ++ join (S ",") m
  | EParse cn fn => S "P:" ++ cn ++ S ":" ++ fn
  | EShape cn => S "S:" ++ cn
  | EBareType cn => S "T:" ++ cn
  end.
'''

PRELUDE_TAIL = '''
Definition xkw (cn fn : pstr) : bool := existsb (fun p => pstr_eqb (fst p) cn && pstr_eqb (snd p) fn) kwtab.
Definition run (e : engine) (c : cls pstr pstr) (d : jv pstr) : pstr :=
  match fst (load xconv xkw e c d 0%N) with Ok v => show_pv v | Err er => show_err er end.
'''


def impl_show(res):
    if 'ok' in res:
        return res['ok']
    if res.get('err') == 'MissingFields' and isinstance(res.get('provided'), list):
        return 'E:%s:%s:%s' % (res.get('class_name'), ','.join(res['provided']), ','.join(res.get('missing_fields') or []))
    if res.get('err') == 'TypeError' and '.__init__()' in (res.get('msg') or ''):
        return 'T:%s' % res['msg'].split('.__init__()')[0]
    if res.get('err') == 'ParseError':
        return 'P:%s:%s' % (res.get('class_name'), res.get('field_name'))
    return 'X:%s' % res.get('err')


# --------------------------------------------------------------------------- classes with key-path fields
def gen_path_class(r, counter):
    """class whose fields declare their own keys: key paths, one or more aliases, or plain; any of them may be
    init=False (then it has a default and is never read from the document)"""
    counter[0] += 1
    used = set()
    tops = [gen_name(r, used) for _ in range(r.choice([1, 2]))]
    fields = [{'name': gen_name(r, used), 'ty': 'str', 'dflt': 'req', 'path': None, 'aliases': None, 'init': True}]
    for _ in range(r.randint(1, 4)):
        access = r.choice(['path', 'path', 'alias', 'alias', 'plain'])
        ty = r.choice(['int', 'str', 'ints', 'dict', 'float', 'bool'] + (['any', 'inst', 'ints', 'dict'] if access == 'path' else []))
        f = {'name': gen_name(r, used), 'ty': ty, 'path': None, 'aliases': None, 'init': True,
             'style': r.choice(['path_field', 'keypath']) if access == 'path' else r.choice(['json_field', 'json_key'])}
        if access == 'path':
            f['path'] = [r.choice(tops), gen_name(r, used)]
        elif access == 'alias':
            f['aliases'] = [gen_name(r, used) for _ in range(r.choice([1, 2, 2, 3]))]
        if ty in ('int', 'str', 'float', 'bool'):
            f['dflt'] = r.choice(['def', 'def', 'req'])
            if f['dflt'] == 'def':
                f['default'] = {'int': r.randint(1, 9), 'str': r.choice(['dv', 'x']), 'float': 1.5, 'bool': True}[ty]
        else:
            f['dflt'] = 'fac'
        if f['dflt'] != 'req' and ty not in ('any', 'inst') and r.random() < 0.25:
            f['init'] = False
        fields.append(f)
    if r.random() < 0.5:
        fields.append({'name': gen_name(r, used), 'ty': 'ints', 'dflt': 'fac', 'path': None, 'aliases': None, 'init': True})
    return {'name': 'P%d' % counter[0], 'fields': fields, 'tops': tops}


def path_value(r, ty):
    """document values; every falsy value of the type occurs often"""
    falsy = r.random() < 0.4
    return {'int': lambda: 0 if falsy else r.randint(1, 99), 'str': lambda: '' if falsy else r.choice(['a', 'hello']),
            'ints': lambda: [] if falsy else [r.randint(0, 9)], 'dict': lambda: {} if falsy else {'k': r.randint(0, 9)},
            'float': lambda: 0.0 if falsy else r.choice([2.5, 7.25]), 'bool': lambda: False if falsy else True,
            'any': lambda: [r.randint(0, 9)], 'inst': lambda: {'k': r.randint(2, 9)}}[ty]()


def path_complete(r, spec):
    """what a producer writes: a key for every field, init=False ones (mostly) included"""
    doc = {}
    for f in spec['fields']:
        if not f['init'] and r.random() < 0.3:
            continue
        if f['path']:
            doc.setdefault(f['path'][0], {})[f['path'][1]] = path_value(r, f['ty'])
        elif f['aliases']:
            doc[r.choice(f['aliases'])] = path_value(r, f['ty'])
        else:
            doc[f['name']] = path_value(r, f['ty'])
    return doc


def path_positions(spec, doc):
    pos = [(k,) for k in doc]
    for t in spec['tops']:
        if t in doc:
            pos.extend((t, k) for k in doc[t])
    return pos


def path_lookup(f, doc):
    """(found, value) of an init field in a document"""
    if not f['init']:
        return False, None
    if f['path']:
        if isinstance(doc.get(f['path'][0]), dict) and f['path'][1] in doc[f['path'][0]]:
            return True, doc[f['path'][0]][f['path'][1]]
        return False, None
    for k in (f['aliases'] or [f['name']]):
        if k in doc:
            return True, doc[k]
    return False, None


def path_present(f, doc):
    return path_lookup(f, doc)[0]


def path_canon(ty, v):
    if ty == 'int':
        return {'int': str(v)}
    if ty == 'str':
        return {'str': v}
    if ty == 'float':
        return {'float': float(v).hex()}
    if ty == 'bool':
        return {'bool': v}
    if ty in ('ints', 'any'):
        return {'list': [{'int': str(x)} for x in v]}
    if ty == 'dict':
        return {'dict': [[{'str': k}, {'int': str(x)}] for k, x in v.items()]}
    return {'inst': 'PInner', 'fields': {'k': {'int': str(v['k'])}}}


PATH_DEFAULT = {'ints': {'list': []}, 'any': {'list': []}, 'dict': {'dict': []}, 'inst': {'inst': 'PInner', 'fields': {'k': {'int': '1'}}}}


def path_expected(spec, doc):
    missing = [f['name'] for f in spec['fields'] if f['init'] and f['dflt'] == 'req' and not path_present(f, doc)]
    if missing:
        return None, missing
    view = {}
    for f in spec['fields']:
        found, v = path_lookup(f, doc)
        if found:
            view[f['name']] = path_canon(f['ty'], v)
        elif f['dflt'] == 'def':
            view[f['name']] = path_canon(f['ty'], f['default'])
        else:
            view[f['name']] = PATH_DEFAULT[f['ty']]
    return view, []


def path_region(spec, engine, doc):
    """the open finding whose (narrow) region contains this input, or None"""
    for f in spec['fields']:
        if f['path'] and f['dflt'] == 'req' and not path_present(f, doc):
            return 'F44-required-path-parse-error'
    if engine == 'v0':
        for f in spec['fields']:
            if f['path'] and f['dflt'] == 'fac' and f['ty'] in ('any', 'inst') and not path_present(f, doc):
                return 'F42-path-default-shared'
    return None


def path_predicate(spec, doc, res):
    if not res.get('input_unchanged', True):
        return 'the input document was mutated'
    exp, missing = path_expected(spec, doc)
    if missing:
        if 'ok' in res:
            return 'required field(s) %r omitted but the load succeeded' % (missing,)
        if res.get('err') != 'MissingFields':
            return 'required field(s) %r omitted but %s was raised: %s' % (missing, res.get('err'), (res.get('msg') or '')[:120])
        if res.get('missing_fields') != missing or res.get('class_name') != spec['name'] or not res.get('renders'):
            return 'MissingFields(%s, %r), expected (%s, %r)' % (res.get('class_name'), res.get('missing_fields'), spec['name'], missing)
        return None
    if 'ok' not in res:
        return 'no required field omitted but the load raised %s: %s' % (res.get('err'), (res.get('msg') or '')[:120])
    if res['ok'] != exp:
        return 'loaded %s, expected %s' % (json.dumps(res['ok'])[:300], json.dumps(exp)[:300])
    if res.get('second') != exp:
        return 'the second identical load gave %s' % json.dumps(res.get('second'))[:300]
    if res.get('shared'):
        return 'default_factory products of field(s) %r are the SAME object in two instances' % (res['shared'],)
    if res.get('after_mutation') != exp:
        return 'after mutating the defaults of an earlier instance the same load gives %s' % json.dumps(res.get('after_mutation'))[:300]
    return None


def build_path_cases(ctx):
    r = ctx.sub_rng('paths')
    n = 40 if ctx.tier == 'quick' else 300
    counter = [0]
    out = []
    for _ in range(n):
        spec = gen_path_class(r, counter)
        doc = path_complete(r, spec)
        pos = path_positions(spec, doc)
        if len(pos) > 9:
            continue
        docs, seen = [], set()
        for k in range(len(pos) + 1):
            for c in itertools.combinations(pos, k):
                d = delete(doc, frozenset(c))
                key = json.dumps(d)
                if key not in seen:
                    seen.add(key); docs.append(d)
        out.append({'spec': spec, 'docs': docs})
    return out


# --------------------------------------------------------------------------- run
def build_cases(ctx):
    r = ctx.sub_rng('classes')
    quick = ctx.tier == 'quick'
    n_small, n_big = (50, 10) if quick else (120, 24)
    n_rand = 200 if quick else 1000
    counter = [0]
    classes = []
    tries = 0
    while (sum(1 for c in classes if c['exhaustive']) < n_small or
           sum(1 for c in classes if not c['exhaustive']) < n_big) and tries < 5000:
        tries += 1
        depth = r.choice([0, 1, 1, 2, 2])
        spec = gen_class(r, depth, counter)
        if not any(f['init'] for f in spec['fields']):
            continue
        doc = gen_complete(r, spec)
        pos = positions(spec, doc)
        if len(pos) > 22 or len(pos) < 3:
            continue
        exhaustive = len(pos) <= 10
        if exhaustive and sum(1 for c in classes if c['exhaustive']) >= n_small:
            continue
        if not exhaustive and sum(1 for c in classes if not c['exhaustive']) >= n_big:
            continue
        if exhaustive:
            subsets = [frozenset(c) for k in range(len(pos) + 1) for c in itertools.combinations(pos, k)]
        else:
            subsets = [frozenset()] + [frozenset([p]) for p in pos]
            for _ in range(n_rand):
                k = r.choice([1, 2, 2, 3, 4, 6, len(pos) // 2, len(pos)])
                subsets.append(frozenset(r.sample(pos, min(k, len(pos)))))
        docs, seen = [], set()
        for s in subsets:
            d = delete(doc, s)
            key = json.dumps(d, sort_keys=False)
            if key not in seen:
                seen.add(key)
                docs.append(d)
        classes.append({'spec': spec, 'complete': doc, 'docs': docs, 'exhaustive': exhaustive,
                        'n_pos': len(pos), 'depth': depth})
    return classes


def spec_depth(spec):
    return 1 + max([spec_depth(f['cls']) for f in spec['fields'] if f['kind'] != 'leaf'] or [0])


ENTRIES = ['fromdict', 'fromdict', 'fromlist', 'from_dict', 'from_json']


def witness_state(impl_w):
    wp, wk, wr = impl_w
    return {
        'F42-path-default-shared': bool(wp.get('shared') or wp.get('leaked') or 'err' in wp.get('dataclass_default', {})),
        'F43-v1-kwonly-required-positional': ('ok' not in wk.get('v1_complete', {})),
        'F44-required-path-parse-error': (wr.get('v0', {}).get('err') != 'MissingFields' or wr.get('v1', {}).get('err') != 'MissingFields'),
    }


def run(ctx):
    classes = build_cases(ctx)
    pcases = build_path_cases(ctx)
    engines = ['v0', 'v1']
    re_ = ctx.sub_rng('entries')
    for c in classes:
        c['entry'] = {e: re_.choice(ENTRIES) for e in engines}
    payload = {'classes': [{'spec': c['spec'], 'engine': e, 'docs': c['docs'], 'entry': c['entry'][e],
                            'pre': base_preops(c['spec'], c['complete'], [])} for c in classes for e in engines],
               'pathclasses': [{'spec': c['spec'], 'engine': e, 'docs': c['docs']} for c in pcases for e in engines],
               'witness': [{'kind': 'path_factory'}, {'kind': 'v1_kwonly'}, {'kind': 'required_path'}]}
    impl = ctx.impl('c09', payload)

    # ---- known findings: replay the witnesses --------------------------------------
    state = witness_state(impl['witness'])
    resolved = set()
    for fid, still in state.items():
        if ctx.finding(fid):
            ctx.known_finding(fid, still_fails=still)
            ctx.count(1, key='witness:' + fid, nontrivial=True)
            if not still:
                resolved.add(fid)
    if impl['witness'][0].get('typed_shared'):
        ctx.violation('default engine: a List[int] path_field with default_factory=list shares ONE list between instances',
                      {'kind': 'path_factory'})

    # ---- model ------------------------------------------------------------------------
    kws = []
    for c in classes:
        kw_pairs(c['spec'], kws)
    prelude = (PRELUDE_HEAD +
               'Definition kwtab : list (pstr * pstr) := %s.\n' % coq_list(['(%s, %s)' % (coq_str(a), coq_str(b)) for a, b in kws]) +
               PRELUDE_TAIL +
               '\n'.join('Definition c%d : cls pstr pstr := %s.' % (i, coq_cls(c['spec'])) for i, c in enumerate(classes)))
    exprs = []
    for i, c in enumerate(classes):
        for e in engines:
            for d in c['docs']:
                exprs.append('run %s c%d %s' % ('V0' if e == 'v0' else 'V1', i, coq_doc(c['spec'], d)))
    model = None
    try:
        model = ctx.coq(exprs, ['FieldsMissing'], prelude=prelude)
    except Exception as ex:
        ctx.broken_tie('model evaluation failed: %s' % str(ex)[:500])

    # ---- compare ------------------------------------------------------------------------
    j = 0
    n_dis = 0
    idx = 0
    for i, c in enumerate(classes):
        ctx.hist('positions', c['n_pos'])
        ctx.hist('class_depth', spec_depth(c['spec']))
        ctx.hist('subsets', 'exhaustive' if c['exhaustive'] else 'random')
        ctx.hist('class_style', '%s%s%s%s' % ('kw_only_cls ' if c['spec']['kw_only_cls'] else '', 'frozen ' if c['spec']['frozen'] else '',
                                               'slots ' if c['spec']['slots'] else '', ('base+override' if any(b.get('overridden') for b in c['spec'].get('base_fields', [])) else 'base') if c['spec']['base_split'] else '') or 'plain')
        if c['spec'].get('base_first'):
            ctx.hist('history', 'base-class-used-first')
        for f in c['spec']['fields']:
            ctx.hist('field', '%s/%s/%s%s' % (f['kind'], f['dflt'], 'init' if f['init'] else 'noinit', '/kw_only' if f.get('kw_only') else ''))
        for e in engines:
            results = impl['classes'][idx]
            idx += 1
            ctx.hist('entry_point', c['entry'][e])
            for d, res in zip(c['docs'], results):
                key = 'c:%s|%s|%s' % (json.dumps(c['spec'], sort_keys=True), e, json.dumps(d))
                ctx.count(1, key=key, nontrivial=(d != c['complete']))
                ctx.hist('outcome', e + '/' + ('ok' if 'ok' in res else res.get('err', '?')))
                in43 = (e == 'v1' and bool(f43_positions(c['spec'], d, [])))
                bad = direct_predicate(c['spec'], d, res)
                if bad:
                    bare = (res.get('err') == 'TypeError' and '.__init__()' in (res.get('msg') or '')) or \
                           (res.get('err') == 'ParseError' and res.get('base') == 'TypeError' and '.__init__()' in (res.get('base_msg') or ''))
                    if in43 and ctx.is_open_region('F43-v1-kwonly-required-positional') and bare:
                        ctx.hist('known_region', 'F43-v1-kwonly-required-positional')
                    else:
                        ctx.violation('%s engine (%s), class %s, document %s: %s' % (e, c['entry'][e], c['spec']['name'], json.dumps(d)[:200], bad),
                                      {'kind': 'case', 'spec': c['spec'], 'engine': e, 'doc': d, 'entry': c['entry'][e],
                                       'pre': base_preops(c['spec'], c['complete'], [])})
                if model is not None and not (in43 and 'F43-v1-kwonly-required-positional' in resolved):
                    ctx.traces_validated += 1
                    if impl_show(res) != model[j]:
                        n_dis += 1
                        ctx.disagreements_checked += 1
                        if n_dis <= 5:
                            ctx.broken_tie('FieldsMissing model and implementation disagree (%s engine)' % e,
                                           {'spec': c['spec'], 'doc': d, 'engine': e, 'impl': impl_show(res), 'model': model[j]})
                j += 1

    # ---- key-path classes: direct predicates only (paths are outside the Coq model) -----------
    idx = 0
    for c in pcases:
        for f in c['spec']['fields']:
            ctx.hist('path_field', '%s/%s/%s%s' % ('path' if f['path'] else ('alias%d' % len(f['aliases']) if f['aliases'] else 'plain'),
                                                     f['ty'], f['dflt'], '' if f['init'] else '/noinit'))
        for e in engines:
            results = impl['pathclasses'][idx]
            idx += 1
            for d, res in zip(c['docs'], results):
                ctx.count(1, key='p:%s|%s|%s' % (json.dumps(c['spec'], sort_keys=True), e, json.dumps(d)), nontrivial=True)
                ctx.hist('path_outcome', e + '/' + ('ok' if 'ok' in res else res.get('err', '?')))
                bad = path_predicate(c['spec'], d, res)
                if bad:
                    reg = path_region(c['spec'], e, d)
                    if reg and ctx.is_open_region(reg):
                        ctx.hist('known_region', reg)
                    else:
                        ctx.violation('%s engine, key-path class %s, document %s: %s' % (e, c['spec']['name'], json.dumps(d)[:200], bad),
                                      {'kind': 'pathcase', 'spec': c['spec'], 'engine': e, 'doc': d})
    c0 = classes[0]
    ctx.sample({'class': c0['spec'], 'complete_document': c0['complete'], 'n_documents': len(c0['docs']),
                'one_subset': c0['docs'][len(c0['docs']) // 2], 'impl_outcome_v0': impl['classes'][0][len(c0['docs']) // 2]})
    big = next((c for c in classes if not c['exhaustive']), None)
    if big:
        k = classes.index(big)
        ctx.sample({'class_with_random_subsets': big['spec']['name'], 'positions': big['n_pos'], 'n_documents': len(big['docs']),
                    'one_subset': big['docs'][-1], 'impl_outcome_v1': impl['classes'][2 * k + 1][-1]})
    if pcases:
        ctx.sample({'key_path_class': pcases[0]['spec'], 'one_document': pcases[0]['docs'][-1], 'impl_outcome_v0': impl['pathclasses'][0][-1]})


def replay(ctx, obj):
    if obj.get('kind') == 'case':
        res = ctx.impl('c09', {'classes': [{'spec': obj['spec'], 'engine': obj['engine'], 'docs': [obj['doc']],
                                            'entry': obj.get('entry', 'fromdict'), 'pre': obj.get('pre', [])}]})['classes'][0][0]
        bad = direct_predicate(obj['spec'], obj['doc'], res)
        print('implementation outcome: %s' % json.dumps(res)[:600])
        print('property: %s' % (bad or 'holds'))
        return bad is None
    if obj.get('kind') == 'pathcase':
        res = ctx.impl('c09', {'pathclasses': [{'spec': obj['spec'], 'engine': obj['engine'], 'docs': [obj['doc']]}]})['pathclasses'][0][0]
        bad = path_predicate(obj['spec'], obj['doc'], res)
        print('implementation outcome: %s' % json.dumps(res)[:600])
        print('property: %s' % (bad or 'holds'))
        return bad is None
    fid = obj.get('finding') or ''
    if obj.get('kind') in ('path_factory', 'v1_kwonly', 'required_path') or fid[:3] in ('F42', 'F43', 'F44'):
        w = ctx.impl('c09', {'witness': [{'kind': 'path_factory'}, {'kind': 'v1_kwonly'}, {'kind': 'required_path'}]})['witness']
        state = witness_state(w)
        print('witness outcomes: %s' % json.dumps(w)[:900])
        if obj.get('kind') == 'path_factory':
            return not (state['F42-path-default-shared'] or w[0].get('typed_shared'))
        key = {'v1_kwonly': 'F43', 'required_path': 'F44'}.get(obj.get('kind'), fid[:3])
        return not next(v for k, v in state.items() if k.startswith(key))
    print('replay object names a broken tie, not an input: %s' % json.dumps(obj)[:1000])
    return False
