"""C09 — absent keys: defaults for optional fields, else one exact MissingFields error.

Theorems: coq/props/C09.v (model coq/model/FieldsMissing.v).  Correspondence: for every
generated class tree (required / default / default_factory / init=False fields, nested
dataclasses, lists of dataclasses, Optional nested with default None), the complete
document and ALL its key-position subsets when there are <= 10 positions (random subsets
above), both engines: model outcome == implementation outcome (instance tree or
MissingFields class / provided / missing lists).  Direct predicates on the implementation
for every case, from an independent Python reference written from the property text.
"""
import itertools, json, keyword
from lib.coqrun import coq_str, coq_list

META = {
    'id': 'C09',
    'title': 'Absent keys: defaults for optional fields, else one exact MissingFields error',
    'level': 'proof',
    'technique': 'Coq proof (induction over the class tree, loop invariants for both engines, refinement to a declarative '
                 'specification) on a hand-written Gallina model + differential correspondence with the implementation',
    'design_ref': 'DESIGN.md section 4 C09',
    'theorems': ['C09_subset', 'C09_refines', 'C09_ok_iff', 'C09_error_exact', 'C09_subset_top', 'C09_factory_fresh'],
    'tables': [],
    'level_text': ('Theorems proved in Coq for ALL class trees (any mix of required/default/default_factory/init=False fields, '
                   'nested dataclasses and lists of dataclasses, any depth) and ALL deletion subsets of a complete document at any '
                   'depth (no bound on the number of keys), for both engines, about an executable model of the generated '
                   'cls_fromdict tail, the dataclass __init__, MissingFields.__init__ and v1 raise_missing_fields; the model is '
                   're-validated against the implementation on every run (exhaustive subsets up to 10 key positions per class).'),
    'level_note': ('Trusted: Coq kernel + vm_compute; the hand-written model; the correspondence harness. Per-field leaf '
                   'conversion is a Section variable (conv); key spelling is out of scope (keys are the field names; C08/C10). '
                   'Python dict/dataclasses semantics are modelled, exercised by the correspondence, not proved.'),
    'rule': ('classes: random trees of depth <= 2 with 1-5 fields per class, 3-22 key positions (required first, then default / default_factory, '
             'init=False anywhere; kinds leaf int/str/List[int], nested dataclass, List[dataclass] with 0-2 elements, Optional nested '
             'default None, nested default_factory); documents: the complete document and every subset of its key positions when '
             '<= 10 positions (exhaustive), else 200 (quick) / 1000 (thorough) random subsets, deduplicated by resulting document; '
             'both engines.  Non-trivial = at least one key deleted; distinct = distinct (class, engine, document).'),
    'trusted_base': ['model coq/model/FieldsMissing.v transcribes loaders.py cls_fromdict tail, errors.py MissingFields.__init__, '
                     'v1/loaders.py field loop + check_and_raise_missing_fields and dataclasses.__init__ (validated by correspondence)'],
    'assumptions': ['keys of the document are the field names (no aliases / key-case transforms / JSON paths: see finding F42 for paths)',
                    'no recursive classes; field names pairwise distinct (wf_cls); unique class names'],
}

RESERVED = {'o', 'cls', 'field', 'fields', 'i', 'e', 'v1', 'tp', 'result', 'config', 'hooks', 'exclude', 'self', 'k', 'v'}
LETTERS = 'abcdefghjmnpqrstuwxyz'


# --------------------------------------------------------------------------- generation
def gen_name(r, used):
    while True:
        n = r.choice(LETTERS) + ''.join(r.choice(LETTERS + '_0123456789') for _ in range(r.choice([0, 1, 2, 4])))
        n = n.rstrip('_') or 'a'
        if n not in used and n not in RESERVED and not keyword.iskeyword(n) and '__' not in n:
            used.add(n)
            return n


def gen_class(r, depth, counter, max_fields=5):
    counter[0] += 1
    name = 'K%d' % counter[0]
    used = set()
    nf = r.randint(1, max_fields)
    fields = []
    for _ in range(nf):
        kind = 'leaf'
        if depth > 0:
            kind = r.choice(['leaf', 'leaf', 'leaf', 'nested', 'list'])
        dflt = r.choice(['req', 'req', 'def', 'fac'])
        init = r.random() > 0.15
        f = {'name': gen_name(r, used), 'kind': kind, 'init': init, 'dflt': dflt, 'fid': 0}
        if kind == 'leaf':
            f['ty'] = r.choice(['int', 'int', 'str', 'ints'])
            if dflt == 'def':
                if f['ty'] == 'ints':
                    f['ty'] = 'int'
                f['default'] = r.randint(0, 99) if f['ty'] == 'int' else r.choice(['', 'dv', 'x y'])
            elif dflt == 'fac':
                f['ty'] = 'ints'; f['fac'] = 'list'; f['fid'] = 1
        else:
            f['cls'] = gen_class(r, depth - 1, counter, max_fields=3)
            if dflt == 'def':
                if kind == 'nested':
                    f['default'] = None
                else:
                    f['dflt'] = 'fac'; f['fac'] = 'list'; f['fid'] = 1
            elif dflt == 'fac':
                if kind == 'nested':
                    f['fac'] = 'inst'; f['fid'] = 2
                else:
                    f['fac'] = 'list'; f['fid'] = 1
        fields.append(f)
    # dataclass rule: among init fields, required ones come first
    req = [f for f in fields if f['init'] and f['dflt'] == 'req']
    opt = [f for f in fields if f['init'] and f['dflt'] != 'req']
    noinit = [f for f in fields if not f['init']]
    ordered = req + opt
    for f in noinit:
        ordered.insert(r.randint(0, len(ordered)), f)
    return {'name': name, 'fields': ordered}


def gen_leaf_value(r, ty):
    if ty == 'int':
        return r.randint(0, 999)
    if ty == 'str':
        return r.choice(['', 'a', 'hello', 'x_y', 'Z9'])
    return [r.randint(0, 9) for _ in range(r.choice([0, 1, 3]))]


def gen_complete(r, spec):
    doc = {}
    for f in spec['fields']:
        if not f['init']:
            continue
        if f['kind'] == 'leaf':
            doc[f['name']] = gen_leaf_value(r, f['ty'])
        elif f['kind'] == 'nested':
            doc[f['name']] = gen_complete(r, f['cls'])
        else:
            doc[f['name']] = [gen_complete(r, f['cls']) for _ in range(r.choice([0, 1, 1, 2]))]
    # document order need not be declaration order
    if r.random() < 0.4:
        ks = list(doc)
        r.shuffle(ks)
        doc = {k: doc[k] for k in ks}
    return doc


def positions(spec, doc, prefix=()):
    out = []
    for f in spec['fields']:
        if not f['init'] or f['name'] not in doc:
            continue
        p = prefix + (f['name'],)
        out.append(p)
        if f['kind'] == 'nested':
            out.extend(positions(f['cls'], doc[f['name']], p))
        elif f['kind'] == 'list':
            for i, d in enumerate(doc[f['name']]):
                out.extend(positions(f['cls'], d, p + (i,)))
    return out


def delete(doc, paths):
    """copy of doc without the key positions in `paths`"""
    def go(d, prefix):
        if isinstance(d, dict):
            return {k: go(v, prefix + (k,)) for k, v in d.items() if prefix + (k,) not in paths}
        if isinstance(d, list):
            return [go(x, prefix + (i,)) for i, x in enumerate(d)]
        return d
    return go(doc, ())


# --------------------------------------------------------------------------- reference
def enc_leaf(v):
    if v is None:
        return 'n'
    if isinstance(v, bool):
        return 'b%d' % v
    if isinstance(v, int):
        return 'i%d' % v if v >= 0 else 'im%d' % -v
    if isinstance(v, str):
        return 's' + v.encode().hex()
    return 'l' + 'x'.join(str(x) for x in v)


def ref_failures(spec, doc, acc):
    """every dataclass position with omitted required init fields: (class name, [fields in declaration order])"""
    miss = [f['name'] for f in spec['fields'] if f['init'] and f['dflt'] == 'req' and f['name'] not in doc]
    if miss:
        acc.append((spec['name'], miss))
    for f in spec['fields']:
        if f['init'] and f['name'] in doc:
            if f['kind'] == 'nested':
                ref_failures(f['cls'], doc[f['name']], acc)
            elif f['kind'] == 'list':
                for d in doc[f['name']]:
                    ref_failures(f['cls'], d, acc)
    return acc


def ref_tree(spec, doc):
    parts = []
    for f in spec['fields']:
        nm = f['name']
        if f['init'] and nm in doc:
            if f['kind'] == 'leaf':
                s = 'V' + enc_leaf(doc[nm])
            elif f['kind'] == 'nested':
                s = ref_tree(f['cls'], doc[nm])
            else:
                s = 'L[' + ','.join(ref_tree(f['cls'], d) for d in doc[nm]) + ']'
        elif f['dflt'] == 'def':
            s = 'V' + enc_leaf(f['default'])
        elif f['dflt'] == 'fac':
            s = 'F%d' % f['fid']
        else:
            continue          # init=False without default: attribute stays unset
        parts.append('%s=%s' % (nm, s))
    return 'I(%s:%s)' % (spec['name'], ','.join(parts))


def n_factory_omitted(spec, doc):
    n = 0
    for f in spec['fields']:
        if f['init'] and f['name'] in doc:
            if f['kind'] == 'nested':
                n += n_factory_omitted(f['cls'], doc[f['name']])
            elif f['kind'] == 'list':
                n += sum(n_factory_omitted(f['cls'], d) for d in doc[f['name']])
        elif f['dflt'] == 'fac':
            n += 1
    return n


def direct_predicate(spec, doc, res):
    """None when the property holds on the implementation's outcome, else a description"""
    fails = ref_failures(spec, doc, [])
    if not res.get('input_unchanged', True):
        return 'the input document was mutated'
    if not fails:
        if 'ok' not in res:
            return 'no required field omitted but the load raised %s: %s' % (res.get('err'), res.get('msg'))
        exp = ref_tree(spec, doc)
        if res['ok'] != exp:
            return 'loaded %s, expected %s' % (res['ok'], exp)
        if not res.get('fresh', False):
            return 'default_factory products are shared between instances (or with the cached default)'
        if res.get('n_products') != n_factory_omitted(spec, doc):
            return 'expected %d default_factory products, found %d' % (n_factory_omitted(spec, doc), res.get('n_products'))
    else:
        if 'ok' in res:
            return 'required field(s) omitted %r but the load succeeded' % (fails,)
        if res.get('err') != 'MissingFields':
            return 'required field(s) omitted %r but %s was raised: %s' % (fails, res.get('err'), res.get('msg'))
        if not res.get('renders'):
            return 'MissingFields message cannot be rendered (%s)' % res.get('render_err')
        got = (res.get('class_name'), res.get('missing_fields'))
        if got not in fails:
            return 'MissingFields(%s, %r) is not the omitted required fields of any position %r' % (got[0], got[1], fails)
    if res.get('repeat_same') is False:
        return 'the second identical load gave a different outcome'
    return None


# --------------------------------------------------------------------------- Coq terms
def coq_id(s):
    return coq_str(s)


def coq_cls(spec):
    fs = []
    for f in spec['fields']:
        if f['dflt'] == 'req':
            d = 'Required'
        elif f['dflt'] == 'def':
            d = '(Default %s)' % coq_str(enc_leaf(f['default']))
        else:
            d = '(Factory %d%%N)' % f['fid']
        if f['kind'] == 'leaf':
            k = '(KLeaf %s)' % coq_str(f['ty'])
        elif f['kind'] == 'nested':
            k = '(KNested %s)' % coq_cls(f['cls'])
        else:
            k = '(KList %s)' % coq_cls(f['cls'])
        fs.append('FD %s %s %s %s' % (coq_str(f['name']), d, 'true' if f['init'] else 'false', k))
    return '(Cls %s %s)' % (coq_str(spec['name']), coq_list(fs))


def coq_doc(spec, doc):
    items = []
    kinds = {f['name']: f for f in spec['fields']}
    for k, v in doc.items():
        f = kinds[k]
        if f['kind'] == 'leaf':
            t = '(JAtom %s)' % coq_str(enc_leaf(v))
        elif f['kind'] == 'nested':
            t = coq_doc(f['cls'], v)
        else:
            t = '(JList %s)' % coq_list([coq_doc(f['cls'], d) for d in v])
        items.append('(%s, %s)' % (coq_str(k), t))
    return '(JDict %s)' % coq_list(items)


PRELUDE_HEAD = '''
Definition xconv (t r : pstr) : option pstr := Some r.
Definition digit (n : N) : pstr := [ch (48 + n)].
Fixpoint show_pv (v : pv pstr) : pstr :=
  match v with
  | PVal x => S "V" ++ x
  | PFac fid _ => S "F" ++ digit fid
  | PInst cn attrs =>
      S "I(" ++ cn ++ S ":" ++
      join (S ",") ((fix go (l : list (pstr * pv pstr)) : list pstr :=
                       match l with [] => [] | (k, x) :: r => (k ++ S "=" ++ show_pv x) :: go r end) attrs)
      ++ S ")"
  | PList l =>
      S "L[" ++ join (S ",") ((fix go (l : list (pv pstr)) : list pstr :=
                                 match l with [] => [] | x :: r => show_pv x :: go r end) l) ++ S "]"
  end.
Definition show_err (e : err) : pstr :=
  match e with
  | EMissingFields cn p m => S "E:" ++ cn ++ S ":" ++ join (S ",") p ++ S ":" ++ join (S ",") m
  | EParse cn fn => S "P:" ++ cn ++ S ":" ++ fn
  | EShape cn => S "S:" ++ cn
  end.
Definition run (e : engine) (c : cls pstr pstr) (d : jv pstr) : pstr :=
  match fst (load xconv e c d 0%N) with Ok v => show_pv v | Err er => show_err er end.
'''


def impl_show(res):
    if 'ok' in res:
        return res['ok']
    if res.get('err') == 'MissingFields' and isinstance(res.get('provided'), list):
        return 'E:%s:%s:%s' % (res.get('class_name'), ','.join(res['provided']), ','.join(res.get('missing_fields') or []))
    return 'X:%s' % res.get('err')


# --------------------------------------------------------------------------- run
def build_cases(ctx):
    r = ctx.sub_rng('classes')
    quick = ctx.tier == 'quick'
    n_small, n_big = (50, 10) if quick else (120, 24)
    n_rand = 200 if quick else 1000
    counter = [0]
    classes = []
    tries = 0
    while (sum(1 for c in classes if c['exhaustive']) < n_small or
           sum(1 for c in classes if not c['exhaustive']) < n_big) and tries < 5000:
        tries += 1
        depth = r.choice([0, 1, 1, 2, 2])
        spec = gen_class(r, depth, counter)
        if not any(f['init'] for f in spec['fields']):
            continue
        doc = gen_complete(r, spec)
        pos = positions(spec, doc)
        if len(pos) > 22 or len(pos) < 3:
            continue
        exhaustive = len(pos) <= 10
        if exhaustive and sum(1 for c in classes if c['exhaustive']) >= n_small:
            continue
        if not exhaustive and sum(1 for c in classes if not c['exhaustive']) >= n_big:
            continue
        if exhaustive:
            subsets = [frozenset(c) for k in range(len(pos) + 1) for c in itertools.combinations(pos, k)]
        else:
            subsets = [frozenset()] + [frozenset([p]) for p in pos]
            for _ in range(n_rand):
                k = r.choice([1, 2, 2, 3, 4, 6, len(pos) // 2, len(pos)])
                subsets.append(frozenset(r.sample(pos, min(k, len(pos)))))
        docs, seen = [], set()
        for s in subsets:
            d = delete(doc, s)
            key = json.dumps(d, sort_keys=False)
            if key not in seen:
                seen.add(key)
                docs.append(d)
        classes.append({'spec': spec, 'complete': doc, 'docs': docs, 'exhaustive': exhaustive,
                        'n_pos': len(pos), 'depth': depth})
    return classes


def spec_depth(spec):
    return 1 + max([spec_depth(f['cls']) for f in spec['fields'] if f['kind'] != 'leaf'] or [0])


def run(ctx):
    classes = build_cases(ctx)
    engines = ['v0', 'v1']
    payload = {'classes': [{'spec': c['spec'], 'engine': e, 'docs': c['docs']} for c in classes for e in engines],
               'witness': [{'kind': 'path_factory'}]}
    impl = ctx.impl('c09', payload)

    # ---- known findings: replay the witnesses --------------------------------------
    w = impl['witness'][0]
    if ctx.finding('F42-path-default-shared'):
        still = bool(w.get('shared') or w.get('leaked') or 'err' in w.get('dataclass_default', {}))
        ctx.known_finding('F42-path-default-shared', still_fails=still)
        ctx.count(1, key='witness:F42', nontrivial=True)

    # ---- model ------------------------------------------------------------------------
    prelude = PRELUDE_HEAD + '\n'.join('Definition c%d : cls pstr pstr := %s.' % (i, coq_cls(c['spec']))
                                        for i, c in enumerate(classes))
    exprs = []
    for i, c in enumerate(classes):
        for e in engines:
            for d in c['docs']:
                exprs.append('run %s c%d %s' % ('V0' if e == 'v0' else 'V1', i, coq_doc(c['spec'], d)))
    model = None
    try:
        model = ctx.coq(exprs, ['FieldsMissing'], prelude=prelude)
    except Exception as ex:
        ctx.broken_tie('model evaluation failed: %s' % str(ex)[:500])

    # ---- compare ------------------------------------------------------------------------
    j = 0
    n_dis = 0
    idx = 0
    for i, c in enumerate(classes):
        ctx.hist('positions', c['n_pos'])
        ctx.hist('class_depth', spec_depth(c['spec']))
        ctx.hist('subsets', 'exhaustive' if c['exhaustive'] else 'random')
        for f in c['spec']['fields']:
            ctx.hist('field', '%s/%s/%s' % (f['kind'], f['dflt'], 'init' if f['init'] else 'noinit'))
        for e in engines:
            results = impl['classes'][idx]
            idx += 1
            for d, res in zip(c['docs'], results):
                key = 'c:%s|%s|%s' % (json.dumps(c['spec'], sort_keys=True), e, json.dumps(d))
                ctx.count(1, key=key, nontrivial=(d != c['complete']))
                ctx.hist('outcome', e + '/' + ('ok' if 'ok' in res else res.get('err', '?')))
                bad = direct_predicate(c['spec'], d, res)
                if bad:
                    ctx.violation('%s engine, class %s, document %s: %s' % (e, c['spec']['name'], json.dumps(d)[:200], bad),
                                  {'kind': 'case', 'spec': c['spec'], 'engine': e, 'doc': d})
                if model is not None:
                    ctx.traces_validated += 1
                    if impl_show(res) != model[j]:
                        n_dis += 1
                        ctx.disagreements_checked += 1
                        if n_dis <= 5:
                            ctx.broken_tie('FieldsMissing model and implementation disagree (%s engine)' % e,
                                           {'spec': c['spec'], 'doc': d, 'engine': e, 'impl': impl_show(res), 'model': model[j]})
                j += 1
    c0 = classes[0]
    ctx.sample({'class': c0['spec'], 'complete_document': c0['complete'], 'n_documents': len(c0['docs']),
                'one_subset': c0['docs'][len(c0['docs']) // 2], 'impl_outcome_v0': impl['classes'][0][len(c0['docs']) // 2]})
    big = next((c for c in classes if not c['exhaustive']), None)
    if big:
        k = classes.index(big)
        ctx.sample({'class_with_random_subsets': big['spec']['name'], 'positions': big['n_pos'], 'n_documents': len(big['docs']),
                    'one_subset': big['docs'][-1], 'impl_outcome_v1': impl['classes'][2 * k + 1][-1]})


def replay(ctx, obj):
    if obj.get('kind') == 'case':
        res = ctx.impl('c09', {'classes': [{'spec': obj['spec'], 'engine': obj['engine'], 'docs': [obj['doc']]}]})['classes'][0][0]
        bad = direct_predicate(obj['spec'], obj['doc'], res)
        print('implementation outcome: %s' % json.dumps(res)[:600])
        print('property: %s' % (bad or 'holds'))
        return bad is None
    if obj.get('kind') == 'path_factory' or obj.get('finding') == 'F42-path-default-shared':
        w = ctx.impl('c09', {'witness': [{'kind': 'path_factory'}]})['witness'][0]
        print('witness outcome: %s' % json.dumps(w)[:600])
        return not (w.get('shared') or w.get('leaked') or 'err' in w.get('dataclass_default', {}))
    print('replay object names a broken tie, not an input: %s' % json.dumps(obj)[:1000])
    return False
