"""C12 — Meta cascades to nested classes with documented priority unless recursive=False.

Theorems: coq/props/C12.v (model coq/model/MetaMerge.v).  Every configuration is
run in its own fresh interpreter (harness/impl/c12.py -> c12_one.py).  Expected
behaviour of the nested part is computed by an independent Python `effective`
(transcribed from the property text) and small reference dump/load semantics;
the Coq model's behaviour vector is compared with the behaviour observed on the
implementation (correspondence), and the direct predicate (observed nested
behaviour == behaviour under effective) is evaluated on every configuration.
"""
import json, itertools
from lib.coqrun import coq_str, coq_list

META = {
    'id': 'C12',
    'title': 'Meta cascades to nested classes with documented priority unless recursive=False',
    'level': 'proof',
    'technique': 'Coq proof (merge algebra over the regenerated settings table; induction over the nesting shape) on a hand-written '
                 'Gallina model of bases.py __or__/__and__, bind_to and the config propagation + per-configuration differential '
                 'correspondence with the implementation in fresh interpreters',
    'design_ref': 'DESIGN.md section 4 C12',
    'theorems': ['C12_tables', 'C12_or_left_wins', 'C12_or_fallback', 'C12_or_special', 'C12_or_special_not_inherited',
                 'C12_or_abstract_left', 'C12_and_overlay', 'C12_effective_nonrecursive', 'C12_effective_get',
                 'C12_cascade', 'C12_cascade_complete', 'C12_behaviour', 'C12_auto_tags_partial', 'C12_auto_tags_refuted',
                 'C12_engines_agree', 'C12_history_fresh', 'C12_history_independent', 'C12_history_refuted', 'C12_auto_tags_byvalue_partial'],
    'tables': ['MetaFields'],
    'level_text': ('Theorems proved in Coq for ALL Meta contents (any values, any subset of the settings table regenerated from '
                   'AbstractMeta), ALL nesting shapes (Optional, list, dict value, tuple, Union, intermediate dataclasses with their own '
                   'Meta, any depth) and the three engines: the meta a nested class is generated under is effective(own, root), and the '
                   'observable behaviour derived from it by bind_to equals the behaviour of a stand-alone class with Meta = effective. '
                   'One component is refuted: auto_assign_tags is read from the root config instead of the merged Meta (finding '
                   'F22, open), proved only outside that region. The model is re-validated against the implementation on every run.'),
    'level_note': ('Trusted: Coq kernel + vm_compute; the hand-written model coq/model/MetaMerge.v (class __dict__ as association list, '
                   'getattr = own entry else AbstractMeta default; no user-defined intermediate Meta base classes, no global Meta); the '
                   'harness. Global-table leaks across configurations (F10/F11) belong to C07: every configuration runs in a fresh interpreter.'),
    'rule': ('configurations = pairwise covering array (greedy, seeded) over factors: per mergeable setting the pair (root value, nested value) '
             'in {unset,A,B}^2, root recursive in {unset,True,False}, nested recursive, tags, explicit key maps, presence of a Meta at all, '
             'binding style (inner Meta class / LoadMeta-DumpMeta), CatchAll, probe kind (basic / Union-of-dataclasses field), nesting shape '
             '(12 fixed + random compositions up to depth 4 incl. intermediate classes with own Meta), earlier use of the nested class (none / dumped alone / '
             'loaded alone / under another root with no, opposite or same Meta, dumped or loaded), document type (dict / OrderedDict / defaultdict / subclass), '
             'root Meta bound in one step / split in two with a use of the other engine in between, dump-side by-value shapes (list / Any / Dict[str, Any]), '
             'per engine (default load, dump, v1 load); '
             'thorough adds the full product shape x recursive on sampled rows. distinct = distinct configuration JSON; non-trivial = root has a '
             'Meta and at least one observed setting is set on root or nested.'),
    'trusted_base': ['model coq/model/MetaMerge.v: Meta class = association list of its own __dict__ settings; getattr falls back to the '
                     'AbstractMeta defaults table (validated by the correspondence run)'],
    'assumptions': ['one interpreter per configuration; earlier uses of the nested class inside it are a generated dimension (history)',
                    'Meta classes are direct subclasses of JSONWizard.Meta or LoadMeta/DumpMeta results (settings live in the class own __dict__); no global (outer) Meta',
                    'Union shape: the nested member carries its own tag and does not set a tag_key different from the one the containing Union reads (C13 domain)',
                    'debug_enabled / v1_debug / recursive_classes / v1_unsafe_parse_dataclass_in_union are merged by the proved algebra but not observed end-to-end'],
}

# --------------------------------------------------------------------------------------
# independent reference, transcribed from the property text
MERGEABLE = {  # "key transforms, date/time marshalling, skip rules, unknown-key policy, tag key, auto tags, debug"
    'key_transform_with_load', 'key_transform_with_dump', 'v1_key_case', 'marshal_date_time_as',
    'skip_defaults', 'skip_if', 'skip_defaults_if', 'raise_on_unknown_json_key', 'v1_on_unknown_key',
    'tag_key', 'auto_assign_tags', 'debug_enabled', 'v1_debug', 'v1',
}
NEVER_INHERITED = {'tag', 'recursive', 'json_key_to_field', 'v1_field_to_alias'}
DEFAULT_TAG_KEY = '__tag__'


def effective(nested, root):
    """Meta the nested class behaves under (dict of the settings that are set)."""
    own = dict(nested or {})
    if root is None or root.get('recursive', True) is False:
        return own
    eff = {k: v for k, v in root.items() if k in MERGEABLE}
    eff.update(own)
    return eff


def camel(n):
    ws = n.split('_')
    return ws[0] + ''.join(w[:1].upper() + w[1:] for w in ws[1:])


def pascal(n):
    return ''.join(w[:1].upper() + w[1:] for w in n.split('_'))


def dump_key(name, tr):
    return {None: camel, 'CAMEL': camel, 'SNAKE': lambda s: s, 'PASCAL': pascal, 'LISP': lambda s: s.replace('_', '-'),
            'NONE': lambda s: s}[tr](name)


def cond_holds(c, v):
    return {'EQ': v == c['val'], 'NE': v != c['val']}[c['cond']]


WHEN_ISO, WHEN_TS = '2021-05-06T07:08:09Z', 1620284889
N_FIELDS = [('my_val', 7, 0), ('when', 'WHEN', 'WHEN0'), ('dflt', 5, 5), ('a3', 3, 1), ('b4', 4, 1)]
R_FIELDS = [('my_val', 7, 0), ('when', 'WHEN', 'WHEN0'), ('dflt', 5, 5)]


def tag_key_of(e):
    return e.get('tag_key') or DEFAULT_TAG_KEY


def ref_dump(e, fields, catchall=False, union=None):
    """Expected dump of an instance (list of (key, canonical value)) of a class behaving under Meta e."""
    tr = e.get('key_transform_with_dump')
    sd_active = bool(e.get('skip_defaults')) or e.get('skip_defaults_if') is not None
    out = []
    for name, val, dflt in fields:
        skip = False
        if sd_active:
            skip = cond_holds(e['skip_defaults_if'], val) if e.get('skip_defaults_if') is not None else (val == dflt)
        if not skip and e.get('skip_if') is not None:
            skip = cond_holds(e['skip_if'], val)
        if skip:
            continue
        if val == 'WHEN':
            cv = {'int': str(WHEN_TS)} if e.get('marshal_date_time_as') == 'TIMESTAMP' else {'str': WHEN_ISO}
        else:
            cv = {'int': str(val)}
        out.append((dump_key(name, tr), cv))
    if catchall:
        out.append(('zzz', {'int': '1'}))
    if union is not None:
        out.append((dump_key('u', tr), union))
    if e.get('tag'):
        out.append((tag_key_of(e), {'str': e['tag']}))
    return out


def ref_load(e, doc, engine, catchall):
    """Expected outcome of loading `doc` into N behaving under Meta e:
    ('ok', my_val, captured dict) or ('err', 'UnknownKeysError')."""
    my_val, captured = 0, {}
    for k, v in doc.items():
        if k == 'u':
            continue
        field = None
        if engine == 'load':
            km = e.get('json_key_to_field') or {}
            if k == 'my_val' or km.get(k) == 'my_val':
                field = 'my_val'
            elif e.get('key_transform_with_load') in (None, 'SNAKE') and k in ('myVal', 'MyVal', 'my-val'):
                field = 'my_val'
        else:
            fa = (e.get('v1_field_to_alias') or {}).get('my_val')
            kc = e.get('v1_key_case')
            want = fa if fa is not None else {None: 'my_val', 'SNAKE': 'my_val', 'CAMEL': 'myVal', 'PASCAL': 'MyVal', 'KEBAB': 'my-val'}[kc]
            if k == want:
                field = 'my_val'
        if field:
            my_val = v
            continue
        if e.get('tag') and k == tag_key_of(e):
            continue
        if k in e.get('_whitelist', ()):
            # (leak-aware prediction only) a tag key whitelisted by an earlier default-engine load of the class:
            # never reported as unknown, but a CatchAll field takes it
            if catchall:
                captured[k] = v
            continue
        unknown_raises = bool(e.get('raise_on_unknown_json_key')) if engine == 'load' else e.get('v1_on_unknown_key') == 'RAISE'
        if catchall and engine == 'v1load':
            captured[k] = v          # v1: a CatchAll field takes unknown keys before the unknown-key policy is consulted (C10)
        elif unknown_raises:
            return ('err', 'UnknownKeysError')
        elif catchall:
            captured[k] = v
    return ('ok', my_val, captured)


# --------------------------------------------------------------------------------------
# configuration generator
EQ3, EQ4 = {'cond': 'EQ', 'val': 3}, {'cond': 'EQ', 'val': 4}
ENGINE_SETTINGS = {
    'dump': {'key_transform_with_dump': ['SNAKE', 'PASCAL'], 'marshal_date_time_as': ['ISO_FORMAT', 'TIMESTAMP'],
             'skip_defaults': [True, False], 'skip_if': [EQ3, EQ4], 'skip_defaults_if': [EQ3, EQ4],
             'tag_key': ['kA', 'kB'], 'auto_assign_tags': [True, False]},
    'load': {'key_transform_with_load': ['SNAKE', 'NONE'], 'raise_on_unknown_json_key': [True, False],
             'tag_key': ['kA', 'kB'], 'auto_assign_tags': [True, False]},
    'v1load': {'v1_key_case': ['CAMEL', 'KEBAB'], 'v1_on_unknown_key': ['RAISE', 'IGNORE'],
               'tag_key': ['kA', 'kB'], 'auto_assign_tags': [True, False]},
}
FIXED_SHAPES = [[], ['opt'], ['list'], ['dict'], ['tuple'], ['vtuple'], ['union'], ['mid'],
                ['list', 'opt'], ['dict', 'list'], ['mid', 'list'], ['opt', 'mid', 'dict']]
SHAPE_ATOMS = ['opt', 'list', 'dict', 'tuple', 'vtuple', 'union', 'mid']


def normal_shape(sh):
    """drop compositions the typing module collapses (Optional[Optional], Union in Union/Optional)."""
    out = []
    for i, h in enumerate(sh):
        if h == 'union' and i != len(sh) - 1:
            continue        # a Union member that is a container type only accepts that exact Python type (no JSON lists)
        if out and h in ('opt', 'union') and out[-1] in ('opt', 'union'):
            continue
        out.append(h)
    return out


BY_VALUE = ['anylist', 'any', 'anydict']      # dump side only: annotation `list` / `Any` / `Dict[str, Any]`


def factors(engine, rng, n_random_shapes):
    shapes = [list(s) for s in FIXED_SHAPES]
    atoms = SHAPE_ATOMS
    if engine == 'dump':
        shapes += [['anylist'], ['any'], ['anydict'], ['anylist', 'mid'], ['mid', 'anydict'], ['list', 'any']]
        atoms = SHAPE_ATOMS + BY_VALUE
    n_fixed = len(shapes)
    while len(shapes) < n_fixed + n_random_shapes:
        sh = normal_shape([rng.choice(atoms) for _ in range(rng.choice([2, 3, 3, 4]))])
        if sh not in shapes:
            shapes.append(sh)
    f = {}
    for s in ENGINE_SETTINGS[engine]:
        f['s:' + s] = [(a, b) for a in (0, 1, 2) for b in (0, 1, 2)]      # (root level, nested level)
    f['recursive'] = ['unset', True, False]
    f['nested_recursive'] = ['unset', False]
    f['tag'] = [(a, b) for a in (0, 1) for b in (0, 1)]                   # (root tag, nested tag)
    f['keymap'] = [(a, b) for a in (0, 1) for b in (0, 1)]
    f['bare'] = ['none', 'none', 'none', 'root', 'nested', 'both']             # a class without any Meta (get_meta -> AbstractMeta)
    f['style'] = ['inner', 'func']
    f['catchall'] = [False, True]
    f['probe'] = ['basic', 'basic', 'union']
    f['mid'] = [0, 1]
    f['history'] = ['none', 'none', 'nested_dump', 'nested_load', 'other_root_dump', 'other_root_load']
    f['other'] = ['nometa', 'opposite', 'same']
    f['doc_type'] = ['dict', 'OrderedDict', 'defaultdict', 'subclass']
    f['root_steps'] = [0, 0, 1, 2]            # root Meta bound in one step / split in two with a use of the other engine in between
    f['shape'] = list(range(len(shapes)))
    return f, shapes


def pairwise_rows(f, rng, extra_random=0):
    """Greedy pairwise covering array over the factor dict f (name -> levels)."""
    names = sorted(f)
    idx = {n: range(len(f[n])) for n in names}
    uncovered = set()
    for a, b in itertools.combinations(names, 2):
        for x in idx[a]:
            for y in idx[b]:
                uncovered.add((a, x, b, y))
    rows = []

    def pairs(row):
        return [(a, row[a], b, row[b]) for a, b in itertools.combinations(names, 2)]
    while uncovered:
        best, best_n = None, -1
        seed_pair = next(iter(uncovered)) if len(uncovered) < 200 else None
        for _ in range(30):
            row = {n: rng.randrange(len(f[n])) for n in names}
            if seed_pair:
                row[seed_pair[0]], row[seed_pair[2]] = seed_pair[1], seed_pair[3]
            c = sum(1 for p in pairs(row) if p in uncovered)
            if c > best_n:
                best, best_n = row, c
        for p in pairs(best):
            uncovered.discard(p)
        rows.append(best)
    for _ in range(extra_random):
        rows.append({n: rng.randrange(len(f[n])) for n in names})
    return rows


def mk_config(engine, f, shapes, row, rng, bvals):
    """Turn a row of level indices into a configuration (JSON) for harness/impl/c12_one.py."""
    lv = {n: f[n][row[n]] for n in row}
    root, nested = {}, {}
    for s, vals in ENGINE_SETTINGS[engine].items():
        a, b = lv['s:' + s]
        vals = bvals.get(s, vals)
        if a:
            root[s] = vals[a - 1]
        if b:
            nested[s] = vals[b - 1]
    if lv['recursive'] != 'unset':
        root['recursive'] = lv['recursive']
    if lv['nested_recursive'] != 'unset':
        nested['recursive'] = False
    if lv['tag'][0]:
        root['tag'] = 'RT'
    if lv['tag'][1]:
        nested['tag'] = 'NT'
    if engine == 'load':
        if lv['keymap'][0]:
            root['json_key_to_field'] = {'zk': 'my_val'}
        if lv['keymap'][1]:
            nested['json_key_to_field'] = {'nk': 'my_val'}
    elif engine == 'v1load':
        if lv['keymap'][0]:
            root['v1_field_to_alias'] = {'my_val': 'zk'}
        if lv['keymap'][1]:
            nested['v1_field_to_alias'] = {'my_val': 'nk'}
    shape = list(shapes[lv['shape']])
    probe = lv['probe']
    if 'union' in shape:           # C13 domain: the member is tagged and reads/writes the same tag key as the Union
        nested['tag'] = 'NT'
        nested.pop('tag_key', None)
    if probe != 'union':
        root.pop('auto_assign_tags', None)
        nested.pop('auto_assign_tags', None)
    if engine == 'v1load':
        root['v1'] = True
    cfg = {'engine': engine, 'style': lv['style'], 'shape': shape, 'probe': probe, 'catchall': lv['catchall'],
           'root': root, 'nested': nested, 'mid': None}
    if lv['bare'] in ('root', 'both') and engine != 'v1load':
        cfg['root'] = None
    if lv['bare'] in ('nested', 'both') and 'union' not in shape:
        cfg['nested'] = None
    if engine == 'v1load' and cfg['nested'] is not None:
        cfg['nested']['v1'] = True      # a class with v1 settings is a v1 class on its own as well
    if lv['mid'] and 'mid' in shape:
        # the intermediate class sets every observed setting to the value the nested class does NOT expect from the root
        mid = {}
        for s, vals in ENGINE_SETTINGS[engine].items():
            if s == 'auto_assign_tags':
                continue
            vals = bvals.get(s, vals)
            mid[s] = vals[1] if root.get(s, vals[0]) == vals[0] else vals[0]
        if engine == 'v1load':
            mid['v1'] = True
        cfg['mid'] = mid
    if engine == 'dump' and any('skip_defaults_if' in (m or {}) for m in (cfg['root'], cfg['nested'], cfg['mid'])):
        # noticed, not C12: a CatchAll field with a default under Meta.skip_defaults_if dumps with NameError `_default_i`
        cfg['catchall'] = False
    cfg['history'] = lv['history']
    if lv['root_steps'] and cfg['root']:
        keys = [k for k in cfg['root'] if k != 'v1']
        if keys:
            rng2 = __import__('random').Random(json.dumps([cfg['root'], lv['root_steps'], shape], sort_keys=True))
            later = set(rng2.sample(keys, rng2.randrange(1, len(keys) + 1))) if lv['root_steps'] == 1 else set(keys)
            part1 = {k: v for k, v in cfg['root'].items() if k not in later}
            if lv['root_steps'] == 2 and rng2.random() < 0.5:
                # the later binding OVERRIDES a value of the first one
                for k in keys:
                    vals = bvals.get(k, ENGINE_SETTINGS[engine].get(k))
                    # (not marshal_date_time_as: a TIMESTAMP hook registered by the first binding is never unregistered,
                    #  for the root itself as well - rebinding semantics, not the cascade)
                    if vals and k not in ('auto_assign_tags', 'marshal_date_time_as'):
                        part1[k] = vals[1] if cfg['root'][k] == vals[0] else vals[0]
            pre_doc = {'my_val': 1}
            if 'union' in shape:
                pre_doc[tag_key_of(effective(cfg['nested'], part1))] = 'NT'
            cfg['root_steps'] = {'part1': part1, 'part2': {k: cfg['root'][k] for k in cfg['root'] if k in later}, 'pre_doc': pre_doc}
    if lv['history'].startswith('other_root'):
        if lv['other'] == 'nometa' and engine != 'v1load':
            cfg['other'] = None
        elif lv['other'] == 'same':
            cfg['other'] = dict(cfg['root']) if cfg['root'] is not None else None
        else:
            other = {}
            for s, vals in ENGINE_SETTINGS[engine].items():
                if s == 'auto_assign_tags' and probe != 'union':
                    continue
                vals = bvals.get(s, vals)
                other[s] = vals[1] if (cfg['root'] or {}).get(s, vals[0]) == vals[0] else vals[0]
            if engine == 'v1load':
                other['v1'] = True
            cfg['other'] = other
    if engine != 'dump':
        cfg['doc_type'] = lv['doc_type']
        cfg['docs'] = probe_docs(cfg)
    return cfg


def reader_key(cfg):
    """tag key a Union over the nested class reads (= the member's effective tag key; its own is unset by construction)."""
    return tag_key_of(effective(cfg['nested'], cfg['root']))


def probe_docs(cfg):
    eng = cfg['engine']
    docs = [{'my_val': 1}, {'myVal': 2}, {'my_val': 3, 'zzz': 0}, {'my_val': 4, '__tag__': 'NT'}, {'my_val': 5, 'kA': 'NT'},
            {'my_val': 6, 'kB': 'NT'}, {'zk': 7}, {'nk': 8}]
    if eng == 'v1load':
        docs += [{'my-val': 9}]
    if cfg['probe'] == 'union':
        e = effective(cfg['nested'], cfg['root'])
        # the members UA/UB have no Meta: their tag key is the root's (when it cascades) or the default
        mk = tag_key_of(effective(None, cfg['root']))
        docs = [{'u': {'x': 1, mk: 'UB'}}]
    if 'union' in cfg['shape']:
        rk = reader_key(cfg)
        docs = [dict(d, **{rk: 'NT'}) for d in docs if rk not in d]
    return docs


# --------------------------------------------------------------------------------------
# expected outcomes and comparison
def in_region_F22(cfg):
    """F22: the class containing a Union-of-dataclasses field sets auto_assign_tags itself, and the value differs from
    the one the ROOT's cascading config provides (False when the root has no Meta or recursive=False): the Union
    reads auto_assign_tags from the root config, not from the merged Meta of the class that contains it."""
    if cfg['probe'] != 'union':
        return False
    root = cfg['root']
    provided = False if (root is None or root.get('recursive', True) is False) else bool(root.get('auto_assign_tags', False))
    own = (cfg['nested'] or {}).get('auto_assign_tags')
    if by_value(cfg):
        # reached by value only: the class's own dump-function generation runs the auto-tag step (merged Meta), so an
        # own False is respected; an own True still meets a Union parser that reads the root's config
        return bool(own) and not provided
    return own is not None and bool(own) != provided


def expected_dump(cfg, e=None):
    if e is None:
        e = effective(cfg['nested'], cfg['root'])
    union = None
    if cfg['probe'] == 'union':
        items = [[{'str': 'x'}, {'int': '1'}]]
        eu = effective(None, cfg['root'])
        ku = dump_key('x', eu.get('key_transform_with_dump'))
        items = [[{'str': ku}, {'int': '1'}]]
        if eu.get('skip_if') is not None and cond_holds(eu['skip_if'], 1):
            items = []
        if e.get('auto_assign_tags'):
            items.append([{'str': tag_key_of(eu)}, {'str': 'UB'}])
        union = {'dict': items}
    return ref_dump(e, N_FIELDS, cfg['catchall'], union)


def norm_dump(nested):
    """[(key, value)] from the canonical dict; a dict-valued entry is kept canonical."""
    return [(k['str'], v) for k, v in nested.get('dict', [])]


def check_dump(cfg, res, e=None):
    """None if the nested part of the dump is as expected under effective (or under the given Meta e), else a description."""
    if res.get('setup'):
        return 'class definition failed: %s %s' % (res['setup']['err'], res['setup'].get('msg'))
    r = res['results'][0]
    if 'err' in r:
        return 'dump raised %s: %s' % (r['err'], (r.get('msg') or '')[:200])
    got = norm_dump(r['ok']['nested'])
    exp = expected_dump(cfg, e)
    if cfg['probe'] == 'union' and has_earlier_use(cfg):
        # auto-tag assignment after earlier uses of the class: C13 histories
        ku = dump_key('u', (e if e is not None else effective(cfg['nested'], cfg['root'])).get('key_transform_with_dump'))
        got = [(k, v) for k, v in got if k != ku]
        exp = [(k, v) for k, v in exp if k != ku]
    if sorted(map(json.dumps, got)) != sorted(json.dumps([k, v]) for k, v in exp):
        return 'nested dump %r, expected under effective %r' % (got, exp)
    # the root's own part behaves under the root's own Meta
    got_r = norm_dump(r['ok']['root'])
    exp_r = ref_dump(cfg['root'] or {}, R_FIELDS)
    if sorted(map(json.dumps, got_r)) != sorted(json.dumps([k, v]) for k, v in exp_r):
        return 'root part of the dump %r, expected under its own Meta %r' % (got_r, exp_r)
    return None


def check_load(cfg, res, e=None):
    if res.get('setup'):
        return 'class definition failed: %s %s' % (res['setup']['err'], res['setup'].get('msg'))
    if e is None:
        e = effective(cfg['nested'], cfg['root'])
    for doc, r in zip(cfg['docs'], res['results']):
        if cfg['probe'] == 'union' and has_earlier_use(cfg):
            continue        # auto-tag assignment after earlier uses of the class: C13 histories
        if cfg['probe'] == 'union':
            want_ok = bool(e.get('auto_assign_tags'))
            if want_ok:
                if 'err' in r:
                    return 'doc %r: raised %s, expected the Union member UB (auto tags in effect)' % (doc, r['err'])
                u = r['ok']['fields']['u']
                if not (u and u.get('inst') == 'UB' and u['fields']['x'] == {'int': '1'}):
                    return 'doc %r: u loaded as %r, expected UB(x=1)' % (doc, u)
            elif 'err' not in r:
                return 'doc %r: loaded %r although no tags are assigned under effective' % (doc, r['ok'])
            continue
        exp = ref_load(e, {k: v for k, v in doc.items()}, cfg['engine'], cfg['catchall'])
        if exp[0] == 'err':
            if r.get('err') != exp[1]:
                return 'doc %r: got %s, expected %s' % (doc, r.get('err') or 'a value', exp[1])
        else:
            if 'err' in r:
                return 'doc %r: raised %s (%s), expected my_val=%r' % (doc, r['err'], (r.get('msg') or '')[:120], exp[1])
            if not r.get('is_N'):
                return 'doc %r: nested value is not an N' % (doc,)
            fv = r['ok']['fields']
            if fv['my_val'] != {'int': str(exp[1])}:
                return 'doc %r: my_val=%r, expected %r' % (doc, fv['my_val'], exp[1])
            if cfg['catchall']:
                got = {k['str']: v for k, v in (fv['extra'] or {}).get('dict', [])}
                want = {k: ({'str': v} if isinstance(v, str) else {'int': str(v)}) for k, v in exp[2].items()}
                if got != want:
                    return 'doc %r: CatchAll captured %r, expected %r' % (doc, got, want)
    return None


def check(cfg, res, e=None):
    if 'runner_error' in res:
        raise RuntimeError('c12 runner failed: %s' % res['runner_error'])
    return check_dump(cfg, res, e) if cfg['engine'] == 'dump' else check_load(cfg, res, e)


def gen_configs(ctx):
    quick = ctx.tier == 'quick'
    cfgs = []
    for engine in ('load', 'dump', 'v1load'):
        rng = ctx.sub_rng('cfg', engine)
        bvals = {}
        if engine == 'load':
            bvals['key_transform_with_load'] = ['SNAKE', rng.choice(['NONE', 'CAMEL', 'PASCAL', 'LISP'])]
        if engine == 'dump':
            bvals['key_transform_with_dump'] = rng.choice([['SNAKE', 'PASCAL'], ['PASCAL', 'LISP'], ['NONE', 'CAMEL'], ['LISP', 'SNAKE']])
        if engine == 'v1load':
            # single-word wrapper keys (n, inner) are spelled the same under these cases; PASCAL would rename them
            bvals['v1_key_case'] = rng.choice([['CAMEL', 'KEBAB'], ['SNAKE', 'CAMEL'], ['KEBAB', 'SNAKE']])
        f, shapes = factors(engine, rng, 6 if quick else 40)
        rows = pairwise_rows(f, rng, extra_random=40 if quick else 500)
        for row in rows:
            cfgs.append(mk_config(engine, f, shapes, row, rng, bvals))
        if not quick:   # full product shape x recursive on sampled rows
            for row in rng.sample(rows, 20):
                for si in range(len(shapes)):
                    for ri in range(3):
                        r2 = dict(row); r2['shape'] = si; r2['recursive'] = ri
                        cfgs.append(mk_config(engine, f, shapes, r2, rng, bvals))
    seen, out = set(), []
    for c in cfgs:
        k = json.dumps(c, sort_keys=True)
        if k not in seen:
            seen.add(k); out.append(c)
    return out


# --------------------------------------------------------------------------------------
# Coq side: encoders / decoders
PRELUDE = ''
ENGINE_COQ = {'load': 'LoadV0', 'dump': 'DumpV0', 'v1load': 'LoadV1'}


def coq_sval(v):
    if v is None:
        return 'VNone'
    if isinstance(v, bool):
        return '(VBool %s)' % ('true' if v else 'false')
    if isinstance(v, str):
        return '(VStr %s)' % coq_str(v)
    if isinstance(v, dict) and 'cond' in v:
        return '(VTok %d%%N)' % v['val']                 # EQ(3) / EQ(4)
    if isinstance(v, dict):                              # explicit key maps: root's = 1, nested's = 2
        return '(VTok %d%%N)' % (1 if ('zk' in v or 'zk' in v.values()) else 2)
    raise ValueError(v)


def coq_cmeta(m):
    if m is None:
        return 'None'
    return '(Some %s)' % coq_list(['(%s, %s)' % (coq_str(k), coq_sval(v)) for k, v in m.items()])


def coq_use(kind, root):
    return '{| u_kind := %s; u_root := %s |}' % ('UDump' if kind == 'dump' else 'ULoad',
                                                  'None' if root == 'ALONE' else '(Some %s)' % coq_cmeta(root))


def coq_hist(cfg):
    us = uses_of_nested(cfg)
    return coq_list([coq_use(k, r) for k, r in us[:-1]]), coq_use(*us[-1])


def decode_vector(s, engine):
    """behaviour vector printed by MetaMerge.show_behaviour -> settings dict the reference semantics understand."""
    f = s.split('|')
    assert len(f) == 15, s

    def val(x):
        if x in ('-', 'None'):
            return None
        if x in ('True', 'False'):
            return x == 'True'
        if x.startswith('s:'):
            return x[2:]
        if x.startswith('t:'):
            n = int(x[2:])
            return {3: EQ3, 4: EQ4, 1: 'ROOTMAP', 2: 'NESTEDMAP'}[n]
        raise ValueError(x)
    e = {}
    ld = val(f[0])
    if ld is not None:
        e['v1_key_case' if engine == 'v1load' else 'key_transform_with_load'] = ld
    for name, x in (('key_transform_with_dump', f[1]), ('skip_if', f[4]), ('skip_defaults_if', f[5]),
                    ('v1_on_unknown_key', f[7]), ('tag', f[8]), ('tag_key', f[9])):
        if val(x) is not None:
            e[name] = val(x)
    if f[2] == '1':
        e['marshal_date_time_as'] = 'TIMESTAMP'
    e['skip_defaults'] = f[3] == '1'
    e['raise_on_unknown_json_key'] = f[6] == '1'
    km = {'ROOTMAP': {'zk': 'my_val'}, 'NESTEDMAP': {'nk': 'my_val'}}
    if val(f[10]) is not None:
        e['json_key_to_field'] = km[val(f[10])]
    if val(f[11]) is not None:
        e['v1_field_to_alias'] = {'my_val': {'ROOTMAP': 'zk', 'NESTEDMAP': 'nk'}[val(f[11])]}
    e['auto_assign_tags'] = f[12] == '1'
    wl = {val(x) for x in f[13].split(',') if x}
    e['_whitelist'] = wl - ({tag_key_of(e)} if e.get('tag') else set())
    if val(f[14]) is not None and 'v1_field_to_alias' not in e:
        e['v1_field_to_alias'] = {'my_val': SPELL[val(f[14])]}     # the alias an earlier v1 load left in the class's table
    return e


# --------------------------------------------------------------------------------------
def check_with(cfg, res, e):
    """Outcome check against an explicitly given effective Meta e (decoded from the model's behaviour vector)."""
    return check(cfg, res, e)


def cascading(root):
    return not (root is None or root.get('recursive', True) is False)


def by_value(cfg):
    """the nested class N itself is reached by value only: a by-value position with no intermediate dataclass below it
    (an intermediate class M below the by-value position reaches N through M's own annotations again)."""
    sh = cfg['shape']
    last_bv = max([i for i, h in enumerate(sh) if h in BY_VALUE], default=-1)
    last_mid = max([i for i, h in enumerate(sh) if h == 'mid'], default=-1)
    return last_bv > last_mid


def has_earlier_use(cfg):
    return len(uses_of_nested(cfg)) > 1


def uses_of_nested(cfg):
    """(kind, root Meta or 'ALONE') for every use of the nested class, earlier uses first, the observation last."""
    h = cfg.get('history', 'none')
    out = []
    if h == 'nested_dump':
        out.append(('dump', 'ALONE'))
    elif h == 'nested_load':
        out.append(('load', 'ALONE'))
    elif h == 'other_root_dump':
        out.append(('dump', cfg.get('other')))
    elif h == 'other_root_load':
        out.append(('load', cfg.get('other')))
    if cfg.get('root_steps') and not any(h in BY_VALUE for h in cfg['shape']):
        # (a load cannot reach a class that is only present by value, so that earlier load did not use the nested class)
        # the root itself was used once with the other engine while only the first part of its Meta was bound
        out.append(('load' if cfg['engine'] == 'dump' else 'dump', cfg['root_steps']['part1']))
    out.append(('dump' if cfg['engine'] == 'dump' else 'load', cfg['root']))
    return out


SPELL = {None: 'my_val', 'SNAKE': 'my_val', 'CAMEL': 'myVal', 'PASCAL': 'MyVal', 'KEBAB': 'my-val'}


def leaky_effective(cfg):
    """What the UNCHANGED tree does for the nested class after earlier uses (finding F10 seen from C12): the per-class
    loader / dumper attributes written by bind_to, the dump-key table filled by the first generated dump function, the
    sticky timestamp hooks, the default engine's whitelisted tag keys and v1's alias table survive from use to use.
    Returns the Meta the observation behaves under according to that faithful description (equal to effective(...)
    when nothing leaks).  Skip rules, unknown-key policies, tag and emitted tag key never leak."""
    own = dict(cfg['nested'] or {})
    attr = {k: own.get(k) for k in ('key_transform_with_dump', 'key_transform_with_load', 'v1_key_case')}
    ts = own.get('marshal_date_time_as') == 'TIMESTAMP'
    dump_keys, have_dump_keys = None, False
    whitelist, stuck = set(), None
    e_use = own
    for kind, root in uses_of_nested(cfg):
        e_use = effective(cfg['nested'], None if root == 'ALONE' else root)
        if root != 'ALONE' and cascading(root):
            for k in attr:
                if e_use.get(k) is not None:
                    attr[k] = e_use[k]
            ts = ts or e_use.get('marshal_date_time_as') == 'TIMESTAMP'
        if kind == 'dump' and not have_dump_keys:
            dump_keys, have_dump_keys = attr['key_transform_with_dump'], True
        if kind == 'load':
            if e_use.get('v1'):
                if stuck is None and not (own.get('v1_field_to_alias')) and SPELL[attr['v1_key_case']] != 'my_val':
                    stuck = SPELL[attr['v1_key_case']]
            elif e_use.get('tag') is not None:
                whitelist.add(tag_key_of(e_use))
    e = dict(e_use)        # effective(nested, root) of the observation
    if cfg['engine'] == 'dump':
        e['key_transform_with_dump'] = dump_keys
        e['marshal_date_time_as'] = 'TIMESTAMP' if ts else None
    elif cfg['engine'] == 'load':
        e['key_transform_with_load'] = attr['key_transform_with_load']
        e['_whitelist'] = whitelist - ({tag_key_of(e)} if e.get('tag') else set())
    else:
        e['v1_key_case'] = attr['v1_key_case']
        if stuck is not None and not own.get('v1_field_to_alias'):
            e['v1_field_to_alias'] = {'my_val': stuck}
    return {k: v for k, v in e.items() if v is not None}


def in_region_F23(cfg):
    """F23 (C13): default engine, a Union member whose tag is auto-assigned while its load function already
    exists treats the tag key as an unknown key; visible when unknown keys raise for that member."""
    if cfg['engine'] != 'load' or cfg['probe'] != 'union':
        return False
    root = cfg['root']
    cascades = not (root is None or root.get('recursive', True) is False)
    return cascades and bool(root.get('auto_assign_tags')) and bool(root.get('raise_on_unknown_json_key'))


F22_ID = 'F22-auto-assign-tags-read-from-root-config'
F23_ID = 'F23-auto-tag-key-unknown-before-first-dump'
F10_ID = 'F10-C12-earlier-use-leaks-into-cascade'


def nontrivial(cfg):
    observed = set(ENGINE_SETTINGS[cfg['engine']])
    return cfg['root'] is not None and any(k in observed for m in (cfg['root'], cfg['nested'] or {}) for k in m)


def run(ctx):
    # ---- listed findings: replay the witnesses ----
    resolved = set()
    for f in ctx.findings():
        w = f.get('witness')
        if not isinstance(w, dict) or 'cfg' not in w or f['id'] not in (F22_ID, F10_ID):
            continue
        res = ctx.impl('c12', {'configs': [w['cfg']], 'jobs': 1})['results'][0]
        bad = check(w['cfg'], res)
        ctx.count(1, key='witness:' + f['id'])
        if bad is None:
            resolved.add(f['id'])      # repaired: the faithful model no longer applies inside that region
        ctx.known_finding(f['id'], still_fails=bad is not None,
                          what='%s [observed: %s]' % (f['what'][:400], (bad or 'behaves as effective')[:160].replace('\n', ' ')))

    cfgs = gen_configs(ctx)
    results = ctx.impl('c12', {'configs': cfgs, 'jobs': 14}, timeout=1500)['results']

    # ---- model: behaviour vector per distinct (engine, root, nested, history) ----
    def mkey(c):
        return json.dumps([c['engine'], c['root'], c['nested'], uses_of_nested(c), by_value(c)], sort_keys=True)
    triples, index = [], {}
    for c in cfgs:
        k = mkey(c)
        if k not in index:
            index[k] = len(triples)
            triples.append(c)
    model = None
    try:
        exprs = []
        for c in triples:
            h, u = coq_hist(c)
            exprs.append('show_hist %s %s %s %s' % ('true' if by_value(c) else 'false', coq_cmeta(c['nested']), h, u))
            exprs.append('show_impl %s %s %s' % (ENGINE_COQ[c['engine']], coq_cmeta(c['root']), coq_cmeta(c['nested'])))
            exprs.append('show_spec %s %s' % (coq_cmeta(c['root']), coq_cmeta(c['nested'])))
        out = ctx.coq(exprs, ['PyStr', 'MetaMerge'], prelude=PRELUDE)
        model = {k: (out[3 * i], out[3 * i + 1], out[3 * i + 2]) for k, i in index.items()}
    except Exception as e:  # noqa
        ctx.broken_tie('model evaluation failed: %s' % str(e)[:500])

    n_ties = 0
    for cfg, res in zip(cfgs, results):
        key = json.dumps(cfg, sort_keys=True)
        ctx.count(1, key=key, nontrivial=nontrivial(cfg))
        ctx.hist('engine', cfg['engine'])
        ctx.hist('shape_depth', len(cfg['shape']))
        ctx.hist('shape_head', cfg['shape'][0] if cfg['shape'] else 'direct')
        ctx.hist('root_recursive', str((cfg['root'] or {}).get('recursive', 'unset')) if cfg['root'] is not None else 'no Meta')
        ctx.hist('probe', cfg['probe'])
        ctx.hist('style', cfg['style'])
        r22, r23 = in_region_F22(cfg), in_region_F23(cfg)
        hist = cfg.get('history', 'none')
        ctx.hist('history', hist)
        ctx.hist('root_configured_in_steps', bool(cfg.get('root_steps')))
        ctx.hist('by_value_shape', 'N by value' if by_value(cfg) else ('above an intermediate class' if any(h in BY_VALUE for h in cfg['shape']) else 'typed'))
        if cfg['engine'] != 'dump':
            ctx.hist('doc_type', cfg.get('doc_type', 'dict'))
        # -- direct predicate: nested behaviour == behaviour under effective(own, root), whatever happened before --
        bad = check(cfg, res)
        if bad:
            if r22 and ctx.is_open_region(F22_ID):
                ctx.hist('known_region', F22_ID)
            elif r23 and ctx.is_open_region(F23_ID):
                ctx.hist('known_region', F23_ID)
            elif has_earlier_use(cfg) and ctx.is_open_region(F10_ID) and check(cfg, res, leaky_effective(cfg)) is None:
                # exactly the manifestation of F10 (per-class loader/dumper attributes, dump-key table, timestamp hooks,
                # whitelisted tag keys, v1 alias table surviving from the earlier use); anything else is a violation
                ctx.hist('known_region', F10_ID)
            else:
                ctx.violation('%s, shape %s, earlier use %s: %s' % (cfg['engine'], '/'.join(cfg['shape']) or 'direct', hist, bad),
                              {'kind': 'config', 'cfg': cfg})
        # -- correspondence: the Coq model (with the earlier uses) predicts the implementation's outcome --
        if model is not None:
            v_hist, v_impl, v_spec = model[mkey(cfg)]
            ctx.traces_validated += 1
            if not has_earlier_use(cfg) and v_hist.split('|')[:12] != v_impl.split('|')[:12]:
                ctx.broken_tie('Coq: show_hist with no earlier use differs from show_impl', {'cfg': cfg, 'hist': v_hist, 'impl': v_impl})
            if (v_hist.split('|')[12] != v_spec.split('|')[12]) != r22 and cfg['probe'] == 'union' and not has_earlier_use(cfg):
                ctx.disagreements_checked += 1
                ctx.broken_tie('Coq region in_region_auto and the harness region predicate disagree',
                               {'cfg': cfg, 'model_impl': v_impl, 'model_spec': v_spec})
            if r23:
                ctx.hist('model_comparison_skipped', F23_ID)
                continue
            if r22 and F22_ID in resolved:
                ctx.hist('model_comparison_skipped_resolved_finding', F22_ID)
                continue
            if has_earlier_use(cfg) and F10_ID in resolved:
                ctx.hist('model_comparison_skipped_resolved_finding', F10_ID)
                continue
            e_model = decode_vector(v_hist, cfg['engine'])
            if cfg['probe'] != 'union':
                e_model.pop('auto_assign_tags', None)
            bad_m = check_with(cfg, res, e_model)
            if bad_m:
                n_ties += 1
                ctx.disagreements_checked += 1
                if n_ties <= 5:
                    ctx.broken_tie('MetaMerge model and implementation disagree: %s' % bad_m[:300],
                                   {'cfg': cfg, 'model_vector': v_hist})
    for c, r in list(zip(cfgs, results))[:3]:
        ctx.sample({'config': {k: v for k, v in c.items() if k != 'docs'}, 'docs': c.get('docs', [])[:3],
                    'impl_outcomes': [x if 'err' not in x else {'err': x['err']} for x in r.get('results', [])][:3]})
    ctx.notes.append('each of the %d configurations ran in its own interpreter' % len(cfgs))


def replay(ctx, obj):
    if obj.get('kind') == 'config' or 'cfg' in obj:
        cfg = obj['cfg']
        res = ctx.impl('c12', {'configs': [cfg], 'jobs': 1})['results'][0]
        print(res.get('source', ''))
        bad = check(cfg, res)
        print('effective(nested, root) = %r' % effective(cfg['nested'], cfg['root']))
        print('outcome: %s' % (bad or 'nested behaviour is the behaviour under effective'))
        return bad is None
    print('replay object names a broken tie, not an input: %s' % json.dumps(obj)[:1500])
    return False
