"""C12 — Meta cascades to nested classes with documented priority unless recursive=False.

Theorems: coq/props/C12.v (model coq/model/MetaMerge.v).  Every configuration is
run in its own fresh interpreter (harness/impl/c12.py -> c12_one.py).  Expected
behaviour of the nested part is computed by an independent Python `effective`
(transcribed from the property text) and small reference dump/load semantics;
the Coq model's behaviour vector is compared with the behaviour observed on the
implementation (correspondence), and the direct predicate (observed nested
behaviour == behaviour under effective) is evaluated on every configuration.
"""
import json, itertools, os
from lib.coqrun import coq_str, coq_list

META = {
    'id': 'C12',
    'title': 'Meta cascades to nested classes with documented priority unless recursive=False',
    'level': 'proof',
    'technique': 'Coq proof (merge algebra over the regenerated settings table; induction over the nesting shape) on a hand-written '
                 'Gallina model of bases.py __or__/__and__, bind_to and the config propagation + per-configuration differential '
                 'correspondence with the implementation in fresh interpreters',
    'design_ref': 'DESIGN.md section 4 C12',
    'theorems': ['C12_tables', 'C12_merge_source_tie', 'C12_or_left_wins', 'C12_or_fallback', 'C12_or_special', 'C12_or_special_not_inherited',
                 'C12_or_abstract_left', 'C12_and_overlay', 'C12_effective_nonrecursive', 'C12_effective_get',
                 'C12_cascade', 'C12_cascade_complete', 'C12_behaviour', 'C12_auto_tags_partial', 'C12_auto_tags_refuted',
                 'C12_engines_agree', 'C12_history_fresh', 'C12_history_independent', 'C12_history_refuted', 'C12_auto_tags_byvalue_partial',
                 'C12_table_invariant', 'C12_table_cascade', 'C12_table_effective', 'C12_table_tag', 'C12_table_tag_persists_refuted',
                 'C12_table_parsers_frozen_refuted'],
    'tables': ['MetaFields', 'MetaMergeAlg'],
    'level_text': ('Theorems proved in Coq for ALL Meta contents (any values, any subset of the settings table regenerated from '
                   'AbstractMeta), ALL nesting shapes (Optional, list, dict value, tuple, Union, intermediate dataclasses with their own '
                   'Meta, any depth) and the three engines: the meta a nested class is generated under is effective(own, root), and the '
                   'observable behaviour derived from it by bind_to equals the behaviour of a stand-alone class with Meta = effective. '
                   'One component is refuted: auto_assign_tags is read from the root config instead of the merged Meta (finding '
                   'F22, open), proved only outside that region. Multi-root histories over the global _META table (any class graph, any number of '
                   'roots sharing nested classes, user-level bindings incl. the `&=` in-place merge, first loads / first dumps by any engine in any '
                   'order): by induction over the history, the library\'s own writes (auto-created Metas, meta.tag = name) never add, change or remove '
                   'a user-level setting of any class, so every nested class is generated under effective(declared_own, declared root Meta) on every '
                   'setting but `tag`; `tag` is the declared one or the auto-assigned class name (its persistence across roots and the default '
                   'engine\'s cached field parsers are refuted / listed findings). The model is re-validated against the implementation on every run, '
                   'including the implementation\'s _META table after every operation of every generated history.'),
    'level_note': ('Trusted: Coq kernel + vm_compute; the hand-written model coq/model/MetaMerge.v (class __dict__ as association list, '
                   'getattr = own entry else AbstractMeta default; no user-defined intermediate Meta base classes, no global Meta); the '
                   'harness. Single-root configurations run in a fresh interpreter each; multi-root histories run in ONE interpreter per history '
                   'and are compared with the same root alone in a pristine interpreter. The per-class global tables that make a later root see an '
                   'earlier one (C07\'s F10) are modelled faithfully (Coq: gstate / t_parsed; harness: leaky_effective / MultiSim) and listed as findings.'),
    'rule': ('configurations = pairwise covering array (greedy, seeded) over factors: per mergeable setting the pair (root value, nested value) '
             'in {unset,A,B}^2, root recursive in {unset,True,False}, nested recursive, tags, explicit key maps, presence of a Meta at all, '
             'binding style (inner Meta class / LoadMeta-DumpMeta), CatchAll, probe kind (basic / Union-of-dataclasses field), nesting shape '
             '(12 fixed + random compositions up to depth 4 incl. intermediate classes with own Meta), earlier use of the nested class (none / dumped alone / '
             'loaded alone / under another root with no, opposite or same Meta, dumped or loaded), document type (dict / OrderedDict / defaultdict / subclass), '
             'root Meta bound in one step / split in two with a use of the other engine in between, dump-side by-value shapes (list / Any / Dict[str, Any]), '
             'per engine (default load, dump, v1 load); '
             'thorough adds the full product shape x recursive on sampled rows. distinct = distinct configuration JSON; non-trivial = root has a '
             'Meta and at least one observed setting is set on root or nested. MULTI-ROOT HISTORIES (one interpreter each): (a) systematic: per cascading '
             'setting (key_transform_with_dump, marshal_date_time_as, skip_defaults, raise_on_unknown_json_key / v1_on_unknown_key, tag_key, auto_assign_tags) '
             'two roots with the two values x auto_assign_tags on/off per root x orders of the first dump / first load of both roots (sampled permutations in '
             'quick, all 24 in thorough) over shared N (with a Union[UA, UB, None]) and the roots\' own Unions; (b) random: 2..3 roots, any declared Metas on '
             'UA/UB/N/M (none / explicit tag / settings; inner Meta, LoadMeta, DumpMeta, LoadMeta+DumpMeta), shapes direct/Optional/List/Dict/Tuple/'
             'intermediate class/none, definitions and later user bindings interleaved with the uses; every first dump / first load is also run alone in a '
             'pristine interpreter; non-trivial = at least two uses.'),
    'trusted_base': ['model coq/model/MetaMerge.v: Meta class = association list of its own __dict__ settings; getattr falls back to the '
                     'AbstractMeta defaults table (validated by the correspondence run)',
                     'model coq/model/MetaMergeTable.v: _META as a table class -> own settings, user bindings, auto-tag writes of UnionParser / load_to_union, '
                     'the default engine\'s parser cache; dump walks a value that inhabits every dataclass position (its _META snapshots are compared with '
                     'the implementation\'s after every operation)',
                     'harness MultiSim (Python): per-class global tables of the unchanged tree, used only to recognise the listed leak findings'],
    'assumptions': ['one interpreter per configuration; earlier uses of the nested class inside it are a generated dimension (history)',
                    'multi-root histories: Meta objects are not shared between classes (no `m = LoadMeta(..); m.bind_to(A); m.bind_to(B)`, no subclassing of a '
                    'class with an inner Meta: C06); Union members do not set auto_assign_tags / tag_key themselves (C13: F62, F63); a root with recursive=False '
                    'does not set tag_key; load documents use exact field names (key transforms on load under histories: single-root history dimension)',
                    'Meta classes are direct subclasses of JSONWizard.Meta or LoadMeta/DumpMeta results (settings live in the class own __dict__); no global (outer) Meta',
                    'Union shape: the nested member carries its own tag and does not set a tag_key different from the one the containing Union reads (C13 domain)',
                    'debug_enabled / v1_debug / recursive_classes / v1_unsafe_parse_dataclass_in_union are merged by the proved algebra but not observed end-to-end'],
}

# --- lead: algorithm-level source tie mentioned in the technique (kept separate so the builder's text stays intact)
META['technique'] = META['technique'] + ' + translation of bases.ABCOrAndMeta.__or__ / __and__ from the current source text into Gallina, proved equal to the hand-written model on every run (tie T for algorithms)'

# --------------------------------------------------------------------------------------
# independent reference, transcribed from the property text
MERGEABLE = {  # "key transforms, date/time marshalling, skip rules, unknown-key policy, tag key, auto tags, debug"
    'key_transform_with_load', 'key_transform_with_dump', 'v1_key_case', 'marshal_date_time_as',
    'skip_defaults', 'skip_if', 'skip_defaults_if', 'raise_on_unknown_json_key', 'v1_on_unknown_key',
    'tag_key', 'auto_assign_tags', 'debug_enabled', 'v1_debug', 'v1',
}
NEVER_INHERITED = {'tag', 'recursive', 'json_key_to_field', 'v1_field_to_alias'}
DEFAULT_TAG_KEY = '__tag__'


def effective(nested, root):
    """Meta the nested class behaves under (dict of the settings that are set)."""
    own = dict(nested or {})
    if root is None or root.get('recursive', True) is False:
        return own
    eff = {k: v for k, v in root.items() if k in MERGEABLE}
    eff.update(own)
    return eff


def camel(n):
    ws = n.split('_')
    return ws[0] + ''.join(w[:1].upper() + w[1:] for w in ws[1:])


def pascal(n):
    return ''.join(w[:1].upper() + w[1:] for w in n.split('_'))


def dump_key(name, tr):
    return {None: camel, 'CAMEL': camel, 'SNAKE': lambda s: s, 'PASCAL': pascal, 'LISP': lambda s: s.replace('_', '-'),
            'NONE': lambda s: s}[tr](name)


def cond_holds(c, v):
    return {'EQ': v == c['val'], 'NE': v != c['val']}[c['cond']]


WHEN_ISO, WHEN_TS = '2021-05-06T07:08:09Z', 1620284889
N_FIELDS = [('my_val', 7, 0), ('when', 'WHEN', 'WHEN0'), ('dflt', 5, 5), ('a3', 3, 1), ('b4', 4, 1)]
R_FIELDS = [('my_val', 7, 0), ('when', 'WHEN', 'WHEN0'), ('dflt', 5, 5)]


def tag_key_of(e):
    return e.get('tag_key') or DEFAULT_TAG_KEY


def ref_dump(e, fields, catchall=False, union=None):
    """Expected dump of an instance (list of (key, canonical value)) of a class behaving under Meta e."""
    tr = e.get('key_transform_with_dump')
    sd_active = bool(e.get('skip_defaults')) or e.get('skip_defaults_if') is not None
    out = []
    for name, val, dflt in fields:
        skip = False
        if sd_active:
            skip = cond_holds(e['skip_defaults_if'], val) if e.get('skip_defaults_if') is not None else (val == dflt)
        if not skip and e.get('skip_if') is not None:
            skip = cond_holds(e['skip_if'], val)
        if skip:
            continue
        if val == 'WHEN':
            cv = {'int': str(WHEN_TS)} if e.get('marshal_date_time_as') == 'TIMESTAMP' else {'str': WHEN_ISO}
        else:
            cv = {'int': str(val)}
        out.append((dump_key(name, tr), cv))
    if catchall:
        out.append(('zzz', {'int': '1'}))
    if union is not None:
        out.append((dump_key('u', tr), union))
    if e.get('tag'):
        out.append((tag_key_of(e), {'str': e['tag']}))
    return out


def ref_load(e, doc, engine, catchall):
    """Expected outcome of loading `doc` into N behaving under Meta e:
    ('ok', my_val, captured dict) or ('err', 'UnknownKeysError')."""
    my_val, captured = 0, {}
    for k, v in doc.items():
        if k == 'u':
            continue
        field = None
        if engine == 'load':
            km = e.get('json_key_to_field') or {}
            if k == 'my_val' or km.get(k) == 'my_val':
                field = 'my_val'
            elif e.get('key_transform_with_load') in (None, 'SNAKE') and k in ('myVal', 'MyVal', 'my-val'):
                field = 'my_val'
        else:
            fa = (e.get('v1_field_to_alias') or {}).get('my_val')
            kc = e.get('v1_key_case')
            want = fa if fa is not None else {None: 'my_val', 'SNAKE': 'my_val', 'CAMEL': 'myVal', 'PASCAL': 'MyVal', 'KEBAB': 'my-val'}[kc]
            if k == want:
                field = 'my_val'
        if field:
            my_val = v
            continue
        if e.get('tag') and k == tag_key_of(e):
            continue
        if k in e.get('_whitelist', ()):
            # (leak-aware prediction only) a tag key whitelisted by an earlier default-engine load of the class:
            # never reported as unknown, but a CatchAll field takes it
            if catchall:
                captured[k] = v
            continue
        unknown_raises = bool(e.get('raise_on_unknown_json_key')) if engine == 'load' else e.get('v1_on_unknown_key') == 'RAISE'
        if catchall and engine == 'v1load':
            captured[k] = v          # v1: a CatchAll field takes unknown keys before the unknown-key policy is consulted (C10)
        elif unknown_raises:
            return ('err', 'UnknownKeysError')
        elif catchall:
            captured[k] = v
    return ('ok', my_val, captured)


# --------------------------------------------------------------------------------------
# configuration generator
EQ3, EQ4 = {'cond': 'EQ', 'val': 3}, {'cond': 'EQ', 'val': 4}
ENGINE_SETTINGS = {
    'dump': {'key_transform_with_dump': ['SNAKE', 'PASCAL'], 'marshal_date_time_as': ['ISO_FORMAT', 'TIMESTAMP'],
             'skip_defaults': [True, False], 'skip_if': [EQ3, EQ4], 'skip_defaults_if': [EQ3, EQ4],
             'tag_key': ['kA', 'kB'], 'auto_assign_tags': [True, False]},
    'load': {'key_transform_with_load': ['SNAKE', 'NONE'], 'raise_on_unknown_json_key': [True, False],
             'tag_key': ['kA', 'kB'], 'auto_assign_tags': [True, False]},
    'v1load': {'v1_key_case': ['CAMEL', 'KEBAB'], 'v1_on_unknown_key': ['RAISE', 'IGNORE'],
               'tag_key': ['kA', 'kB'], 'auto_assign_tags': [True, False]},
}
FIXED_SHAPES = [[], ['opt'], ['list'], ['dict'], ['tuple'], ['vtuple'], ['union'], ['mid'],
                ['list', 'opt'], ['dict', 'list'], ['mid', 'list'], ['opt', 'mid', 'dict']]
SHAPE_ATOMS = ['opt', 'list', 'dict', 'tuple', 'vtuple', 'union', 'mid']


def normal_shape(sh):
    """drop compositions the typing module collapses (Optional[Optional], Union in Union/Optional)."""
    out = []
    for i, h in enumerate(sh):
        if h == 'union' and i != len(sh) - 1:
            continue        # a Union member that is a container type only accepts that exact Python type (no JSON lists)
        if out and h in ('opt', 'union') and out[-1] in ('opt', 'union'):
            continue
        out.append(h)
    return out


BY_VALUE = ['anylist', 'any', 'anydict']      # dump side only: annotation `list` / `Any` / `Dict[str, Any]`


def factors(engine, rng, n_random_shapes):
    shapes = [list(s) for s in FIXED_SHAPES]
    atoms = SHAPE_ATOMS
    if engine == 'dump':
        shapes += [['anylist'], ['any'], ['anydict'], ['anylist', 'mid'], ['mid', 'anydict'], ['list', 'any']]
        atoms = SHAPE_ATOMS + BY_VALUE
    n_fixed = len(shapes)
    while len(shapes) < n_fixed + n_random_shapes:
        sh = normal_shape([rng.choice(atoms) for _ in range(rng.choice([2, 3, 3, 4]))])
        if sh not in shapes:
            shapes.append(sh)
    f = {}
    for s in ENGINE_SETTINGS[engine]:
        f['s:' + s] = [(a, b) for a in (0, 1, 2) for b in (0, 1, 2)]      # (root level, nested level)
    f['recursive'] = ['unset', True, False]
    f['nested_recursive'] = ['unset', False]
    f['tag'] = [(a, b) for a in (0, 1) for b in (0, 1)]                   # (root tag, nested tag)
    f['keymap'] = [(a, b) for a in (0, 1) for b in (0, 1)]
    f['bare'] = ['none', 'none', 'none', 'root', 'nested', 'both']             # a class without any Meta (get_meta -> AbstractMeta)
    f['style'] = ['inner', 'func']
    f['catchall'] = [False, True]
    f['probe'] = ['basic', 'basic', 'union']
    f['mid'] = [0, 1]
    f['history'] = ['none', 'none', 'nested_dump', 'nested_load', 'other_root_dump', 'other_root_load']
    f['other'] = ['nometa', 'opposite', 'same']
    f['doc_type'] = ['dict', 'OrderedDict', 'defaultdict', 'subclass']
    f['root_steps'] = [0, 0, 1, 2]            # root Meta bound in one step / split in two with a use of the other engine in between
    f['shape'] = list(range(len(shapes)))
    return f, shapes


def pairwise_rows(f, rng, extra_random=0):
    """Greedy pairwise covering array over the factor dict f (name -> levels)."""
    names = sorted(f)
    idx = {n: range(len(f[n])) for n in names}
    uncovered = set()
    for a, b in itertools.combinations(names, 2):
        for x in idx[a]:
            for y in idx[b]:
                uncovered.add((a, x, b, y))
    rows = []

    def pairs(row):
        return [(a, row[a], b, row[b]) for a, b in itertools.combinations(names, 2)]
    while uncovered:
        best, best_n = None, -1
        seed_pair = next(iter(uncovered)) if len(uncovered) < 200 else None
        for _ in range(30):
            row = {n: rng.randrange(len(f[n])) for n in names}
            if seed_pair:
                row[seed_pair[0]], row[seed_pair[2]] = seed_pair[1], seed_pair[3]
            c = sum(1 for p in pairs(row) if p in uncovered)
            if c > best_n:
                best, best_n = row, c
        for p in pairs(best):
            uncovered.discard(p)
        rows.append(best)
    for _ in range(extra_random):
        rows.append({n: rng.randrange(len(f[n])) for n in names})
    return rows


def mk_config(engine, f, shapes, row, rng, bvals):
    """Turn a row of level indices into a configuration (JSON) for harness/impl/c12_one.py."""
    lv = {n: f[n][row[n]] for n in row}
    root, nested = {}, {}
    for s, vals in ENGINE_SETTINGS[engine].items():
        a, b = lv['s:' + s]
        vals = bvals.get(s, vals)
        if a:
            root[s] = vals[a - 1]
        if b:
            nested[s] = vals[b - 1]
    if lv['recursive'] != 'unset':
        root['recursive'] = lv['recursive']
    if lv['nested_recursive'] != 'unset':
        nested['recursive'] = False
    if lv['tag'][0]:
        root['tag'] = 'RT'
    if lv['tag'][1]:
        nested['tag'] = 'NT'
    if engine == 'load':
        if lv['keymap'][0]:
            root['json_key_to_field'] = {'zk': 'my_val'}
        if lv['keymap'][1]:
            nested['json_key_to_field'] = {'nk': 'my_val'}
    elif engine == 'v1load':
        if lv['keymap'][0]:
            root['v1_field_to_alias'] = {'my_val': 'zk'}
        if lv['keymap'][1]:
            nested['v1_field_to_alias'] = {'my_val': 'nk'}
    shape = list(shapes[lv['shape']])
    probe = lv['probe']
    if 'union' in shape:           # C13 domain: the member is tagged and reads/writes the same tag key as the Union
        nested['tag'] = 'NT'
        nested.pop('tag_key', None)
    if probe != 'union':
        root.pop('auto_assign_tags', None)
        nested.pop('auto_assign_tags', None)
    if engine == 'v1load':
        root['v1'] = True
    cfg = {'engine': engine, 'style': lv['style'], 'shape': shape, 'probe': probe, 'catchall': lv['catchall'],
           'root': root, 'nested': nested, 'mid': None}
    if lv['bare'] in ('root', 'both') and engine != 'v1load':
        cfg['root'] = None
    if lv['bare'] in ('nested', 'both') and 'union' not in shape:
        cfg['nested'] = None
    if engine == 'v1load' and cfg['nested'] is not None:
        cfg['nested']['v1'] = True      # a class with v1 settings is a v1 class on its own as well
    if lv['mid'] and 'mid' in shape:
        # the intermediate class sets every observed setting to the value the nested class does NOT expect from the root
        mid = {}
        for s, vals in ENGINE_SETTINGS[engine].items():
            if s == 'auto_assign_tags':
                continue
            vals = bvals.get(s, vals)
            mid[s] = vals[1] if root.get(s, vals[0]) == vals[0] else vals[0]
        if engine == 'v1load':
            mid['v1'] = True
        cfg['mid'] = mid
    if engine == 'dump' and any('skip_defaults_if' in (m or {}) for m in (cfg['root'], cfg['nested'], cfg['mid'])):
        # noticed, not C12: a CatchAll field with a default under Meta.skip_defaults_if dumps with NameError `_default_i`
        cfg['catchall'] = False
    cfg['history'] = lv['history']
    if lv['root_steps'] and cfg['root']:
        keys = [k for k in cfg['root'] if k != 'v1']
        if keys:
            rng2 = __import__('random').Random(json.dumps([cfg['root'], lv['root_steps'], shape], sort_keys=True))
            later = set(rng2.sample(keys, rng2.randrange(1, len(keys) + 1))) if lv['root_steps'] == 1 else set(keys)
            part1 = {k: v for k, v in cfg['root'].items() if k not in later}
            if lv['root_steps'] == 2 and rng2.random() < 0.5:
                # the later binding OVERRIDES a value of the first one
                for k in keys:
                    vals = bvals.get(k, ENGINE_SETTINGS[engine].get(k))
                    # (not marshal_date_time_as: a TIMESTAMP hook registered by the first binding is never unregistered,
                    #  for the root itself as well - rebinding semantics, not the cascade)
                    if vals and k not in ('auto_assign_tags', 'marshal_date_time_as'):
                        part1[k] = vals[1] if cfg['root'][k] == vals[0] else vals[0]
            pre_doc = {'my_val': 1}
            if 'union' in shape:
                pre_doc[tag_key_of(effective(cfg['nested'], part1))] = 'NT'
            cfg['root_steps'] = {'part1': part1, 'part2': {k: cfg['root'][k] for k in cfg['root'] if k in later}, 'pre_doc': pre_doc}
    if lv['history'].startswith('other_root'):
        if lv['other'] == 'nometa' and engine != 'v1load':
            cfg['other'] = None
        elif lv['other'] == 'same':
            cfg['other'] = dict(cfg['root']) if cfg['root'] is not None else None
        else:
            other = {}
            for s, vals in ENGINE_SETTINGS[engine].items():
                if s == 'auto_assign_tags' and probe != 'union':
                    continue
                vals = bvals.get(s, vals)
                other[s] = vals[1] if (cfg['root'] or {}).get(s, vals[0]) == vals[0] else vals[0]
            if engine == 'v1load':
                other['v1'] = True
            cfg['other'] = other
    if engine != 'dump':
        cfg['doc_type'] = lv['doc_type']
        cfg['docs'] = probe_docs(cfg)
    return cfg


def reader_key(cfg):
    """tag key a Union over the nested class reads (= the member's effective tag key; its own is unset by construction)."""
    return tag_key_of(effective(cfg['nested'], cfg['root']))


def probe_docs(cfg):
    eng = cfg['engine']
    docs = [{'my_val': 1}, {'myVal': 2}, {'my_val': 3, 'zzz': 0}, {'my_val': 4, '__tag__': 'NT'}, {'my_val': 5, 'kA': 'NT'},
            {'my_val': 6, 'kB': 'NT'}, {'zk': 7}, {'nk': 8}]
    if eng == 'v1load':
        docs += [{'my-val': 9}]
    if cfg['probe'] == 'union':
        e = effective(cfg['nested'], cfg['root'])
        # the members UA/UB have no Meta: their tag key is the root's (when it cascades) or the default
        mk = tag_key_of(effective(None, cfg['root']))
        docs = [{'u': {'x': 1, mk: 'UB'}}]
    if 'union' in cfg['shape']:
        rk = reader_key(cfg)
        docs = [dict(d, **{rk: 'NT'}) for d in docs if rk not in d]
    return docs


# --------------------------------------------------------------------------------------
# expected outcomes and comparison
def in_region_F22(cfg):
    """F22: the class containing a Union-of-dataclasses field sets auto_assign_tags itself, and the value differs from
    the one the ROOT's cascading config provides (False when the root has no Meta or recursive=False): the Union
    reads auto_assign_tags from the root config, not from the merged Meta of the class that contains it."""
    if cfg['probe'] != 'union':
        return False
    root = cfg['root']
    provided = False if (root is None or root.get('recursive', True) is False) else bool(root.get('auto_assign_tags', False))
    own = (cfg['nested'] or {}).get('auto_assign_tags')
    if by_value(cfg):
        # reached by value only: the class's own dump-function generation runs the auto-tag step (merged Meta), so an
        # own False is respected; an own True still meets a Union parser that reads the root's config
        return bool(own) and not provided
    return own is not None and bool(own) != provided


def expected_dump(cfg, e=None):
    if e is None:
        e = effective(cfg['nested'], cfg['root'])
    union = None
    if cfg['probe'] == 'union':
        items = [[{'str': 'x'}, {'int': '1'}]]
        eu = effective(None, cfg['root'])
        ku = dump_key('x', eu.get('key_transform_with_dump'))
        items = [[{'str': ku}, {'int': '1'}]]
        if eu.get('skip_if') is not None and cond_holds(eu['skip_if'], 1):
            items = []
        if e.get('auto_assign_tags'):
            items.append([{'str': tag_key_of(eu)}, {'str': 'UB'}])
        union = {'dict': items}
    return ref_dump(e, N_FIELDS, cfg['catchall'], union)


def norm_dump(nested):
    """[(key, value)] from the canonical dict; a dict-valued entry is kept canonical."""
    return [(k['str'], v) for k, v in nested.get('dict', [])]


def check_dump(cfg, res, e=None):
    """None if the nested part of the dump is as expected under effective (or under the given Meta e), else a description."""
    if res.get('setup'):
        return 'class definition failed: %s %s' % (res['setup']['err'], res['setup'].get('msg'))
    r = res['results'][0]
    if 'err' in r:
        return 'dump raised %s: %s' % (r['err'], (r.get('msg') or '')[:200])
    got = norm_dump(r['ok']['nested'])
    exp = expected_dump(cfg, e)
    if cfg['probe'] == 'union' and has_earlier_use(cfg):
        # auto-tag assignment after earlier uses of the class: C13 histories
        ku = dump_key('u', (e if e is not None else effective(cfg['nested'], cfg['root'])).get('key_transform_with_dump'))
        got = [(k, v) for k, v in got if k != ku]
        exp = [(k, v) for k, v in exp if k != ku]
    if sorted(map(json.dumps, got)) != sorted(json.dumps([k, v]) for k, v in exp):
        return 'nested dump %r, expected under effective %r' % (got, exp)
    # the root's own part behaves under the root's own Meta
    got_r = norm_dump(r['ok']['root'])
    exp_r = ref_dump(cfg['root'] or {}, R_FIELDS)
    if sorted(map(json.dumps, got_r)) != sorted(json.dumps([k, v]) for k, v in exp_r):
        return 'root part of the dump %r, expected under its own Meta %r' % (got_r, exp_r)
    return None


def check_load(cfg, res, e=None):
    if res.get('setup'):
        return 'class definition failed: %s %s' % (res['setup']['err'], res['setup'].get('msg'))
    if e is None:
        e = effective(cfg['nested'], cfg['root'])
    for doc, r in zip(cfg['docs'], res['results']):
        if cfg['probe'] == 'union' and has_earlier_use(cfg):
            continue        # auto-tag assignment after earlier uses of the class: C13 histories
        if cfg['probe'] == 'union':
            want_ok = bool(e.get('auto_assign_tags'))
            if want_ok:
                if 'err' in r:
                    return 'doc %r: raised %s, expected the Union member UB (auto tags in effect)' % (doc, r['err'])
                u = r['ok']['fields']['u']
                if not (u and u.get('inst') == 'UB' and u['fields']['x'] == {'int': '1'}):
                    return 'doc %r: u loaded as %r, expected UB(x=1)' % (doc, u)
            elif 'err' not in r:
                return 'doc %r: loaded %r although no tags are assigned under effective' % (doc, r['ok'])
            continue
        exp = ref_load(e, {k: v for k, v in doc.items()}, cfg['engine'], cfg['catchall'])
        if exp[0] == 'err':
            if r.get('err') != exp[1]:
                return 'doc %r: got %s, expected %s' % (doc, r.get('err') or 'a value', exp[1])
        else:
            if 'err' in r:
                return 'doc %r: raised %s (%s), expected my_val=%r' % (doc, r['err'], (r.get('msg') or '')[:120], exp[1])
            if not r.get('is_N'):
                return 'doc %r: nested value is not an N' % (doc,)
            fv = r['ok']['fields']
            if fv['my_val'] != {'int': str(exp[1])}:
                return 'doc %r: my_val=%r, expected %r' % (doc, fv['my_val'], exp[1])
            if cfg['catchall']:
                got = {k['str']: v for k, v in (fv['extra'] or {}).get('dict', [])}
                want = {k: ({'str': v} if isinstance(v, str) else {'int': str(v)}) for k, v in exp[2].items()}
                if got != want:
                    return 'doc %r: CatchAll captured %r, expected %r' % (doc, got, want)
    return None


def check(cfg, res, e=None):
    if 'runner_error' in res:
        raise RuntimeError('c12 runner failed: %s' % res['runner_error'])
    return check_dump(cfg, res, e) if cfg['engine'] == 'dump' else check_load(cfg, res, e)


def gen_configs(ctx):
    quick = ctx.tier == 'quick'
    cfgs = []
    for engine in ('load', 'dump', 'v1load'):
        rng = ctx.sub_rng('cfg', engine)
        bvals = {}
        if engine == 'load':
            bvals['key_transform_with_load'] = ['SNAKE', rng.choice(['NONE', 'CAMEL', 'PASCAL', 'LISP'])]
        if engine == 'dump':
            bvals['key_transform_with_dump'] = rng.choice([['SNAKE', 'PASCAL'], ['PASCAL', 'LISP'], ['NONE', 'CAMEL'], ['LISP', 'SNAKE']])
        if engine == 'v1load':
            # single-word wrapper keys (n, inner) are spelled the same under these cases; PASCAL would rename them
            bvals['v1_key_case'] = rng.choice([['CAMEL', 'KEBAB'], ['SNAKE', 'CAMEL'], ['KEBAB', 'SNAKE']])
        f, shapes = factors(engine, rng, 6 if quick else 40)
        rows = pairwise_rows(f, rng, extra_random=40 if quick else 500)
        for row in rows:
            cfgs.append(mk_config(engine, f, shapes, row, rng, bvals))
        if not quick:   # full product shape x recursive on sampled rows
            for row in rng.sample(rows, 20):
                for si in range(len(shapes)):
                    for ri in range(3):
                        r2 = dict(row); r2['shape'] = si; r2['recursive'] = ri
                        cfgs.append(mk_config(engine, f, shapes, r2, rng, bvals))
    seen, out = set(), []
    for c in cfgs:
        k = json.dumps(c, sort_keys=True)
        if k not in seen:
            seen.add(k); out.append(c)
    return out


# --------------------------------------------------------------------------------------
# Coq side: encoders / decoders
PRELUDE = ''
ENGINE_COQ = {'load': 'LoadV0', 'dump': 'DumpV0', 'v1load': 'LoadV1'}


def coq_sval(v):
    if v is None:
        return 'VNone'
    if isinstance(v, bool):
        return '(VBool %s)' % ('true' if v else 'false')
    if isinstance(v, str):
        return '(VStr %s)' % coq_str(v)
    if isinstance(v, dict) and 'cond' in v:
        return '(VTok %d%%N)' % v['val']                 # EQ(3) / EQ(4)
    if isinstance(v, dict):                              # explicit key maps: root's = 1, nested's = 2
        return '(VTok %d%%N)' % (1 if ('zk' in v or 'zk' in v.values()) else 2)
    raise ValueError(v)


def coq_cmeta(m):
    if m is None:
        return 'None'
    return '(Some %s)' % coq_list(['(%s, %s)' % (coq_str(k), coq_sval(v)) for k, v in m.items()])


def coq_use(kind, root):
    return '{| u_kind := %s; u_root := %s |}' % ('UDump' if kind == 'dump' else 'ULoad',
                                                  'None' if root == 'ALONE' else '(Some %s)' % coq_cmeta(root))


def coq_hist(cfg):
    us = uses_of_nested(cfg)
    return coq_list([coq_use(k, r) for k, r in us[:-1]]), coq_use(*us[-1])


def decode_vector(s, engine):
    """behaviour vector printed by MetaMerge.show_behaviour -> settings dict the reference semantics understand."""
    f = s.split('|')
    assert len(f) == 15, s

    def val(x):
        if x in ('-', 'None'):
            return None
        if x in ('True', 'False'):
            return x == 'True'
        if x.startswith('s:'):
            return x[2:]
        if x.startswith('t:'):
            n = int(x[2:])
            return {3: EQ3, 4: EQ4, 1: 'ROOTMAP', 2: 'NESTEDMAP'}[n]
        raise ValueError(x)
    e = {}
    ld = val(f[0])
    if ld is not None:
        e['v1_key_case' if engine == 'v1load' else 'key_transform_with_load'] = ld
    for name, x in (('key_transform_with_dump', f[1]), ('skip_if', f[4]), ('skip_defaults_if', f[5]),
                    ('v1_on_unknown_key', f[7]), ('tag', f[8]), ('tag_key', f[9])):
        if val(x) is not None:
            e[name] = val(x)
    if f[2] == '1':
        e['marshal_date_time_as'] = 'TIMESTAMP'
    e['skip_defaults'] = f[3] == '1'
    e['raise_on_unknown_json_key'] = f[6] == '1'
    km = {'ROOTMAP': {'zk': 'my_val'}, 'NESTEDMAP': {'nk': 'my_val'}}
    if val(f[10]) is not None:
        e['json_key_to_field'] = km[val(f[10])]
    if val(f[11]) is not None:
        e['v1_field_to_alias'] = {'my_val': {'ROOTMAP': 'zk', 'NESTEDMAP': 'nk'}[val(f[11])]}
    e['auto_assign_tags'] = f[12] == '1'
    wl = {val(x) for x in f[13].split(',') if x}
    e['_whitelist'] = wl - ({tag_key_of(e)} if e.get('tag') else set())
    if val(f[14]) is not None and 'v1_field_to_alias' not in e:
        e['v1_field_to_alias'] = {'my_val': SPELL[val(f[14])]}     # the alias an earlier v1 load left in the class's table
    return e


# --------------------------------------------------------------------------------------
def check_with(cfg, res, e):
    """Outcome check against an explicitly given effective Meta e (decoded from the model's behaviour vector)."""
    return check(cfg, res, e)


def cascading(root):
    return not (root is None or root.get('recursive', True) is False)


def by_value(cfg):
    """the nested class N itself is reached by value only: a by-value position with no intermediate dataclass below it
    (an intermediate class M below the by-value position reaches N through M's own annotations again)."""
    sh = cfg['shape']
    last_bv = max([i for i, h in enumerate(sh) if h in BY_VALUE], default=-1)
    last_mid = max([i for i, h in enumerate(sh) if h == 'mid'], default=-1)
    return last_bv > last_mid


def has_earlier_use(cfg):
    return len(uses_of_nested(cfg)) > 1


def uses_of_nested(cfg):
    """(kind, root Meta or 'ALONE') for every use of the nested class, earlier uses first, the observation last."""
    h = cfg.get('history', 'none')
    out = []
    if h == 'nested_dump':
        out.append(('dump', 'ALONE'))
    elif h == 'nested_load':
        out.append(('load', 'ALONE'))
    elif h == 'other_root_dump':
        out.append(('dump', cfg.get('other')))
    elif h == 'other_root_load':
        out.append(('load', cfg.get('other')))
    if cfg.get('root_steps') and not any(h in BY_VALUE for h in cfg['shape']):
        # (a load cannot reach a class that is only present by value, so that earlier load did not use the nested class)
        # the root itself was used once with the other engine while only the first part of its Meta was bound
        out.append(('load' if cfg['engine'] == 'dump' else 'dump', cfg['root_steps']['part1']))
    out.append(('dump' if cfg['engine'] == 'dump' else 'load', cfg['root']))
    return out


SPELL = {None: 'my_val', 'SNAKE': 'my_val', 'CAMEL': 'myVal', 'PASCAL': 'MyVal', 'KEBAB': 'my-val'}


def leaky_effective(cfg):
    """What the UNCHANGED tree does for the nested class after earlier uses (finding F10 seen from C12): the per-class
    loader / dumper attributes written by bind_to, the dump-key table filled by the first generated dump function, the
    sticky timestamp hooks, the default engine's whitelisted tag keys and v1's alias table survive from use to use.
    Returns the Meta the observation behaves under according to that faithful description (equal to effective(...)
    when nothing leaks).  Skip rules, unknown-key policies, tag and emitted tag key never leak."""
    own = dict(cfg['nested'] or {})
    attr = {k: own.get(k) for k in ('key_transform_with_dump', 'key_transform_with_load', 'v1_key_case')}
    ts = own.get('marshal_date_time_as') == 'TIMESTAMP'
    dump_keys, have_dump_keys = None, False
    whitelist, stuck = set(), None
    e_use = own
    for kind, root in uses_of_nested(cfg):
        e_use = effective(cfg['nested'], None if root == 'ALONE' else root)
        if root != 'ALONE' and cascading(root):
            for k in attr:
                if e_use.get(k) is not None:
                    attr[k] = e_use[k]
            ts = ts or e_use.get('marshal_date_time_as') == 'TIMESTAMP'
        if kind == 'dump' and not have_dump_keys:
            dump_keys, have_dump_keys = attr['key_transform_with_dump'], True
        if kind == 'load':
            if e_use.get('v1'):
                if stuck is None and not (own.get('v1_field_to_alias')) and SPELL[attr['v1_key_case']] != 'my_val':
                    stuck = SPELL[attr['v1_key_case']]
            elif e_use.get('tag') is not None:
                whitelist.add(tag_key_of(e_use))
    e = dict(e_use)        # effective(nested, root) of the observation
    if cfg['engine'] == 'dump':
        e['key_transform_with_dump'] = dump_keys
        e['marshal_date_time_as'] = 'TIMESTAMP' if ts else None
    elif cfg['engine'] == 'load':
        e['key_transform_with_load'] = attr['key_transform_with_load']
        e['_whitelist'] = whitelist - ({tag_key_of(e)} if e.get('tag') else set())
    else:
        e['v1_key_case'] = attr['v1_key_case']
        if stuck is not None and not own.get('v1_field_to_alias'):
            e['v1_field_to_alias'] = {'my_val': stuck}
    return {k: v for k, v in e.items() if v is not None}


def in_region_F23(cfg):
    """F23 (C13): default engine, a Union member whose tag is auto-assigned while its load function already
    exists treats the tag key as an unknown key; visible when unknown keys raise for that member."""
    if cfg['engine'] != 'load' or cfg['probe'] != 'union':
        return False
    root = cfg['root']
    cascades = not (root is None or root.get('recursive', True) is False)
    return cascades and bool(root.get('auto_assign_tags')) and bool(root.get('raise_on_unknown_json_key'))


F22_ID = 'F22-auto-assign-tags-read-from-root-config'
F23_ID = 'F23-auto-tag-key-unknown-before-first-dump'
F10_ID = 'F10-C12-earlier-use-leaks-into-cascade'


def nontrivial(cfg):
    observed = set(ENGINE_SETTINGS[cfg['engine']])
    return cfg['root'] is not None and any(k in observed for m in (cfg['root'], cfg['nested'] or {}) for k in m)


def run(ctx):
    # ---- listed findings: replay the witnesses ----
    resolved = set()
    for f in ctx.findings():
        w = f.get('witness')
        if not isinstance(w, dict) or 'cfg' not in w or f['id'] not in (F22_ID, F10_ID):
            continue
        res = ctx.impl('c12', {'configs': [w['cfg']], 'jobs': 1})['results'][0]
        bad = check(w['cfg'], res)
        ctx.count(1, key='witness:' + f['id'])
        if bad is None:
            resolved.add(f['id'])      # repaired: the faithful model no longer applies inside that region
        ctx.known_finding(f['id'], still_fails=bad is not None,
                          what='%s [observed: %s]' % (f['what'][:400], (bad or 'behaves as effective')[:160].replace('\n', ' ')))

    for f in ctx.findings():
        w = f.get('witness')
        if not isinstance(w, dict) or 'scenario' not in w or f['id'] not in (F10P_ID, F10T_ID):
            continue
        bad0, obs, spec, simo, _ = m_eval_step(ctx, w['scenario'], w['step'])
        ctx.count(1, key='witness:' + f['id'])
        fails = bad0 is not None or obs != spec
        if fails and obs != simo:
            ctx.broken_tie('witness of %s: the table simulation no longer predicts the implementation' % f['id'], {'obs': obs, 'sim': simo})
        ctx.known_finding(f['id'], still_fails=fails,
                          what='%s [observed: %s; under effective(declared): %s]' % (f['what'][:400], json.dumps(obs)[:200], json.dumps(spec)[:200]))

    run_multi(ctx)

    cfgs = gen_configs(ctx)
    results = ctx.impl('c12', {'configs': cfgs, 'jobs': 14}, timeout=1500)['results']

    # ---- model: behaviour vector per distinct (engine, root, nested, history) ----
    def mkey(c):
        return json.dumps([c['engine'], c['root'], c['nested'], uses_of_nested(c), by_value(c)], sort_keys=True)
    triples, index = [], {}
    for c in cfgs:
        k = mkey(c)
        if k not in index:
            index[k] = len(triples)
            triples.append(c)
    model = None
    try:
        exprs = []
        for c in triples:
            h, u = coq_hist(c)
            exprs.append('show_hist %s %s %s %s' % ('true' if by_value(c) else 'false', coq_cmeta(c['nested']), h, u))
            exprs.append('show_impl %s %s %s' % (ENGINE_COQ[c['engine']], coq_cmeta(c['root']), coq_cmeta(c['nested'])))
            exprs.append('show_spec %s %s' % (coq_cmeta(c['root']), coq_cmeta(c['nested'])))
        out = ctx.coq(exprs, ['PyStr', 'MetaMerge'], prelude=PRELUDE)
        model = {k: (out[3 * i], out[3 * i + 1], out[3 * i + 2]) for k, i in index.items()}
    except Exception as e:  # noqa
        ctx.broken_tie('model evaluation failed: %s' % str(e)[:500])

    n_ties = 0
    for cfg, res in zip(cfgs, results):
        key = json.dumps(cfg, sort_keys=True)
        ctx.count(1, key=key, nontrivial=nontrivial(cfg))
        ctx.hist('engine', cfg['engine'])
        ctx.hist('shape_depth', len(cfg['shape']))
        ctx.hist('shape_head', cfg['shape'][0] if cfg['shape'] else 'direct')
        ctx.hist('root_recursive', str((cfg['root'] or {}).get('recursive', 'unset')) if cfg['root'] is not None else 'no Meta')
        ctx.hist('probe', cfg['probe'])
        ctx.hist('style', cfg['style'])
        r22, r23 = in_region_F22(cfg), in_region_F23(cfg)
        hist = cfg.get('history', 'none')
        ctx.hist('history', hist)
        ctx.hist('root_configured_in_steps', bool(cfg.get('root_steps')))
        ctx.hist('by_value_shape', 'N by value' if by_value(cfg) else ('above an intermediate class' if any(h in BY_VALUE for h in cfg['shape']) else 'typed'))
        if cfg['engine'] != 'dump':
            ctx.hist('doc_type', cfg.get('doc_type', 'dict'))
        # -- direct predicate: nested behaviour == behaviour under effective(own, root), whatever happened before --
        bad = check(cfg, res)
        if bad:
            if r22 and ctx.is_open_region(F22_ID):
                ctx.hist('known_region', F22_ID)
            elif r23 and ctx.is_open_region(F23_ID):
                ctx.hist('known_region', F23_ID)
            elif has_earlier_use(cfg) and ctx.is_open_region(F10_ID) and check(cfg, res, leaky_effective(cfg)) is None:
                # exactly the manifestation of F10 (per-class loader/dumper attributes, dump-key table, timestamp hooks,
                # whitelisted tag keys, v1 alias table surviving from the earlier use); anything else is a violation
                ctx.hist('known_region', F10_ID)
            else:
                ctx.violation('%s, shape %s, earlier use %s: %s' % (cfg['engine'], '/'.join(cfg['shape']) or 'direct', hist, bad),
                              {'kind': 'config', 'cfg': cfg})
        # -- correspondence: the Coq model (with the earlier uses) predicts the implementation's outcome --
        if model is not None:
            v_hist, v_impl, v_spec = model[mkey(cfg)]
            ctx.traces_validated += 1
            if not has_earlier_use(cfg) and v_hist.split('|')[:12] != v_impl.split('|')[:12]:
                ctx.broken_tie('Coq: show_hist with no earlier use differs from show_impl', {'cfg': cfg, 'hist': v_hist, 'impl': v_impl})
            if (v_hist.split('|')[12] != v_spec.split('|')[12]) != r22 and cfg['probe'] == 'union' and not has_earlier_use(cfg):
                ctx.disagreements_checked += 1
                ctx.broken_tie('Coq region in_region_auto and the harness region predicate disagree',
                               {'cfg': cfg, 'model_impl': v_impl, 'model_spec': v_spec})
            if r23:
                ctx.hist('model_comparison_skipped', F23_ID)
                continue
            if r22 and F22_ID in resolved:
                ctx.hist('model_comparison_skipped_resolved_finding', F22_ID)
                continue
            if has_earlier_use(cfg) and F10_ID in resolved:
                ctx.hist('model_comparison_skipped_resolved_finding', F10_ID)
                continue
            e_model = decode_vector(v_hist, cfg['engine'])
            if cfg['probe'] != 'union':
                e_model.pop('auto_assign_tags', None)
            bad_m = check_with(cfg, res, e_model)
            if bad_m:
                n_ties += 1
                ctx.disagreements_checked += 1
                if n_ties <= 5:
                    ctx.broken_tie('MetaMerge model and implementation disagree: %s' % bad_m[:300],
                                   {'cfg': cfg, 'model_vector': v_hist})
    for c, r in list(zip(cfgs, results))[:3]:
        ctx.sample({'config': {k: v for k, v in c.items() if k != 'docs'}, 'docs': c.get('docs', [])[:3],
                    'impl_outcomes': [x if 'err' not in x else {'err': x['err']} for x in r.get('results', [])][:3]})
    ctx.notes.append('each of the %d configurations ran in its own interpreter' % len(cfgs))


# ======================================================================================
# MULTI-ROOT HISTORIES over the global _META table (one interpreter per history)
#
# Classes of a scenario: UA, UB (leaf members of Unions), N (optionally with `u: Union[UA, UB, None]`), M (`inner: N`),
# roots R1..R3 (`n: <shape over N / M>`, optionally their own `v: Union[UA, UB, None]`).  Every class has the Meta the
# USER declares (or none).  Operations, in any order: define a root | a later LoadMeta/DumpMeta(...).bind_to(class)
# (`_META[cls] &= ...`) | first dump of a root | first load of a root.
#   * P0 (direct, on the implementation's own _META table): after every operation the own settings of every class's
#     registered Meta are the declared ones, plus at most `tag = <class name>` (auto-tag bookkeeping).
#   * P1 (direct): outcome of every first dump / first load == the history-free reference under
#     effective(declared_own(class), declared Meta(root)).
#   * P2 (direct): outcome == outcome of the same root and operation ALONE in a pristine interpreter.
#   * correspondence: the Coq table model (MetaMergeTable.run_hist) predicts the _META snapshot after every operation;
#     the Python table simulation (MultiSim: the listed per-class global tables of finding F10-C12 / F22 / F23)
#     predicts every outcome.
MULTI_SETTINGS = {
    'v0': {'key_transform_with_dump': ['SNAKE', 'PASCAL'], 'marshal_date_time_as': ['ISO_FORMAT', 'TIMESTAMP'],
           'skip_defaults': [True, False], 'raise_on_unknown_json_key': [True, False], 'tag_key': ['kA', 'kB'],
           'auto_assign_tags': [True, False]},
    'v1': {'v1_on_unknown_key': ['RAISE', 'IGNORE'], 'tag_key': ['kA', 'kB'], 'auto_assign_tags': [True, False]},
}
M_FIELDS = {'UA': [('my_val', 7, 0), ('dflt', 5, 5)], 'UB': [('my_val', 7, 0), ('dflt', 5, 5)],
            'N': [('my_val', 7, 0), ('when', 'WHEN', 'WHEN0'), ('dflt', 5, 5)], 'M': [('my_val', 7, 0)], 'R': [('my_val', 7, 0)]}
WHEN0_ISO = '2000-01-01T00:00:00+00:00'
MULTI_SHAPES = [[], ['opt'], ['list'], ['dict'], ['tuple'], ['mid'], ['list', 'mid'], ['dict', 'opt']]
SPECIAL = NEVER_INHERITED
NULL = '<ExplicitNull>'


class Outcome(Exception):
    """an error outcome (exception class name) of the reference / simulation"""


def m_decl(sc, c):
    if c in sc['classes']:
        return sc['classes'][c]['meta']
    return [r for r in sc['roots'] if r['name'] == c][0]['meta']


def m_root(sc, name):
    return [r for r in sc['roots'] if r['name'] == name][0]


def m_field_names(sc, c):
    if c in ('UA', 'UB'):
        return ['my_val', 'dflt']
    if c == 'N':
        return ['my_val', 'when', 'dflt'] + (['u'] if sc['classes']['N'].get('union') else [])
    if c == 'M':
        return ['inner', 'my_val']
    r = m_root(sc, c)
    return (['n'] if r.get('shape') is not None else []) + ['my_val'] + (['v'] if r.get('v') else [])


def m_wrap(shape, leaf, mid):
    if not shape:
        return leaf
    h, rest = shape[0], shape[1:]
    if h == 'mid':
        return mid(leaf)
    inner = m_wrap(rest, leaf, mid)
    return {'opt': inner, 'list': [inner], 'dict': {'k': inner}, 'tuple': [inner, 1]}[h]


def m_plain(c):
    """canonical outcome (harness/impl/_util.canon) -> plain comparable structure."""
    if isinstance(c, dict):
        if 'inst' in c:
            return {'<%s>' % c['inst']: {k: m_plain(v) for k, v in c['fields'].items()}}
        if 'dict' in c:
            return {m_plain(k): m_plain(v) for k, v in c['dict']}
        for t in ('list', 'tuple'):
            if t in c:
                return [m_plain(x) for x in c[t]]
        if 'int' in c:
            return int(c['int'])
        for t in ('str', 'bool', 'datetime'):
            if t in c:
                return c[t]
        if 'err' in c:
            return 'ERR:' + c['err']
        if 'ok' in c:
            return m_plain(c['ok'])
    return c


def m_update_decl(decl, c, meta):
    """the USER binds Meta `meta` to class c (class definition, LoadMeta/DumpMeta(...).bind_to): first binding registers
    it, a further one overlays every setting it carries."""
    if meta is None:
        return
    if decl.get(c) is None:
        decl[c] = dict(meta)
    else:
        decl[c].update(meta)


# ---- the history-free reference (transcribed from the property text) ------------------------------------------
class MultiSpec:
    def __init__(self, sc, decl):
        self.sc, self.decl, self.fam = sc, decl, sc['family']

    def eff(self, c, rname):
        rm = self.decl.get(rname)
        if c == rname:
            return dict(rm or {})
        return effective(self.decl.get(c), rm)

    def member_tag(self, holder, member, rname):
        """documented: an explicit tag, else the class name when auto_assign_tags is in effect for the class that
        contains the Union."""
        d = self.decl.get(member) or {}
        if d.get('tag'):
            return d['tag']
        return member if self.eff(holder, rname).get('auto_assign_tags') else None

    def dump_obj(self, c, rname, tag=None):
        e = self.eff(c, rname)
        if tag and not e.get('tag'):
            e = dict(e, tag=tag)
        fields = M_FIELDS['R' if c == rname else c]
        out = {}
        r = m_root(self.sc, rname)
        if c == rname and r.get('shape') is not None:
            out[dump_key('n', e.get('key_transform_with_dump'))] = m_wrap(
                r['shape'], self.dump_obj('N', rname), lambda leaf: self.dump_mid(leaf, rname))
        for k, v in ref_dump(dict(e, tag=None), fields):
            out[k] = int(v['int']) if 'int' in v else v['str']
        if c == 'N' and self.sc['classes']['N'].get('union'):
            out[dump_key('u', e.get('key_transform_with_dump'))] = self.dump_obj('UB', rname, self.member_tag('N', 'UB', rname))
        if c == rname and r.get('v'):
            out[dump_key('v', e.get('key_transform_with_dump'))] = self.dump_obj('UA', rname, self.member_tag(rname, 'UA', rname))
        if e.get('tag'):
            out[tag_key_of(e)] = e['tag']
        return out

    def dump_mid(self, leaf, rname):
        e = self.eff('M', rname)
        out = {dump_key('inner', e.get('key_transform_with_dump')): leaf}
        for k, v in ref_dump(dict(e, tag=None), M_FIELDS['M']):
            out[k] = int(v['int'])
        if e.get('tag'):
            out[tag_key_of(e)] = e['tag']
        return out

    def raises(self, e):
        return bool(e.get('raise_on_unknown_json_key')) if self.fam == 'v0' else e.get('v1_on_unknown_key') == 'RAISE'

    def load_obj(self, c, doc, rname, tagged=False):
        e = self.eff(c, rname)
        if not isinstance(doc, dict):
            raise Outcome('ParseError')
        vals = {'my_val': 0, 'dflt': 5, 'when': WHEN0_ISO, 'u': None, 'v': None}
        out = {f: vals.get(f) for f in m_field_names(self.sc, c)}
        seen = set()
        for k, v in doc.items():
            if k in out:
                seen.add(k)
                out[k] = self.load_field(c, k, v, rname)
            elif (tagged or e.get('tag')) and k == tag_key_of(e):
                continue
            elif self.raises(e):
                raise Outcome('UnknownKeysError')
        for req in ('n', 'inner'):
            if req in out and req not in seen:
                raise Outcome('MissingFields')
        return {'<%s>' % c: out}

    def load_field(self, c, f, v, rname):
        if f in ('my_val', 'dflt'):
            return v
        if f == 'inner':
            return self.load_obj('N', v, rname)
        if f == 'n':
            return self.load_shape(m_root(self.sc, rname)['shape'], v, rname)
        if f in ('u', 'v'):
            if v is None:
                return None
            key = tag_key_of(self.eff(c, rname))
            if isinstance(v, dict) and key in v:
                for mbr in ('UA', 'UB'):
                    t = self.member_tag(c, mbr, rname)
                    if t and t == v[key]:
                        return self.load_obj(mbr, v, rname, tagged=True)
            raise Outcome('ParseError')
        raise AssertionError(f)

    def load_shape(self, shape, v, rname):
        if not shape:
            return self.load_obj('N', v, rname)
        h, rest = shape[0], shape[1:]
        if h == 'mid':
            return self.load_obj('M', v, rname)
        if h == 'opt':
            return None if v is None else self.load_shape(rest, v, rname)
        if h == 'list':
            return [self.load_shape(rest, x, rname) for x in v]
        if h == 'dict':
            return {k: self.load_shape(rest, x, rname) for k, x in v.items()}
        if h == 'tuple':
            return [self.load_shape(rest, v[0], rname), v[1]]
        raise AssertionError(h)


def m_docs(sc, decl, rname):
    """documents for the first load of a root: exact field names; Union values carry the tag the documentation
    promises under the key the root's cascade provides; one document per class with an unknown key."""
    spec = MultiSpec(sc, decl)
    r = m_root(sc, rname)
    mk = tag_key_of(effective(None, decl.get(rname)))

    def member(c, holder, extra=None):
        d = {'my_val': 2, mk: spec.member_tag(holder, c, rname) or c}
        d.update(extra or {})
        return d

    def ndoc(union, extra=None, uextra=None):
        d = {'my_val': 1}
        if union and sc['classes']['N'].get('union'):
            d['u'] = member('UB', 'N', uextra)
        d.update(extra or {})
        return d

    def full(nd, extra=None, mextra=None):
        d = {}
        if r.get('shape') is not None:
            d['n'] = m_wrap(r['shape'], nd, lambda leaf: dict({'inner': leaf, 'my_val': 3}, **(mextra or {})))
        d.update(extra or {})
        return d
    docs = []
    vfull = {'v': member('UA', rname)} if r.get('v') else {}
    docs.append(full(ndoc(True), vfull))
    if r.get('shape') is not None:
        docs.append(full(ndoc(False, {'zzz': 0})))
        if 'mid' in r['shape']:
            docs.append(full(ndoc(False), None, {'zzz': 0}))
        if sc['classes']['N'].get('union'):
            docs.append(full(ndoc(True, None, {'zzz': 0})))
    if r.get('v'):
        docs.append(full(ndoc(False), {'v': member('UA', rname, {'zzz': 0})}))
    docs.append(full(ndoc(False), {'zzz': 0}))
    return docs


# ---- the table simulation: what the UNCHANGED tree does (per-class global tables) ---------------------------------
class MultiSim:
    """Abstract interpreter of the tables the library keeps per class across roots: _META (own settings; the library
    itself only ever adds `tag`), the dumper attribute / timestamp hooks written by bind_to, the dump-key table, the
    default engine's cached field parsers (FIELD_NAME_TO_LOAD_PARSER: built under the FIRST config the class is loaded
    with, holding the nested load functions generated then) and its json-key table (whitelisted tag keys, remembered
    unknown keys).  v1 generates everything anew per root.  With `ideal` tables nothing survives, which must give
    MultiSpec's outcomes (cross-checked on every scenario)."""

    MECHANISMS = ('tables', 'parsers', 'tags')

    def __init__(self, sc, off=()):
        """off: mechanisms that do NOT survive from one operation to the next (used to attribute a deviation):
        'tables' = dumper attribute / timestamp hooks / dump-key table, 'parsers' = cached field parsers + json-key
        table of the default load engine, 'tags' = auto-assigned tags in the classes' own Metas."""
        self.sc, self.fam, self.off = sc, sc['family'], set(off)
        self.meta, self.dp, self.ts, self.dump_keys, self.j2f, self.parsers = {}, {}, {}, {}, {}, {}
        self.user = []                       # user-level bindings so far (class, meta)
        for c in ('UA', 'UB', 'N', 'M'):
            self.define(c, sc['classes'][c]['meta'])

    def begin_use(self):
        """forget what the disabled mechanisms would have kept from earlier operations."""
        if 'tables' in self.off:
            self.dp, self.ts, self.dump_keys = {}, {}, {}
            for c, m in self.user:
                self.bind_tables(c, m)
        if 'parsers' in self.off:
            self.parsers = {}
            self.j2f = {c: {} for c in self.j2f}
        if 'tags' in self.off:
            decl = {}
            for c, m in self.user:
                m_update_decl(decl, c, m)
            for c in self.meta:
                self.meta[c] = dict(decl[c]) if decl.get(c) is not None else None

    def define(self, c, meta):
        self.meta.setdefault(c, None)
        self.j2f.setdefault(c, {})
        if meta is not None:
            self.user_bind(c, meta)

    def user_bind(self, c, meta):
        self.user.append((c, dict(meta)))
        self.bind_tables(c, meta)
        if self.meta.get(c) is None:
            self.meta[c] = dict(meta)
        else:
            self.meta[c].update(meta)          # `_META[cls] &= other`

    def bind_tables(self, c, m):
        if m.get('key_transform_with_dump') is not None:
            self.dp[c] = m['key_transform_with_dump']
        if m.get('marshal_date_time_as') == 'TIMESTAMP':
            self.ts[c] = True

    def snapshot(self):
        return {c: (dict(m) if m is not None else None) for c, m in self.meta.items()}

    def config_of(self, rname):
        m = self.meta.get(rname)
        if self.fam == 'v1':
            return m if (m or {}).get('recursive', True) else None
        return m if (m is not None and m.get('recursive', True)) else None

    def merged(self, c, config):
        own = self.meta.get(c)
        if config is None:
            return dict(own or {})
        out = {k: v for k, v in config.items() if k not in SPECIAL}
        out.update(own or {})
        return out

    def assign_tag(self, c):
        if self.meta.get(c) is None:
            self.meta[c] = {'tag': c}
        else:
            self.meta[c]['tag'] = c

    # -- default engine: load function generation
    def field_types(self, c):
        if c in ('UA', 'UB'):
            return {}
        if c == 'N':
            return {'u': ('union',)} if self.sc['classes']['N'].get('union') else {}
        if c == 'M':
            return {'inner': ('cls', 'N')}
        r = m_root(self.sc, c)
        out = {}
        if r.get('shape') is not None:
            out['n'] = ('shape', r['shape'])
        if r.get('v'):
            out['v'] = ('union',)
        return out

    def build_parsers(self, c, config, save):
        if c in self.parsers:
            return self.parsers[c]
        ps = {}
        for f, t in self.field_types(c).items():
            if t[0] == 'union':
                up = {'tag_key': ((config.get('tag_key') or DEFAULT_TAG_KEY) if config is not None else DEFAULT_TAG_KEY), 'tags': {}}
                auto = bool(config.get('auto_assign_tags')) if config is not None else False
                for mbr in ('UA', 'UB'):
                    fn = self.gen_load(mbr, config)           # the member's load function exists BEFORE its tag is assigned
                    mm = self.meta.get(mbr) or {}
                    tag = mm.get('tag')
                    if not tag and (auto or mm.get('auto_assign_tags')):
                        tag = mbr
                        self.assign_tag(mbr)
                    if tag:
                        up['tags'][tag] = fn
                ps[f] = ('union', up)
            elif t[0] == 'cls':
                ps[f] = ('cls', self.gen_load(t[1], config))
            else:
                leaf = 'M' if 'mid' in t[1] else 'N'
                ps[f] = ('shape', t[1], self.gen_load(leaf, config))
        if save:
            self.parsers[c] = ps
        return ps

    def gen_load(self, c, config, main=False):
        m = self.merged(c, None if main else config)
        if not main and config is not None:
            self.bind_tables(c, m)
        ps = self.build_parsers(c, config, save=True)
        if m.get('tag') is not None:
            tk = m.get('tag_key', DEFAULT_TAG_KEY)
            if tk not in m_field_names(self.sc, c):
                self.j2f[c][tk] = NULL
        return {'cls': c, 'raise': bool(m.get('raise_on_unknown_json_key')), 'parsers': ps}

    def run_load(self, fn, doc):
        c = fn['cls']
        if not isinstance(doc, dict):
            raise Outcome('ParseError')
        j = self.j2f[c]
        names = m_field_names(self.sc, c)
        vals = {'my_val': 0, 'dflt': 5, 'when': WHEN0_ISO, 'u': None, 'v': None}
        out = {f: vals.get(f) for f in names}
        seen = set()
        for k, v in doc.items():
            if k in j:
                f = j[k]
            elif k in names:
                f = j[k] = k
            elif fn['raise']:
                raise Outcome('UnknownKeysError')
            else:
                f = j[k] = NULL
            if f is not NULL:
                seen.add(f)
                out[f] = self.run_parser(fn['parsers'].get(f), v)
        for req in ('n', 'inner'):
            if req in out and req not in seen:
                raise Outcome('MissingFields')
        return {'<%s>' % c: out}

    def run_parser(self, p, v):
        if p is None:
            return v
        if p[0] == 'cls':
            return self.run_load(p[1], v)
        if p[0] == 'union':
            if v is None:
                return None
            up = p[1]
            if isinstance(v, dict) and up['tag_key'] in v and v[up['tag_key']] in up['tags']:
                return self.run_load(up['tags'][v[up['tag_key']]], v)
            raise Outcome('ParseError')
        return self.run_shape(p[1], p[2], v)

    def run_shape(self, shape, fn, v):
        if not shape or shape[0] == 'mid':
            return self.run_load(fn, v)
        h, rest = shape[0], shape[1:]
        if h == 'opt':
            return None if v is None else self.run_shape(rest, fn, v)
        if h == 'list':
            return [self.run_shape(rest, fn, x) for x in v]
        if h == 'dict':
            return {k: self.run_shape(rest, fn, x) for k, x in v.items()}
        return [self.run_shape(rest, fn, v[0]), v[1]]

    def load_v0(self, rname, docs):
        config = self.config_of(rname)
        m = self.merged(rname, None)
        ps = self.build_parsers(rname, config, save=True)
        if m.get('tag') is not None and m.get('tag_key', DEFAULT_TAG_KEY) not in m_field_names(self.sc, rname):
            self.j2f[rname][m.get('tag_key', DEFAULT_TAG_KEY)] = NULL
        fn = {'cls': rname, 'raise': bool(m.get('raise_on_unknown_json_key')), 'parsers': ps}
        out = []
        for d in docs:
            try:
                out.append(self.run_load(fn, d))
            except Outcome as e:
                out.append('ERR:' + e.args[0])
        return out

    # -- v1: everything is generated anew for the root
    def load_v1(self, rname, docs):
        config = self.config_of(rname)
        try:
            fn = self.gen_v1(rname, config, main=True)
        except Outcome as e:
            return ['ERR:' + e.args[0] for _ in docs]
        out = []
        for d in docs:
            try:
                out.append(self.run_v1(fn, d))
            except Outcome as e:
                out.append('ERR:' + e.args[0])
        return out

    def gen_v1(self, c, config, main=False):
        m = self.merged(c, None if main else config)
        ps = {}
        for f, t in self.field_types(c).items():
            if t[0] == 'union':
                up = {'tag_key': ((config or {}).get('tag_key') or DEFAULT_TAG_KEY), 'tags': {}}
                auto = bool((config or {}).get('auto_assign_tags'))
                for mbr in ('UA', 'UB'):
                    mm = self.meta.get(mbr) or {}
                    tag = mm.get('tag')
                    if not tag and (auto or mm.get('auto_assign_tags')):
                        tag = mbr
                        self.assign_tag(mbr)
                    if not tag:
                        raise Outcome('ValueError')     # "Cannot parse dataclass types in a Union without ..."
                    up['tags'][tag] = self.gen_v1(mbr, config)
                ps[f] = ('union', up)
            elif t[0] == 'cls':
                ps[f] = ('cls', self.gen_v1(t[1], config))
            else:
                ps[f] = ('shape', t[1], self.gen_v1('M' if 'mid' in t[1] else 'N', config))
        skip = {m.get('tag_key', DEFAULT_TAG_KEY)} if m.get('tag') is not None else set()
        return {'cls': c, 'raise': m.get('v1_on_unknown_key') == 'RAISE', 'parsers': ps, 'skip': skip}

    def run_v1(self, fn, doc):
        c = fn['cls']
        if not isinstance(doc, dict):
            raise Outcome('ParseError')
        names = m_field_names(self.sc, c)
        vals = {'my_val': 0, 'dflt': 5, 'when': WHEN0_ISO, 'u': None, 'v': None}
        out = {f: vals.get(f) for f in names}
        for f in names:                          # generated code reads the fields in declaration order
            if f in doc:
                p = fn['parsers'].get(f)
                out[f] = self.run_parser_v1(p, doc[f])
            elif f in ('n', 'inner'):
                raise Outcome('MissingFields')
        if fn['raise'] and any(k not in names and k not in fn['skip'] for k in doc):
            raise Outcome('UnknownKeysError')
        return {'<%s>' % c: out}

    def run_parser_v1(self, p, v):
        if p is None:
            return v
        if p[0] == 'cls':
            return self.run_v1(p[1], v)
        if p[0] == 'union':
            if v is None:
                return None
            up = p[1]
            if isinstance(v, dict) and up['tag_key'] in v and v[up['tag_key']] in up['tags']:
                return self.run_v1(up['tags'][v[up['tag_key']]], v)
            raise Outcome('ParseError')
        return self.run_shape_v1(p[1], p[2], v)

    def run_shape_v1(self, shape, fn, v):
        if not shape or shape[0] == 'mid':
            return self.run_v1(fn, v)
        h, rest = shape[0], shape[1:]
        if h == 'opt':
            return None if v is None else self.run_shape_v1(rest, fn, v)
        if h == 'list':
            return [self.run_shape_v1(rest, fn, x) for x in v]
        if h == 'dict':
            return {k: self.run_shape_v1(rest, fn, x) for k, x in v.items()}
        return [self.run_shape_v1(rest, fn, v[0]), v[1]]

    # -- dump
    def gen_dump(self, c, config, main=False):
        m = self.merged(c, None if main else config)
        if not main and config is not None:
            self.bind_tables(c, m)
        if c not in self.dump_keys:
            self.dump_keys[c] = self.dp.get(c)          # the dump-key table is filled once, by the first dump function
        if m.get('auto_assign_tags'):
            self.build_parsers(c, config, save=False)   # dump-side auto-tag step (does not cache the class's own parsers)
        return {'cls': c, 'keys': self.dump_keys[c], 'ts': bool(self.ts.get(c)), 'skip_defaults': bool(m.get('skip_defaults')),
                'tag': m.get('tag'), 'tag_key': m.get('tag_key') or DEFAULT_TAG_KEY}

    def dump_obj(self, c, config, main=False, rname=None):
        fn = self.gen_dump(c, config, main)
        e = {'key_transform_with_dump': fn['keys'], 'skip_defaults': fn['skip_defaults'],
             'marshal_date_time_as': 'TIMESTAMP' if fn['ts'] else None}
        out = {}
        if main:
            r = m_root(self.sc, c)
            if r.get('shape') is not None:
                out[dump_key('n', fn['keys'])] = self.dump_shape(r['shape'], config)
        if c == 'M':
            out[dump_key('inner', fn['keys'])] = self.dump_obj('N', config)
        for k, v in ref_dump(e, M_FIELDS['R' if main else c]):
            out[k] = int(v['int']) if 'int' in v else v['str']
        if c == 'N' and self.sc['classes']['N'].get('union'):
            out[dump_key('u', fn['keys'])] = self.dump_obj('UB', config)
        if main and m_root(self.sc, c).get('v'):
            out[dump_key('v', fn['keys'])] = self.dump_obj('UA', config)
        if fn['tag']:
            out[fn['tag_key']] = fn['tag']
        return out

    def dump_shape(self, shape, config):
        if not shape:
            return self.dump_obj('N', config)
        h, rest = shape[0], shape[1:]
        if h == 'mid':
            return self.dump_obj('M', config)
        inner = self.dump_shape(rest, config)
        return {'opt': inner, 'list': [inner], 'dict': {'k': inner}, 'tuple': [inner, 1]}[h]

    def dump(self, rname):
        return self.dump_obj(rname, self.config_of(rname), main=True)


def m_alone(sc, decl_at, op):
    """the same root, the same operation, nothing else: the scenario for a pristine interpreter.  Classes carry the
    Metas declared at that point of the history (a single binding each)."""
    classes = {c: {'meta': decl_at.get(c), 'style': sc['classes'][c]['style'] if sc['classes'][c]['meta'] is not None else 'load',
                   **({'union': True} if sc['classes'][c].get('union') else {})} for c in ('UA', 'UB', 'N', 'M')}
    r = dict(m_root(sc, op['root']), meta=decl_at.get(op['root']))
    if r['meta'] is not None and m_root(sc, op['root'])['meta'] is None:
        r['style'] = 'load'
    return {'kind': 'multi', 'family': sc['family'], 'classes': classes, 'roots': [r],
            'ops': [{'op': 'define', 'root': r['name']}, dict(op)]}


def m_declared_history(sc):
    """declared Metas (what the USER bound) after every operation."""
    decl = {c: (dict(sc['classes'][c]['meta']) if sc['classes'][c]['meta'] is not None else None) for c in ('UA', 'UB', 'N', 'M')}
    out = []
    for op in sc['ops']:
        if op['op'] == 'define':
            r = m_root(sc, op['root'])
            decl.setdefault(r['name'], None)
            m_update_decl(decl, r['name'], r['meta'])
        elif op['op'] == 'bind':
            m_update_decl(decl, op['cls'], op['meta'])
        out.append({c: (dict(m) if m is not None else None) for c, m in decl.items()})
    return out


def m_finish(sc):
    """fill in the load documents (they depend on the Metas declared at that point)."""
    hist = m_declared_history(sc)
    for op, decl in zip(sc['ops'], hist):
        if op['op'] == 'load':
            op['docs'] = m_docs(sc, decl, op['root'])
    return sc


def m_meta_for(fam, rng, keys, level):
    m = {}
    for k in keys:
        lv = level(k)
        if lv:
            m[k] = MULTI_SETTINGS[fam][k][lv - 1]
    return m


def gen_multi(ctx):
    quick = ctx.tier == 'quick'
    rng = ctx.sub_rng('multi')
    out = []

    def classes(fam, rng, n_union, plain):
        v1 = {'v1': True} if fam == 'v1' else {}
        cs = {}
        for c in ('UA', 'UB'):
            kind = 'none' if plain else rng.choice(['none', 'none', 'tag', 'setting'])
            meta = None
            if kind == 'tag':
                meta = dict({'tag': 'T' + c[1]}, **v1)
            elif kind == 'setting':
                k = rng.choice([s for s in MULTI_SETTINGS[fam] if s not in ('auto_assign_tags', 'tag_key')])
                meta = dict({k: rng.choice(MULTI_SETTINGS[fam][k])}, **v1)
            cs[c] = {'meta': meta, 'style': rng.choice(['inner', 'load', 'dump', 'split'])}
        for c in ('N', 'M'):
            meta = None
            if not plain and rng.random() < 0.5:
                ks = [s for s in MULTI_SETTINGS[fam] if not (c == 'N' and n_union and s == 'tag_key')]
                meta = dict(m_meta_for(fam, rng, rng.sample(ks, rng.randrange(0, 3)), lambda k: rng.choice([1, 2])), **v1)
                if rng.random() < 0.25:
                    meta['tag'] = c + 'T'
            cs[c] = {'meta': meta, 'style': rng.choice(['inner', 'load', 'dump', 'split'])}
        cs['N']['union'] = n_union
        return cs

    def uses(fam, names):
        kinds = ['load'] if fam == 'v1' else ['dump', 'load']
        return [{'op': k, 'root': n} for n in names for k in kinds]

    # (a) systematic: per cascading setting, two roots with the two values, every order of the first dump / first load
    for fam in ('v0', 'v1'):
        for s, vals in MULTI_SETTINGS[fam].items():
            v1 = {'v1': True} if fam == 'v1' else {}
            for auto in ((True, True), (True, False), (False, True)):
                if s == 'auto_assign_tags' and auto != (True, True):
                    continue
                metas = []
                for i in (0, 1):
                    m = dict({s: vals[i]}, **v1)
                    if s != 'auto_assign_tags':
                        m['auto_assign_tags'] = auto[i]
                    metas.append(m)
                us = uses(fam, ['R1', 'R2'])
                perms = list(itertools.permutations(us))
                if quick:
                    perms = rng.sample(perms, min(len(perms), 4 if auto == (True, True) else 2))
                for perm in perms:
                    roots = [{'name': 'R1', 'meta': metas[0], 'style': rng.choice(['inner', 'load', 'split']), 'shape': [], 'v': True},
                             {'name': 'R2', 'meta': metas[1], 'style': rng.choice(['inner', 'load', 'split']),
                              'shape': rng.choice(MULTI_SHAPES), 'v': True}]
                    sc = {'kind': 'multi', 'family': fam, 'classes': classes(fam, rng, True, True), 'roots': roots,
                          'ops': [{'op': 'define', 'root': 'R1'}, {'op': 'define', 'root': 'R2'}] + [dict(u) for u in perm]}
                    out.append(m_finish(sc))
    # (b) random: 2..3 roots, any declared Metas, definitions / later bindings interleaved with the uses
    n_random = 60 if quick else 1500
    for _ in range(n_random):
        fam = rng.choice(['v0', 'v0', 'v1'])
        v1 = {'v1': True} if fam == 'v1' else {}
        n_union = rng.random() < 0.6
        cs = classes(fam, rng, n_union, rng.random() < 0.3)
        roots = []
        for i in range(rng.choice([2, 2, 3])):
            meta = None
            if fam == 'v1' or rng.random() < 0.85:
                ks = list(MULTI_SETTINGS[fam])
                meta = dict(m_meta_for(fam, rng, ks, lambda k: rng.choice([0, 1, 2])), **v1)
                if rng.random() < 0.15:
                    meta['recursive'] = False
                    meta.pop('tag_key', None)     # C13 domain: the key the root's own Union reads == the key its members write
                if rng.random() < 0.15:
                    meta['tag'] = 'RT'
            roots.append({'name': 'R%d' % (i + 1), 'meta': meta, 'style': rng.choice(['inner', 'load', 'dump', 'split']),
                          'shape': rng.choice(MULTI_SHAPES + [None]), 'v': rng.random() < 0.6})
            if roots[-1]['shape'] is None:
                roots[-1]['v'] = True
        us = uses(fam, [r['name'] for r in roots])
        rng.shuffle(us)
        us = us[:rng.randrange(2, len(us) + 1)]
        ops, defined = [], set()
        for u in us:
            if u['root'] not in defined:
                ops.append({'op': 'define', 'root': u['root']})
                defined.add(u['root'])
            ops.append(u)
        if rng.random() < 0.5:        # define everything up front instead
            ops = [{'op': 'define', 'root': r['name']} for r in roots] + us
        if rng.random() < 0.3:
            # a later user-level binding on a nested class (the `&=` in-place merge), before any root is used
            c = rng.choice(['UA', 'N', 'M'])
            # (not marshal_date_time_as on a class that already sets it: a TIMESTAMP hook registered by the first binding is
            #  never unregistered - rebinding semantics of the class itself, not the cascade)
            ks = [s for s in MULTI_SETTINGS[fam] if s not in ('auto_assign_tags',) and not (c in ('N', 'UA') and s == 'tag_key')
                  and not (s == 'marshal_date_time_as' and s in (cs[c]['meta'] or {}))]
            k = rng.choice(ks)
            first_use = min(i for i, o in enumerate(ops) if o['op'] in ('dump', 'load'))
            ops.insert(rng.randrange(0, first_use + 1), {'op': 'bind', 'cls': c, 'meta': dict({k: rng.choice(MULTI_SETTINGS[fam][k])}, **v1),
                                                         'style': rng.choice(['load', 'dump'])})
        sc = {'kind': 'multi', 'family': fam, 'classes': cs, 'roots': roots, 'ops': ops}
        out.append(m_finish(sc))
    seen, res = set(), []
    for sc in out:
        k = json.dumps(sc, sort_keys=True)
        if k not in seen:
            seen.add(k)
            res.append(sc)
    return res


def m_spec_outcome(sc, decl, op):
    spec = MultiSpec(sc, decl)
    if op['op'] == 'dump':
        return spec.dump_obj(op['root'], op['root'])
    out = []
    if sc['family'] == 'v1':
        # documented (v1): a dataclass in a Union without a tag (explicit or auto-assigned) cannot be parsed -> ValueError
        # when the load function of the root is generated
        r = m_root(sc, op['root'])
        holders = ([op['root']] if r.get('v') else []) + (['N'] if r.get('shape') is not None and sc['classes']['N'].get('union') else [])
        if any(spec.member_tag(h, mbr, op['root']) is None for h in holders for mbr in ('UA', 'UB')):
            return ['ERR:ValueError' for _ in op['docs']]
    for d in op['docs']:
        try:
            out.append(spec.load_obj(op['root'], d, op['root']))
        except Outcome as e:
            out.append('ERR:' + e.args[0])
    return out


def m_observed(op, step):
    if 'error' in step:
        return 'ERR:' + step['error']['err']
    if op['op'] == 'dump':
        return m_plain(step['result'])
    return [m_plain(x) for x in step['results']]


def m_sim_run(sc, off=()):
    """predicted (_META snapshot, outcome) after every operation."""
    sim = MultiSim(sc, off)
    out = []
    for op in sc['ops']:
        o = None
        if op['op'] in ('dump', 'load'):
            sim.begin_use()
        if op['op'] == 'define':
            r = m_root(sc, op['root'])
            sim.define(r['name'], r['meta'])
        elif op['op'] == 'bind':
            sim.user_bind(op['cls'], op['meta'])
        elif op['op'] == 'dump':
            o = sim.dump(op['root'])
        else:
            o = (sim.load_v1 if sc['family'] == 'v1' else sim.load_v0)(op['root'], op['docs'])
        out.append((sim.snapshot(), o))
    return out


def m_check_snapshot(snap, decl):
    """P0: the own settings of every registered Meta are the declared ones plus at most tag = <class name>."""
    for c, own in snap.items():
        d = decl.get(c)
        if own is None:
            if d:
                return 'class %s: declared Meta %r is not registered' % (c, d)
            continue
        for k, v in own.items():
            if d is not None and k in d:
                if v != d[k]:
                    return 'class %s: own setting %s = %r, the user declared %r' % (c, k, v, d[k])
            elif k == 'tag':
                if v != c:
                    return 'class %s: tag %r written by the library is not the class name' % (c, v)
            else:
                return 'class %s: the library wrote the user-level setting %s = %r into the class\'s own Meta (declared: %r)' % (c, k, v, d)
        for k in (d or {}):
            if k not in own:
                return 'class %s: declared setting %s is missing from the registered Meta' % (c, k)
    return None


def m_in_F22(sc, decl, rname):
    """F22: the class that contains a Union sets auto_assign_tags itself, differently from what the root's CASCADING config
    provides (the Union parser reads extras['config']).  The containing class may be the root itself: with recursive=False
    there is no config at all, so the root's own auto_assign_tags=True is ignored for its own Union fields."""
    rm = decl.get(rname)
    r = m_root(sc, rname)
    provided = False if (rm is None or rm.get('recursive', True) is False) else bool(rm.get('auto_assign_tags', False))
    holders = []
    if sc['classes']['N'].get('union') and r.get('shape') is not None:
        holders.append((decl.get('N') or {}).get('auto_assign_tags'))
    if r.get('v'):
        holders.append((rm or {}).get('auto_assign_tags'))
    return any(own is not None and bool(own) != provided for own in holders)


def m_in_F23(sc, decl, op):
    """F23 (C13): default engine, first LOAD; a Union member without an explicit tag gets its tag auto-assigned after its
    load function was generated, so that function treats the tag key as unknown: visible when the member raises on
    unknown keys."""
    if sc['family'] != 'v0' or op['op'] != 'load':
        return False
    spec = MultiSpec(sc, decl)
    rname = op['root']
    r = m_root(sc, rname)
    holders = ([(rname, 'UA')] if r.get('v') else []) + ([('N', 'UB')] if r.get('shape') is not None and sc['classes']['N'].get('union') else [])
    rm = decl.get(rname)
    root_auto = bool(rm and rm.get('recursive', True) is not False and rm.get('auto_assign_tags'))
    return any(root_auto and not (decl.get(mbr) or {}).get('tag') and spec.raises(spec.eff(mbr, rname)) for h, mbr in holders)


def coq_rty(shape):
    if not shape:
        return '(RClass (S "N"))'
    h, rest = shape[0], shape[1:]
    if h == 'mid':
        return '(RClass (S "M"))'
    inner = coq_rty(rest)
    return {'opt': '(ROpt %s)', 'list': '(RList %s)', 'dict': '(RDict %s)', 'tuple': '(RTuple [%s; RScalar])'}[h] % inner


def coq_multi(sc):
    """Gallina: show_run <class declarations> <history> <class names>."""
    union = '(RUnion [RClass (S "UA"); RClass (S "UB"); RScalar])'
    decls = ['(S "UA", [RScalar])', '(S "UB", [RScalar])',
             '(S "N", [RScalar%s])' % ('; ' + union if sc['classes']['N'].get('union') else ''),
             '(S "M", [RClass (S "N"); RScalar])']
    for r in sc['roots']:
        fs = ([coq_rty(r['shape'])] if r.get('shape') is not None else []) + ['RScalar'] + ([union] if r.get('v') else [])
        decls.append('(%s, %s)' % (coq_str(r['name']), coq_list(fs)))
    ops = []
    for c in ('UA', 'UB', 'N', 'M'):
        if sc['classes'][c]['meta'] is not None:
            ops.append('HBind %s %s' % (coq_str(c), coq_cmeta(sc['classes'][c]['meta'])[6:-1]))
    for op in sc['ops']:
        if op['op'] == 'define':
            r = m_root(sc, op['root'])
            ops.append('HBind %s %s' % (coq_str(r['name']), coq_cmeta(r['meta'])[6:-1]) if r['meta'] is not None else 'HNop')
        elif op['op'] == 'bind':
            ops.append('HBind %s %s' % (coq_str(op['cls']), coq_cmeta(op['meta'])[6:-1]))
        else:
            eng = 'DumpV0' if op['op'] == 'dump' else ('LoadV1' if sc['family'] == 'v1' else 'LoadV0')
            ops.append('HUse %s %s' % (eng, coq_str(op['root'])))
    names = ['UA', 'UB', 'N', 'M'] + [r['name'] for r in sc['roots']]
    n_pre = sum(1 for c in ('UA', 'UB', 'N', 'M') if sc['classes'][c]['meta'] is not None)
    return 'show_run 40 %s %s %s' % (coq_list(decls), coq_list(ops), coq_list([coq_str(n) for n in names])), n_pre


def sval_text(v):
    if v is None:
        return 'None'
    if isinstance(v, bool):
        return 'True' if v else 'False'
    if isinstance(v, str):
        return 's:' + v
    if isinstance(v, dict) and 'cond' in v:
        return 't:%d' % v['val']
    raise ValueError(v)


def snapshot_text(snap, names):
    """the text MetaMergeTable.show_table prints for a _META snapshot (settings in name order)."""
    parts = []
    for c in names:
        own = snap.get(c)
        if own is None:
            parts.append(c + '=-')
        else:
            parts.append(c + '=' + ','.join('%s:%s' % (k, sval_text(own[k])) for k in sorted(own)))
    return ';'.join(parts)


def decode_table(txt, all_fields):
    """text printed by MetaMergeTable.show_table -> {class: None | {setting: value text}}"""
    out = {}
    for part in txt.split(';'):
        c, _, body = part.partition('=')
        if body == '-':
            out[c] = None
        else:
            out[c] = {}
            for x in body.split(','):
                if x:
                    k, v = x.split(':', 1)
                    out[c][all_fields[ord(k) - 97]] = v
    return out


def decode_run(txt, all_fields):
    """show_run output: snapshots separated by '#', '=' repeats the previous one."""
    out, prev = [], None
    for part in txt.split('#'):
        if part != '=':
            prev = None if part.startswith('FUEL!') else decode_table(part, all_fields)
        out.append(prev)
    return out


def encode_snapshot(snap):
    return {c: (None if own is None else {k: sval_text(v) for k, v in own.items()}) for c, own in snap.items()}


F10P_ID = 'F10-C12-first-root-frozen-in-cached-field-parsers'
F10T_ID = 'F10-C12-auto-assigned-tag-persists-across-roots'
LEAK_FINDING = {'tables': F10_ID, 'parsers': F10P_ID, 'tags': F10T_ID}
_LEAK_CACHE = {}


def m_leak_findings(sc, i, sim_out):
    """findings whose mechanism is needed to explain the simulated outcome of step i (switching it off changes it)."""
    key = (json.dumps(sc, sort_keys=True), i)
    if key not in _LEAK_CACHE:
        out = set()
        for mech in MultiSim.MECHANISMS:
            if m_sim_run(sc, off=(mech,))[i][1] != sim_out:
                out.add(LEAK_FINDING[mech])
        if not out and m_sim_run(sc, off=MultiSim.MECHANISMS)[i][1] != sim_out:
            out = set(LEAK_FINDING.values())
        _LEAK_CACHE[key] = out
    return _LEAK_CACHE[key]


def m_eval_step(ctx, sc, i):
    """run a stored multi-root scenario; (P0 message or None, observed, reference, simulated) for step i."""
    res = ctx.impl('c12', {'configs': [sc], 'jobs': 1})['results'][0]
    if 'runner_error' in res:
        raise RuntimeError('c12_multi runner failed: %s' % res['runner_error'])
    if res.get('setup'):
        return 'class definition failed: %s' % res['setup'], None, None, None, res
    hist = m_declared_history(sc)
    bad0 = None
    for j, (step, decl) in enumerate(zip(res['steps'], hist)):
        bad0 = bad0 or m_check_snapshot(step['meta'], decl)
    op = sc['ops'][i]
    obs = m_observed(op, res['steps'][i])
    return bad0, obs, m_spec_outcome(sc, hist[i], op), m_sim_run(sc)[i][1], res


def run_multi(ctx):
    scs = gen_multi(ctx)
    # the same roots and operations alone, in pristine interpreters
    alone, alone_key = [], {}
    for sc in scs:
        hist = m_declared_history(sc)
        for i, op in enumerate(sc['ops']):
            if op['op'] in ('dump', 'load'):
                a = m_alone(sc, hist[i], op)
                k = json.dumps(a, sort_keys=True)
                if k not in alone_key:
                    alone_key[k] = len(alone)
                    alone.append(a)
    results = ctx.impl('c12', {'configs': scs + alone, 'jobs': 14}, timeout=1500)['results']
    res_multi, res_alone = results[:len(scs)], results[len(scs):]
    # Coq table model: _META snapshots after every operation
    model = None
    try:
        enc = [coq_multi(sc) for sc in scs]
        # several small coqc runs side by side (long output strings are expensive to print)
        import concurrent.futures as _cf
        chunk = 30
        groups = [enc[i:i + chunk] for i in range(0, len(enc), chunk)]
        with _cf.ThreadPoolExecutor(max_workers=6 if ctx.tier == 'quick' else 10) as ex:
            outs_g = list(ex.map(lambda gi: ctx.coq([e for e, _ in gi[1]], ['PyStr', 'MetaMerge', 'MetaMergeTable'], prelude=PRELUDE,
                                                    tag='multi%d' % gi[0]), enumerate(groups)))
        outs = [o for g in outs_g for o in g]
        model = [(o, n_pre) for o, (_, n_pre) in zip(outs, enc)]
    except Exception as e:  # noqa
        ctx.broken_tie('table model evaluation failed: %s' % str(e)[:500])
    n_ties, alone_done = 0, set()
    for si, (sc, res) in enumerate(zip(scs, res_multi)):
        if 'runner_error' in res:
            raise RuntimeError('c12_multi runner failed: %s' % res['runner_error'])
        key = json.dumps(sc, sort_keys=True)
        n_uses = sum(1 for o in sc['ops'] if o['op'] in ('dump', 'load'))
        ctx.count(1, key=key, nontrivial=n_uses >= 2)
        ctx.hist('multi_family', sc['family'])
        ctx.hist('multi_roots', len(sc['roots']))
        ctx.hist('multi_uses', n_uses)
        ctx.hist('multi_order', ' '.join('%s:%s' % (o['op'][0], o.get('root') or o.get('cls')) for o in sc['ops'] if o['op'] != 'define')[:40])
        if res.get('setup'):
            ctx.violation('multi-root scenario: class definition failed: %s' % res['setup'], {'kind': 'multi', 'scenario': sc})
            continue
        hist = m_declared_history(sc)
        sim = m_sim_run(sc)
        names = ['UA', 'UB', 'N', 'M'] + [r['name'] for r in sc['roots']]
        for i, (op, step, decl, (sim_snap, sim_out)) in enumerate(zip(sc['ops'], res['steps'], hist, sim)):
            what = 'multi-root history (%s), step %d (%s %s)' % (sc['family'], i, op['op'], op.get('root') or op.get('cls'))
            snap = {c: step['meta'].get(c) for c in step['meta']}
            # P0: the library's own writes never add a user-level setting
            bad0 = m_check_snapshot(snap, decl)
            if bad0:
                ctx.violation('%s: %s' % (what, bad0), {'kind': 'multi', 'scenario': sc, 'step': i})
            # correspondence: Coq table model == implementation's _META
            if model is not None:
                txt, n_pre = model[si]
                tabs = decode_run(txt, res.get('all_fields') or [])
                ctx.traces_validated += 1
                want = tabs[n_pre + i] if n_pre + i < len(tabs) else None
                got = encode_snapshot({c: snap.get(c) for c in names if c in snap})
                if want is None or {c: want.get(c) for c in got} != got:
                    n_ties += 1
                    ctx.disagreements_checked += 1
                    if n_ties <= 5:
                        ctx.broken_tie('MetaMergeTable model and the implementation\'s _META table disagree at %s' % what,
                                       {'scenario': sc, 'step': i, 'model': want, 'impl': got})
            if sim_snap is not None and {c: sim_snap.get(c) for c in snap} != snap and not bad0:
                n_ties += 1
                if n_ties <= 5:
                    ctx.broken_tie('table simulation and the implementation\'s _META table disagree at %s' % what,
                                   {'scenario': sc, 'step': i, 'sim': sim_snap, 'impl': snap})
            if op['op'] not in ('dump', 'load'):
                if 'error' in step:
                    ctx.violation('%s raised %s' % (what, step['error']['err']), {'kind': 'multi', 'scenario': sc, 'step': i})
                continue
            obs = m_observed(op, step)
            spec = m_spec_outcome(sc, decl, op)
            asc = m_alone(sc, decl, op)
            ares = res_alone[alone_key[json.dumps(asc, sort_keys=True)]]
            if 'runner_error' in ares:
                raise RuntimeError('c12_multi runner failed: %s' % ares['runner_error'])
            aobs = m_observed(op, ares['steps'][1]) if not ares.get('setup') else 'ERR:setup'
            ctx.hist('multi_op', op['op'])
            f22 = m_in_F22(sc, decl, op['root'])
            # P2 reference point: the root alone in a pristine interpreter behaves under effective(declared) (history-free;
            # its only listed deviations are F22 / F23, which the simulation reproduces without any history)
            akey = json.dumps(asc, sort_keys=True)
            if akey not in alone_done:
                alone_done.add(akey)
                ctx.count(1, key='alone:' + akey, nontrivial=False)
                if aobs != spec:
                    asim = m_sim_run(asc)[1][1]
                    fid = F22_ID if f22 else (F23_ID if m_in_F23(sc, decl, op) else None)
                    if os.environ.get('C12_SHOW_LEAKS'):
                        print('ALONE', fid, what, '\n  obs ', json.dumps(aobs)[:500], '\n  spec', json.dumps(spec)[:500], '\n  ', json.dumps(asc)[:900])
                    if fid and aobs == asim and ctx.is_open_region(fid):
                        ctx.hist('known_region', fid)
                    else:
                        ctx.violation('%s ALONE in a pristine interpreter: observed %s; reference under effective(declared) %s' %
                                      (what, json.dumps(aobs)[:400], json.dumps(spec)[:400]), {'kind': 'multi', 'scenario': asc, 'step': 1})
            explained = (obs == sim_out)
            if obs == spec:
                # P1 holds; (a difference to the run alone can then only come from the deviation of the run alone, classified above)
                if obs != aobs:
                    ctx.hist('multi_history_hides_F22_F23', op['op'])
            elif explained and obs == aobs and (f22 or m_in_F23(sc, decl, op)) and ctx.is_open_region(F22_ID if f22 else F23_ID):
                ctx.hist('known_region', F22_ID if f22 else F23_ID)
            elif explained and obs != aobs and m_leak_findings(sc, i, sim_out) and \
                    all(ctx.is_open_region(f) for f in m_leak_findings(sc, i, sim_out)):
                # exactly the outcome the per-class global tables of the unchanged tree produce; attributed to the
                # mechanisms without which the simulation would predict something else
                for f in m_leak_findings(sc, i, sim_out):
                    ctx.hist('known_region', f)
                ctx.hist('multi_leak', '%s: %s' % (op['op'], '+'.join(sorted(x[8:28] for x in m_leak_findings(sc, i, sim_out)))))
                if os.environ.get('C12_SHOW_LEAKS'):
                    print('LEAK', sorted(m_leak_findings(sc, i, sim_out)), what, '\n  obs ', json.dumps(obs)[:600], '\n  spec', json.dumps(spec)[:600],
                          '\n  ', json.dumps({k: v for k, v in sc.items() if k != 'ops'})[:700], [(o['op'], o.get('root') or o.get('cls')) for o in sc['ops']])
            else:
                ctx.violation('%s: observed %s; reference under effective(declared) %s; alone in a pristine interpreter %s; '
                              'table simulation %s' % (what, json.dumps(obs)[:300], json.dumps(spec)[:300], json.dumps(aobs)[:300],
                                                       json.dumps(sim_out)[:300]),
                              {'kind': 'multi', 'scenario': sc, 'step': i})
            if not explained:
                n_ties += 1
                ctx.disagreements_checked += 1
                if n_ties <= 5:
                    ctx.broken_tie('table simulation and implementation disagree at %s' % what, {'scenario': sc, 'step': i, 'sim': sim_out, 'impl': obs})
    ctx.notes.append('%d multi-root histories (one interpreter each) + %d single-operation pristine runs' % (len(scs), len(alone)))


def replay(ctx, obj):
    if obj.get('kind') == 'multi' or 'scenario' in obj:
        sc, i = obj['scenario'], obj.get('step', len(obj['scenario']['ops']) - 1)
        bad0, obs, spec, simo, res = m_eval_step(ctx, sc, i)
        print(res.get('source', ''))
        print('operations: %s' % [(o['op'], o.get('root') or o.get('cls')) for o in sc['ops']])
        for j, st in enumerate(res.get('steps', [])):
            print('  _META after step %d: %s' % (j, json.dumps({c: m for c, m in st['meta'].items() if m is not None})))
        print('own-Meta invariant (declared settings + at most tag = class name): %s' % (bad0 or 'holds'))
        print('step %d observed:                      %s' % (i, json.dumps(obs)))
        print('step %d under effective(declared):     %s' % (i, json.dumps(spec)))
        return bad0 is None and obs == spec
    if obj.get('kind') == 'config' or 'cfg' in obj:
        cfg = obj['cfg']
        res = ctx.impl('c12', {'configs': [cfg], 'jobs': 1})['results'][0]
        print(res.get('source', ''))
        bad = check(cfg, res)
        print('effective(nested, root) = %r' % effective(cfg['nested'], cfg['root']))
        print('outcome: %s' % (bad or 'nested behaviour is the behaviour under effective'))
        return bad is None
    print('replay object names a broken tie, not an input: %s' % json.dumps(obj)[:1500])
    return False
