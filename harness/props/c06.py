"""C06 — results do not depend on call history: caches are transparent.

Theorems: coq/props/C06.v (memo invariant over all histories, transparency on
safe histories, refutations for F2 / F10 / F40 shapes).  Correspondence: the
StateModel `run_out` against the implementation on generated operation
histories (one job = one history, fresh classes).  Direct predicate: the
outcome of every load/dump in a history equals the outcome of the same call made
alone in a pristine job holding only the definitions it needs.

This module also holds the machinery shared with C07 (history encoders, program
generator, region predicates, job runner).
"""
import json, re, copy, os, concurrent.futures as cf
from lib.coqrun import coq_str, coq_list

META = {
    'id': 'C06',
    'title': 'Results do not depend on call history: caches are transparent',
    'level': 'proof',
    'technique': 'Coq proof (memo invariant by induction over operation histories, transparency by simulation against the '
                 'cache-free pure outcome; general memo-soundness lemma "transparent iff the memoised function factors through the key '
                 'equivalence" and its instances) on two hand-written Gallina state machines + differential correspondence on generated '
                 'and systematically enumerated histories',
    'design_ref': 'DESIGN.md section 4 C06',
    'theorems': ['C06_inv_init', 'C06_inv_step', 'C06_inv_run', 'C06_transparent', 'C06_transparent_needed', 'C06_needed_example', 'C06_pure_outcome',
                 'C06_strict_key_every_time', 'C06_safe_example', 'C06_inv_step_example', 'C06_strict_example',
                 'C06_refuted_subclass_after_use', 'C06_refuted_base_used_first', 'C06_refuted_shared_nested',
                 'C06_refuted_nested_alone_first',
                 'C06_memo_sound_iff', 'C06_memo_inv', 'C06_memo_library_factors', 'C06_hist_inv_run', 'C06_hist_transparent_all',
                 'C06_hist_transparent_library', 'C06_hist_pure_outcome', 'C06_hist_prefix_variant_partial', 'C06_hist_example', 'C06_product_transparent',
                 'C06_memo_pyeq_refuted', 'C06_hist_refuted_pyeq_memo', 'C06_hist_prefix_variant_refuted',
                 'C06_learned_key_order_refuted', 'C06_pattern_object_memo_refuted'],
    'tables': [],
    'level_text': ('Theorems proved in Coq for ALL operation histories (any length, any classes, any Meta) of two executable state machines. '
                   '(1) StateModel: the module-level memo tables of the default engine (Meta, inheritance, nesting): the memo invariant holds '
                   'after every safe history, and on safe histories the outcome of every operation equals its outcome after the definitions '
                   'alone; faithful to the open defects F2, F10, F11, F40, each refuted by a machine-checked witness replayed on the '
                   'implementation. (2) HistValueModel: values carrying their exact Python type, the generated loaders of BOTH engines as '
                   'state (default-engine key cache, v1 key-resolution order incl. AUTO and aliases), Pattern objects shared between '
                   'classes, and a value-level memo with a parametric key equality: a general memo-soundness theorem (a memo is transparent '
                   'iff the memoised function factors through the key equivalence of its table), instantiated for the library (no value '
                   'memo / exact keys: FULLY transparent over ALL histories without any side condition - value, error class, class, field '
                   'and the type an error names) and refuted for a memo keyed by Python ==/hash (1 == True == '
                   '1.0), for a per-field learned key order and for a transform memoised on the Pattern object; the pre-fix variant of the machine '
                   '(parsers re-targeting a shared Pattern object: finding F73, repaired by commit 38c6a1a) is proved transparent only up to the '
                   'named type and refuted by a witness that is kept as a regression case. The product of the two machines is transparent. Both models are '
                   're-validated against the implementation on every run.'),
    'level_note': ('Trusted: Coq kernel + vm_compute; the hand-written state models (StateModel: default engine, int/str/nested-dataclass fields, '
                   'five Meta settings; HistValueModel: flat classes, both engines, key settings, aliases, shared Pattern objects, exact-typed '
                   'values; type_conv.as_datetime/as_date/as_time spelled out, the other leaf conversions and the stdlib parsers are universally '
                   'quantified in the theorems and supplied as measured oracle tables for execution); the correspondence harness. The generated '
                   'code itself, dict semantics and dataclasses are exercised, not proved.'),
    'rule': ('(a) histories of 2-12 operations from the grammar define / subclass / bind-before-first-use / load / failing load / novel key '
             'spelling / dump / dump of a novel value subtype over 1-5 classes; every load/dump is also executed alone in a pristine job '
             '(fresh classes, only the needed definitions); a sample of pristine jobs runs in an interpreter of its own to validate batching. '
             '(b) typed histories enumerated systematically: ==-equal / type-distinct values (bool, int, float, Decimal, Fraction, str, aware '
             'datetimes of several zones, ...) through a class, an equal-shaped unrelated class and classes of every target type, in both '
             'orders, both engines; ONE Pattern object at date / datetime / time positions of several classes in every set-up order; '
             'documents with 2-3 simultaneous spellings of one field after a document with each single spelling, both engines, every key '
             'setting, aliases, unknown keys ignored / rejected; plus random typed histories. Every typed load/dump is compared with the same '
             'call alone in a pristine FORKED child (library imported, nothing defined or loaded), and the outcome sequence with the Coq machine. '
             'A history is non-trivial when it has >= 2 load/dump operations; distinct = distinct history text.'),
    'trusted_base': ['model coq/model/StateModel.v transcribes class_helper.py tables, loaders.py:544-790, dumpers.py:263-576, '
                     'bases_meta.py:123-221, class_helper.py:423-448 (validated by correspondence on every run)',
                     'model coq/model/HistValueModel.v transcribes utils/type_conv.py:344-470 (as_datetime/as_date/as_time), parsers.py:170-191 '
                     '(PatternedDTParser), models.py:156-241 (generated pattern_to_dt), loaders.py:655-745 (key cache loop), '
                     'v1/loaders.py:1130-1225 (key chain per field), utils/string_conv.py possible_json_keys (validated by correspondence on every run)',
                     'oracle tables of the typed model: leaf conversions / dump hooks measured on single-field classes in pristine forked '
                     'children; fromisoformat / fromtimestamp / strptime from the stdlib; py_eq checked against Python == and hash on every run'],
    'assumptions': ['StateModel: default engine only; field types int, str, nested dataclass; Meta settings key_transform_with_load/dump, '
                    'raise_on_unknown_json_key, skip_defaults, recursive; no module-level Meta, no debug mode; BindMeta only before first use '
                    'of the class (the property\'s own grammar)',
                    'HistValueModel: flat classes (no nesting / inheritance: those are StateModel\'s), function API (fromdict / asdict), '
                    'Pattern formats without - and + for time positions; the hypothesis of the transparency theorems is that the value-level '
                    'memo (if any) factors the conversion - proved for the library\'s policy (no memo) and for exact keys'],
}

TRS = ['SNAKE', 'CAMEL', 'PASCAL', 'LISP', 'NONE']
TR_COQ = {'SNAKE': 'TrSnake', 'CAMEL': 'TrCamel', 'PASCAL': 'TrPascal', 'LISP': 'TrLisp', 'NONE': 'TrNone'}
FIELD_POOL = ['x', 'y', 'my_val', 'item_count', 'user_name2', 'a1', 'flag_b', 'z_val', 'w']
NEST_POOL = ['inner', 'child_obj', 'sub1', 'part']


# --------------------------------------------------------------------------- Coq encoders
def q_opt(x):
    return 'None' if x is None else '(Some %s)' % x


def q_bool(b):
    return 'true' if b else 'false'


def q_meta(m):
    return '(Build_meta %s %s %s %s %s)' % (
        q_opt(None if m.get('ltr') is None else TR_COQ[m['ltr']]), q_opt(None if m.get('dtr') is None else TR_COQ[m['dtr']]),
        q_opt(None if m.get('raise') is None else q_bool(m['raise'])), q_opt(None if m.get('skipdef') is None else q_bool(m['skipdef'])),
        q_opt(None if m.get('rec') is None else q_bool(m['rec'])))


def q_Z(n):
    return '(%d)%%Z' % n


def q_doc(d):
    return coq_list(['(%s, %s)' % (coq_str(k), q_jv(v)) for k, v in d.items()])


def q_jv(v):
    if v is None:
        return 'JNull'
    if isinstance(v, int):
        return '(JInt %s)' % q_Z(v)
    if isinstance(v, str):
        return '(JStr %s)' % coq_str(v)
    return '(JDict %s)' % q_doc(v)


def q_val(v):
    if v is None:
        return 'VNone'
    if 'i' in v:
        return '(VInt %s)' % q_Z(v['i'])
    if 's' in v:
        return '(VStr %s)' % coq_str(v['s'])
    if 'sub' in v:
        root = {'int': 'KInt', 'str': 'KStr', 'obj': 'KObj'}[v['sub']['root']]
        return '(VSub (Build_vtype %s %s %s) %s)' % (coq_list(['%d%%nat' % c for c in v['sub'].get('mixins') or []]),
                                                     coq_list(['%d%%nat' % c for c in v['sub']['chain']]), root, q_Z(v['z']))
    return '(VInst %d%%nat %s)' % (v['c'], coq_list(['(%s, %s)' % (coq_str(k), q_val(x)) for k, x in v['f']]))


def q_op(o):
    k = o['op']
    if k == 'define':
        fs = []
        for name, ty, dflt in o['fields']:
            t = 'FInt' if ty == 'int' else 'FStr' if ty == 'str' else '(FNested %d%%nat)' % ty['nested']
            d = 'None' if dflt is None else '(Some (DInt %s))' % q_Z(dflt) if isinstance(dflt, int) else '(Some (DStr %s))' % coq_str(dflt)
            fs.append('(%s, %s, %s)' % (coq_str(name), t, d))
        info = '(Build_cinfo %d%%nat %d%%nat %s %s %s %s)' % (
            o['cid'], o['qn'], q_bool(o['wiz']), coq_list(['%d%%nat' % c for c in o['mro']]),
            q_opt(None if o.get('base_qn') is None else '%d%%nat' % o['base_qn']),
            q_opt(None if o.get('inner') is None else q_meta(o['inner'])))
        return '(ODefine (Build_cdef %s %s))' % (info, coq_list(fs))
    if k == 'bind':
        return '(OBind %d%%nat %s)' % (o['cid'], q_meta(o['meta']))
    if k == 'load':
        return '(OLoad %d%%nat %s %s)' % (o['cid'], q_bool(o['attr']), q_doc(o['doc']))
    return '(ODump %s %s)' % (q_bool(o['attr']), q_val(o['inst']))


def q_history(h):
    return 'show_run %s' % coq_list([q_op(o) for o in h])


# --------------------------------------------------------------------------- impl side
def impl_op(o):
    """operation as the runner wants it (drops harness-only keys)"""
    if o['op'] == 'define':
        return {k: o[k] for k in ('op', 'cid', 'qn', 'mod', 'wiz', 'base', 'inner', 'own_fields') if k in o}
    return {k: v for k, v in o.items() if k != 'tag'}


def run_jobs(ctx, jobs, per_proc=30, workers=8):
    """jobs: list of op lists.  Returns list of outcome-text lists.  Each job gets a unique salt."""
    payloads, idx = [], []
    for k in range(0, len(jobs), per_proc):
        chunk = jobs[k:k + per_proc]
        payloads.append({'jobs': [{'salt': 'j%d' % (k + i), 'ops': [impl_op(o) for o in ops]} for i, ops in enumerate(chunk)]})
        idx.append((k, len(chunk)))
    out = [None] * len(jobs)
    with cf.ThreadPoolExecutor(max_workers=workers) as ex:
        for (k, n), res in zip(idx, ex.map(lambda p: ctx.impl('c06', p, timeout=900), payloads)):
            for i in range(n):
                out[k + i] = res['results'][i]
    return out


ERR_CID = re.compile(r'^e([PDMU])(\d+):')


def model_to_qn(text, qn_of):
    """model prints errors with the class id; the implementation names the class by qualname"""
    m = ERR_CID.match(text)
    if not m:
        return text
    return 'e%s%s:%s' % (m.group(1), qn_of.get(int(m.group(2)), '?'), text[m.end():])


def run_model(ctx, histories, tag='cases'):
    exprs = [q_history(h) for h in histories]
    res = ctx.coq(exprs, ['PyStr', 'StrConv', 'StateModel', 'StateShow'], tag=tag)
    out = []
    for h, r in zip(histories, res):
        qn_of = {o['cid']: o['qn'] for o in h if o['op'] == 'define'}
        parts = r.split(';') if h else []
        out.append([model_to_qn(p, qn_of) for p in parts])
    return out


# --------------------------------------------------------------------------- static analysis of a history
class Sim:
    """Independent bookkeeping of who-was-generated-under-which-Meta, used only to CLASSIFY failing
    cases into the open regions F2 / F10 / F11 / F40 (it never decides pass/fail).  step() returns
    {region: set of indices of the earlier operations that cause it}."""

    def __init__(self):
        self.i = -1
        self.decl = {}
        self.def_idx = {}
        self.ref = {}        # cid -> meta object id
        self.mobj = {}       # meta object id -> dict
        self.minit = {}      # qualname -> meta object id
        self.attr = {'load': {}, 'dump': {}}     # cid -> index of the op that specialised the attribute
        self.fn = {'load': set(), 'dump': set()}
        self.gov = {}        # cid -> [(effective meta, op index)]
        self.f10_dirty = set()
        self.f10_keys = {}      # cid -> Meta settings that ever differed between two generations of its tables
        self.cur_kind = None
        self.f10_rebind = {}
        self.ltr_nov1 = set()   # classes that got a load key transform from a Meta that was not (yet) v1
        self.tainted40 = {}  # cid -> indices of the BindMeta operations (addressed to another class) that rewrote its Meta object
        self.tainted11 = {}  # cid -> indices of the definitions that left the foreign initialiser it picked up
        self.objt = {}       # Meta object -> indices of foreign definitions whose settings were merged into it
        self.obj40 = {}      # Meta object -> {(index, addressee)} of the BindMeta operations that rewrote it while shared
        self.taint_log = []  # per operation: (F11 taints, F40 taints) of every class at that time

    @staticmethod
    def m_and(a, b):
        r = dict(a)
        for k, v in b.items():
            if v is not None:
                r[k] = v
        return r

    MERGED = ('ltr', 'dtr', 'raise', 'skipdef', 'auto_tags', 'tag_key', 'marshal', 'skip_if', 'v1', 'v1_case')
    SPECIAL = ('rec', 'jk2f')          # __special_attrs__: taken from the first operand of `|` only
    LOAD_KEYS = {'ltr', 'raise', 'v1', 'v1_case', 'auto_tags', 'tag_key', 'jk2f'}
    DUMP_KEYS = {'dtr', 'skipdef', 'marshal', 'skip_if', 'auto_tags', 'tag_key', 'v1', 'jk2f'}

    @staticmethod
    def m_or(a, b):
        r = {}
        for k in Sim.MERGED:
            r[k] = a.get(k) if a.get(k) is not None else b.get(k)
        for k in Sim.SPECIAL:
            r[k] = a.get(k)
        return r

    def own(self, c):
        r = self.ref.get(c)
        return None if r is None else self.mobj[r]

    @staticmethod
    def norm(m):
        return {k: (m or {}).get(k) for k in Sim.MERGED + Sim.SPECIAL}

    def eff(self, c, cfg):
        own = self.own(c)
        if cfg is None:
            return self.norm(own)
        if own is None:
            # AbstractMeta | cfg: the merged settings are cfg's, the special attributes AbstractMeta's defaults
            return dict(self.norm(cfg), **{k: None for k in Sim.SPECIAL})
        return self.m_or(self.norm(own), self.norm(cfg))

    def cfg_of(self, c):
        own = self.own(c)
        if own is None or own.get('rec') is False:
            return None
        return own

    def tree(self, c):
        out = [c]
        for _, ty, _ in self.decl[c]['fields']:
            if isinstance(ty, dict):
                t = ty.get('nested', ty.get('fwd'))
                if t in self.decl:          # a forward reference counts once its target exists
                    out.extend(self.tree(t))
        return out

    @staticmethod
    def inst_classes(v):
        if not isinstance(v, dict):
            return []
        if 'l' in v:
            return [c for x in v['l'] for c in Sim.inst_classes(x)]
        if 'd' in v:
            return [c for _, x in v['d'] for c in Sim.inst_classes(x)]
        if 'c' not in v:
            return []
        out = [v['c']]
        for _, x in v['f']:
            out.extend(Sim.inst_classes(x))
        return out

    def note_bind(self, c, m):
        """bind_to applies key_transform_with_load to the loader selected by the v1 flag OF THE META BEING BOUND"""
        if m and (m.get('ltr') is not None or m.get('v1_case') is not None) and not m.get('v1'):
            self.ltr_nov1.add(c)

    def _bind_default(self, c, r, legit):
        if r is None:
            return
        self.note_bind(c, self.mobj.get(r))
        foreign = set() if legit else {self.def_idx.get(r[1], self.i)}
        foreign |= self.objt.get(r, set())
        if self.ref.get(c) is not None:
            if self.ref[c] != r:
                for x in self.decl:
                    if x != c and self.ref.get(x) == self.ref[c]:
                        self.tainted40.setdefault(x, set()).add(self.i)
                if foreign:
                    self.objt.setdefault(self.ref[c], set()).update(foreign)
                if self.obj40.get(r):
                    self.obj40.setdefault(self.ref[c], set()).update(self.obj40[r])
            self.mobj[self.ref[c]] = self.m_and(self.mobj[self.ref[c]], self.mobj[r])
        else:
            self.ref[c] = r
            if not legit:
                self.tainted11.setdefault(c, set()).update(foreign)

    def taints11(self, c):
        return self.tainted11.get(c, set()) | self.objt.get(self.ref.get(c), set())

    def taints40(self, c):
        """BindMeta operations addressed to ANOTHER class that rewrote the Meta object c refers to (directly, or
        an ancestor's object whose settings were merged into c's at definition)"""
        return self.tainted40.get(c, set()) | {i for i, a in self.obj40.get(self.ref.get(c), set()) if a != c}

    def snapshot(self):
        self.taint_log.append(({c: self.taints11(c) for c in self.decl if self.taints11(c)},
                               {c: self.taints40(c) for c in self.decl if self.taints40(c)}))

    def step(self, o):
        regions = self._step(o)
        self.snapshot()
        return regions

    def _step(self, o):
        self.i += 1
        k = o['op']
        regions = {}
        if k == 'define':
            c = o['cid']
            self.decl[c] = o
            self.def_idx[c] = self.i
            if o['wiz']:
                if o.get('inner') is not None:
                    self.mobj[('I', c)] = dict(o['inner'])
                    self.minit[o['qn']] = ('I', c)
                r = self.minit.get(o['qn'])
                self._bind_default(c, r, r is None or r == ('I', c))
                if o.get('base_qn') is not None:
                    r = self.minit.get(o['base_qn'])
                    # legitimate only if the object belongs to a real ancestor (or to the class itself)
                    self._bind_default(c, r, r is None or r[1] in o['mro'] or r[1] == c)
            return regions
        if k == 'bind':
            c = o['cid']
            self.note_bind(c, o['meta'])
            r = self.ref.get(c)
            if r is None:
                self.mobj[('B', c)] = dict(o['meta'])
                self.ref[c] = ('B', c)
            else:
                sharers = [x for x in self.decl if x != c and self.ref.get(x) == r]
                for x in sharers:
                    self.tainted40.setdefault(x, set()).add(self.i)
                if sharers:
                    regions['F40'] = {self.i}
                    self.obj40.setdefault(r, set()).add((self.i, c))
                self.mobj[r] = self.m_and(self.mobj[r], o['meta'])
            return regions
        kind = 'load' if k == 'load' else 'dump'
        self.cur_kind = kind
        c = o['cid'] if k == 'load' else o['inst']['c']
        d = self.decl[c]
        owner = None
        if o['attr'] and d['wiz']:
            for x in [c] + d['mro']:
                if x in self.attr[kind]:
                    owner = x
                    break
        if owner is not None and owner != c:
            regions['F2'] = {self.attr[kind][owner]}
            root = owner
        else:
            root = c
        # (extended grammar) the dump setup of a class with a bare-Condition field raises: nothing gets installed
        gen_fails = (kind == 'dump' and any(ty == 'badcond' for _, ty, _ in d['fields'])) or \
                    (kind == 'load' and any(isinstance(ty, dict) and 'fwd' in ty and ty['fwd'] not in self.decl for _, ty, _ in d['fields']))
        if owner is None and c not in self.fn[kind] and not gen_fails:
            if d['wiz'] and not any(x in self.attr[kind] for x in [c] + d['mro']):
                self.attr[kind][c] = self.i
            self.fn[kind].add(c)
        touched = self.tree(root) if k == 'load' else [root] + self.inst_classes(o['inst'])[1:]
        cfg = self.cfg_of(root)
        for pos, n in enumerate(touched):
            e = self.eff(n, None if pos == 0 else cfg)
            self._touch(n, e, pos > 0 and cfg is not None, regions)
            if k == 'dump' and e.get('auto_tags'):
                # dump_func_for_dataclass with auto_assign_tags also builds LOAD machinery (dumpers.py:318-337):
                if e.get('v1'):
                    # v1: the class's own MAIN load function is generated (and installed), cascading ITS Meta
                    self._gen_load_main(n, regions)
                else:
                    # default engine: the parsers of its fields, i.e. nested load functions under the same config
                    for m in self.tree(n)[1:]:
                        c2 = None if pos == 0 and cfg is None else cfg
                        self._touch(m, self.eff(m, cfg), cfg is not None, regions)
        return regions

    def _gen_load_main(self, n, regions):
        d = self.decl[n]
        if n in self.fn['load'] or any(isinstance(ty, dict) and 'fwd' in ty and ty['fwd'] not in self.decl for _, ty, _ in d['fields']):
            return
        if d['wiz'] and not any(x in self.attr['load'] for x in [n] + d['mro']):
            self.attr['load'][n] = self.i
        self.fn['load'].add(n)
        cfg = self.cfg_of(n)
        for pos, m in enumerate(self.tree(n)):
            self._touch(m, self.eff(m, None if pos == 0 else cfg), pos > 0 and cfg is not None, regions)

    def _touch(self, n, e, cascaded, regions):
        """class n's tables are generated / rewritten under effective Meta e"""
        # F10 variant: ANY cascade re-binds the nested class's own (merged) Meta; if the class had received its
        # load key transform on the default-engine loader and became v1 later, the re-bind moves the transform
        # onto its v1 loader
        rebind = cascaded and n in self.ltr_nov1 and (self.own(n) or {}).get('v1')
        if rebind:
            self.f10_keys.setdefault(n, set()).add('ltr')
            self.f10_rebind.setdefault(n, self.i)
        for g, j in self.gov.get(n, []):
            if g != e:
                self.f10_keys.setdefault(n, set()).update(k for k in e if g.get(k) != e.get(k))
        # the settings that can change the outcome of a load / of a dump (a differing dump key transform cannot
        # change a load, a differing unknown-key policy cannot change a dump)
        relevant = Sim.LOAD_KEYS if self.cur_kind == 'load' else Sim.DUMP_KEYS
        if self.f10_keys.get(n, set()) & relevant:
            # (once two different Metas met on n, WHICH earlier call filled which table decides the outcome,
            #  so every earlier call that touched n counts as a cause)
            causes = {j for g, j in self.gov.get(n, [])}
            if n in self.f10_rebind:
                causes.add(self.f10_rebind[n])
            regions.setdefault('F10', set()).update(causes)
        self.gov.setdefault(n, []).append((e, self.i))
        if self.taints40(n):
            regions.setdefault('F40', set()).update(self.taints40(n))
        if self.taints11(n):
            regions.setdefault('F11', set()).update(self.taints11(n))
        return regions


def op_class(o):
    return o['cid'] if o['op'] in ('define', 'bind', 'load') else o['inst']['c']


def regions_of(history):
    sim = Sim()
    return [sim.step(o) for o in history]


def analyse(history):
    """(regions per operation, taint snapshot per operation)"""
    sim = Sim()
    regs = [sim.step(o) for o in history]
    return regs, sim.taint_log


def needed_defs(history, i):
    """definitions and bindings the i-th operation needs: its class, the nested classes, the base classes"""
    decl = {o['cid']: o for o in history[:i] if o['op'] == 'define'}
    o = history[i]
    need = set()

    def add(c):
        if c in need or c not in decl:
            return
        need.add(c)
        for b in decl[c]['mro']:
            add(b)
        for _, ty, _ in decl[c]['fields']:
            if isinstance(ty, dict):
                add(ty.get('nested', ty.get('fwd')))

    def add_val(v):
        for x in Sim.inst_classes(v):
            add(x)
    if o['op'] == 'load':
        add(o['cid'])
    else:
        add_val(o['inst'])
    return [p for p in history[:i] if p['op'] in ('define', 'bind') and p['cid'] in need]


# --------------------------------------------------------------------------- generators
def gen_meta(r, rich=True):
    m = {'ltr': None, 'dtr': None, 'raise': None, 'skipdef': None, 'rec': None}
    if r.random() < 0.5:
        m['dtr'] = r.choice(TRS)
    if r.random() < 0.4:
        m['ltr'] = r.choice(TRS)
    x = r.random()
    if x < 0.35:
        m['raise'] = True
    elif x < 0.42:
        m['raise'] = False
    x = r.random()
    if x < 0.25:
        m['skipdef'] = True
    elif x < 0.3:
        m['skipdef'] = False
    x = r.random()
    if x < 0.08:
        m['rec'] = False
    elif x < 0.12:
        m['rec'] = True
    if all(v is None for v in m.values()):
        m['dtr'] = r.choice(TRS)
    return m


# objects shared between the Meta configurations of different classes (extended grammar): the SAME dict /
# Condition object is handed to every LoadMeta / inner Meta that names its id
SHARED_MAPS = {1: {'ID': 'x', 'Alt-Key': 'my_val'}, 2: {'extra': 'w', 'KeyY': 'y'}}
SHARED_CONDS = {11: ['EQ', 0], 12: ['IS_FALSY'], 13: ['IS', None]}


def gen_meta_x(r):
    """Meta of the extended grammar: the settings lattice beyond the Coq model"""
    m = gen_meta(r)
    if r.random() < 0.3:
        # non-recursive roots, combined with the other flags: nothing of such a Meta may reach nested classes
        m['rec'] = False
        if r.random() < 0.6:
            m['auto_tags'] = True
        if m.get('dtr') is None and r.random() < 0.7:
            m['dtr'] = r.choice(TRS)
        if r.random() < 0.4:
            m['skipdef'] = True
    if r.random() < 0.3:
        m['auto_tags'] = True
    if r.random() < 0.12:
        m['tag_key'] = 'kind'
    if r.random() < 0.35:
        m['marshal'] = r.choice(['TIMESTAMP', 'TIMESTAMP', 'ISO_FORMAT'])
    if r.random() < 0.2:
        k = r.choice(sorted(SHARED_CONDS))
        m['skip_if'] = {'obj': k, 'cond': SHARED_CONDS[k]}
    if r.random() < 0.35:
        k = r.choice(sorted(SHARED_MAPS))
        m['jk2f'] = {'obj': k, 'map': SHARED_MAPS[k]}
    if r.random() < 0.15:
        # a Meta that carries nothing but settings that must not cascade (explicit key mapping, recursive flag)
        m = {'ltr': None, 'dtr': None, 'raise': None, 'skipdef': None, 'rec': m.get('rec'), 'jk2f': m.get('jk2f') or
             {'obj': 1, 'map': SHARED_MAPS[1]}}
    if r.random() < 0.3:
        m['v1'] = True
        if r.random() < 0.5:
            m['v1_case'] = r.choice(['AUTO', 'CAMEL', 'SNAKE'])
    return m


def spellings(name):
    ws = name.split('_')
    cap = [w[:1].upper() + w[1:] for w in ws]
    return [name, ws[0] + ''.join(cap[1:]), ''.join(cap), '-'.join(ws), '_'.join(cap), name.upper(), '-'.join(cap), name.replace('_', '')]


class Prog:
    """random program: classes, then operations on them"""

    # value types of the 'novel subtype' dumps: related types, so that the ORDER in which a class first
    # sees them matters to any cache keyed by type (mixins = plain classes listed before the chain / builtin)
    VTYPES = [([], [1], 'int'), ([], [2, 1], 'int'), ([], [3, 2, 1], 'int'), ([], [2], 'str'), ([], [3, 2], 'str'),
              ([], [4], 'obj'), ([], [6, 4], 'obj'), ([], [8], 'obj'), ([], [9], 'obj'),
              ([8], [], 'int'), ([8], [1], 'int'), ([9], [], 'str'), ([8, 9], [2], 'str'), ([9], [4], 'obj'), ([8], [], 'obj')]
    VTYPES_X = [([8], [], 'list'), ([], [7], 'list'), ([9, 8], [7], 'list')]

    def __init__(self, r, first_cid=1, qn_base=0, mod='m', max_classes=4, ext=False):
        self.ext = ext
        self.r = r
        self.next = first_cid
        self.qn_base = qn_base
        self.mod = mod
        self.max_classes = max_classes
        self.decl = {}
        self.ops = []
        self.touched = set()
        self.seen_keys = {}
        self.seen_vt = set()
        self.pending_fwd = None
        self.allow_fwd = True
        self.v1 = set()        # classes whose Meta says v1 (own, bound, or inherited through a JSONWizard base)
        self.loaded = []       # classes loaded so far
        self.neg = {}          # cid -> [(pool field name | None, key spelling)]: keys the class was loaded with and does not know

    # ---- classes
    def new_class(self, kind=None, force_nested=None, qn=None, wiz=None, pool=None, mod=None):
        r = self.r
        c = self.next
        self.next += 1
        existing = list(self.decl) if pool is None else [x for x in self.decl if x in pool]
        kind = kind or r.choice(['leaf', 'leaf', 'root', 'root', 'sub'] if existing else ['leaf'])
        if kind in ('root', 'sub') and not existing and not force_nested:
            kind = 'leaf'
        base = None
        if kind == 'sub':
            base = r.choice(existing)
        wiz = (r.random() < 0.6) if wiz is None else wiz
        fields, own = [], []
        if base is not None:
            bd = self.decl[base]
            wiz = bd['wiz']
            fields = [list(f) for f in bd['fields']]
            names = {f[0] for f in fields}
            pool = [n for n in FIELD_POOL if n not in names]
            # prefer fields whose keys an ancestor has already seen (and negative-cached) as unknown
            seen = [n for a in [base] + bd['mro'] for n, _ in self.neg.get(a, []) if n in pool]
            picked = list(dict.fromkeys(seen))[:2] if (seen and r.random() < 0.7) else r.sample(pool, r.choice([1, 1, 2]))
            for n in picked:
                ty = r.choice(['int', 'int', 'str'])
                own.append([n, ty, r.randrange(0, 4) if ty == 'int' else r.choice(['d', 'ab', ''])])
            if self.ext and r.random() < 0.1 and 'cond_f' not in names:
                own.append(['cond_f', 'badcond', True])
        else:
            names = r.sample(FIELD_POOL, r.choice([1, 2, 2, 3]))
            req, opt = [], []
            for n in names:
                ty = r.choice(['int', 'int', 'str'] + (['datetime', 'any', 'any', 'bool', 'ulit_str', 'ulit_str', 'ulit_int',
                                                         'opt_int', 'list_int', 'dict_int'] if self.ext else []))
                if ty in ('datetime', 'any', 'ulit_str', 'ulit_int', 'opt_int', 'list_int', 'dict_int'):
                    req.append([n, ty, None])
                elif ty == 'bool':
                    opt.append([n, ty, r.random() < 0.5])
                elif r.random() < 0.55:
                    opt.append([n, ty, r.randrange(0, 4) if ty == 'int' else r.choice(['d', 'ab', ''])])
                else:
                    req.append([n, ty, None])
            if self.ext and r.random() < 0.15:
                opt.append(['cond_f', 'badcond', True])
            if self.ext and r.random() < 0.2:
                req.append(['rest', 'catchall', None])
            if self.ext and self.allow_fwd and kind == 'leaf' and r.random() < 0.18 and len(self.decl) < self.max_classes - 1:
                # forward reference to the class that will be defined NEXT (same module)
                req.append(['fwd_items', {'fwd': self.next, 'qn': self.qn_base + self.next}, None])
                if r.random() < 0.6 and not any(f[1] == 'catchall' for f in req):
                    req.append(['rest', 'catchall', None])
                self.pending_fwd = c
            nest = []
            if kind == 'root' or force_nested:
                targets = force_nested or [r.choice(existing) for _ in range(r.choice([1, 1, 2]))]
                for i, t in enumerate(targets):
                    nest.append([NEST_POOL[i], {'nested': t}, None])
            own = nest + req + opt if r.random() < 0.5 else req + nest + opt
        allf = fields + own
        mro = [] if base is None else [base] + self.decl[base]['mro']
        o = {'op': 'define', 'cid': c, 'qn': self.qn_base + c if qn is None else qn, 'mod': mod or self.mod, 'wiz': wiz, 'base': base, 'mro': mro,
             'base_qn': None if base is None else self.decl[base]['qn'],
             'inner': (gen_meta_x(r) if self.ext else gen_meta(r)) if (wiz and r.random() < 0.35) else None,
             'fields': allf, 'own_fields': own, 'tag': 'subclass' if base is not None else 'define'}
        self.decl[c] = o
        self.ops.append(o)
        if (o['inner'] or {}).get('v1') or (base is not None and wiz and base in self.v1):
            self.v1.add(c)
        return c

    def tree(self, c):
        out = [c]
        for _, ty, _ in self.decl[c]['fields']:
            if isinstance(ty, dict):
                t = ty.get('nested', ty.get('fwd'))
                if t in self.decl:
                    out.extend(self.tree(t))
        return out

    # ---- documents and instances
    def gen_doc(self, c, mode):
        r = self.r
        d = self.decl[c]
        doc = {}
        fields = list(d['fields'])
        if r.random() < 0.2:
            r.shuffle(fields)
        bad_at = r.randrange(len(fields)) if mode == 'fail' and r.random() < 0.7 else None
        for i, (name, ty, dflt) in enumerate(fields):
            if r.random() < (0.12 if dflt is None else 0.35) and not (mode != 'fail' and dflt is None):
                continue
            if mode == 'fail' and bad_at is None and dflt is None and r.random() < 0.6:
                continue           # missing required field
            anc_sp = [sp for a in d['mro'] for n, sp in self.neg.get(a, []) if n == name]
            if anc_sp and r.random() < 0.75:
                key = r.choice(anc_sp)         # the spelling an ancestor met as an unknown key
            elif mode == 'novel':
                sp = [s for s in spellings(name) if (c, s) not in self.seen_keys]
                key = r.choice(sp) if sp else r.choice(spellings(name))
            else:
                key = name if r.random() < 0.6 else r.choice(spellings(name))
            self.seen_keys[(c, key)] = True
            if ty == 'catchall':
                continue
            if isinstance(ty, dict) and 'fwd' in ty:
                val = [self.gen_doc(ty['fwd'], 'good')] if ty['fwd'] in self.decl else [{'x': 1}]
            elif isinstance(ty, dict):
                if i == bad_at:
                    val = r.choice([None, 5])
                else:
                    val = self.gen_doc(ty['nested'], 'fail' if (mode == 'fail' and bad_at is None and r.random() < 0.5) else ('novel' if mode == 'novel' else 'good'))
            elif ty == 'int':
                val = r.choice(['abc', 'x1']) if i == bad_at else r.choice([r.randrange(-3, 50), r.randrange(0, 9), str(r.randrange(0, 999)), '007', None, ''])
            elif ty == 'str':
                val = r.choice(['hello', 'v', '', r.randrange(-2, 30), None])
            elif ty == 'datetime':
                val = 'not-a-date' if i == bad_at else r.choice(['2020-01-01T00:00:00+00:00', '2021-05-06T07:08:09Z', 1577836800])
            elif ty in ('bool', 'badcond'):
                val = r.choice([True, False, 'true', 'no', 1])
            elif ty == 'ulit_str':      # the VALUE, not its type, decides which Union member applies
                val = r.choice(['fast', 'slow', 'fast', 'custom', 'x9'])
            elif ty == 'ulit_int':
                val = r.choice([1, 2, 1, 7, 40])
            elif ty == 'opt_int':
                val = r.choice([None, 3, '4'])
            elif ty == 'list_int':
                val = r.choice([[1, '2'], [], [5]])
            elif ty == 'dict_int':
                val = r.choice([{'a': 1}, {}, {'b': '2'}])
            else:
                val = r.choice([5, 'x', None, 'v2'])
            doc[key] = val
        x = r.random()
        if x < 0.35 or (mode == 'fail' and x < 0.6):
            # keys the class does not know: junk, or a field name (in some spelling) of ANOTHER class / a
            # subclass - a negative cache entry for it must never reach a class that does declare the field
            other = [n for n in FIELD_POOL if n not in {f[0] for f in fields}]
            anc_junk = [sp for a in d['mro'] for n, sp in self.neg.get(a, []) if n is None]
            if anc_junk and r.random() < 0.5:
                nm, k = None, r.choice(anc_junk)
            elif r.random() < 0.4 or not other:
                nm, k = None, r.choice(['zzz', 'extraKey', 'Unknown-Key', 'zz_top'])
            else:
                # mostly fields that some OTHER class of the program declares, mostly spelled as declared
                elsewhere = [n for n in other if any(n == f[0] for x, dd in self.decl.items() if x != c for f in dd['fields'])]
                nm = r.choice(elsewhere) if (elsewhere and r.random() < 0.7) else r.choice(other)
                k = nm if r.random() < 0.5 else r.choice(spellings(nm)[:3])
            self.neg.setdefault(c, []).append((nm, k))
            doc[k] = r.choice([1, 'q', None, 7])
        if self.ext and r.random() < 0.3:
            doc[r.choice(['ID', 'Alt-Key', 'extra', 'KeyY'])] = r.choice([3, '4'])
        if r.random() < 0.03:
            doc['_'] = 1
        if r.random() < 0.15:
            items = list(doc.items())
            r.shuffle(items)
            doc = dict(items)
        return doc

    def gen_inst(self, c, novel):
        r = self.r
        d = self.decl[c]
        fs = []
        for name, ty, dflt in d['fields']:
            if isinstance(ty, dict) and 'fwd' in ty:
                fs.append([name, {'l': [self.gen_inst(ty['fwd'], novel)] if ty['fwd'] in self.decl else []}])
                continue
            if isinstance(ty, dict):
                fs.append([name, self.gen_inst(ty['nested'], novel)])
                continue
            if ty in ('ulit_str', 'ulit_int', 'opt_int', 'list_int', 'dict_int', 'catchall'):
                fs.append([name, {'ulit_str': {'s': r.choice(['fast', 'custom'])}, 'ulit_int': {'i': r.choice([1, 7])},
                                  'opt_int': r.choice([None, {'i': 3}]), 'list_int': {'l': [{'i': 1}, {'i': 2}]},
                                  'dict_int': {'d': [['a', {'i': 1}]]},
                                  'catchall': {'d': r.choice([[], [['zz', {'i': 1}]]])}}[ty]])
                continue
            if ty == 'datetime':
                fs.append([name, {'dt': r.choice(['2020-01-01T00:00:00+00:00', '2021-05-06T07:08:09+00:00'])}])
                continue
            if ty in ('bool', 'badcond'):
                fs.append([name, {'b': r.random() < 0.5}])
                continue
            if (novel and r.random() < 0.6) or (ty == 'any' and r.random() < 0.7):
                pool = [t for t in self.VTYPES if r.random() < 0.35 or t[2] == ('str' if ty == 'str' else 'int')] or self.VTYPES
                if self.ext and (ty == 'any' or r.random() < 0.2):
                    pool = self.VTYPES + self.VTYPES_X * 3
                mixins, chain, root = r.choice(pool)
                self.seen_vt.add((tuple(mixins), tuple(chain), root))
                z = dflt if (isinstance(dflt, int) and not isinstance(dflt, bool) and r.random() < 0.3) else r.randrange(-3, 40)
                fs.append([name, {'sub': {'mixins': mixins, 'chain': chain, 'root': root}, 'z': z}])
            elif dflt is not None and r.random() < 0.4:
                fs.append([name, {'i': dflt} if isinstance(dflt, int) else {'s': dflt}])
            elif ty == 'int':
                fs.append([name, {'i': r.randrange(-3, 40)}])
            elif ty == 'any':
                fs.append([name, r.choice([None, {'i': 3}, {'s': 'q'}])])
            else:
                fs.append([name, {'s': r.choice(['hello', 'd', '', 'v2'])}])
        return {'c': c, 'f': fs}

    # ---- operations
    def use(self, c=None, kind=None):
        r = self.r
        c = c if c is not None else r.choice(list(self.decl))
        d = self.decl[c]
        kind = kind or r.choice(['load', 'load', 'fail', 'novel', 'dump', 'dump', 'subtype'])
        attr = d['wiz'] and r.random() < 0.6
        if kind in ('load', 'fail', 'novel'):
            o = {'op': 'load', 'cid': c, 'attr': attr, 'doc': self.gen_doc(c, {'load': 'good', 'fail': 'fail', 'novel': 'novel'}[kind]),
                 'tag': {'load': 'load', 'fail': 'failing_load', 'novel': 'novel_key'}[kind]}
        else:
            o = {'op': 'dump', 'attr': attr, 'inst': self.gen_inst(c, kind == 'subtype'), 'tag': 'dump' if kind == 'dump' else 'novel_subtype'}
        self.touched.update(self.tree(c))
        self.ops.append(o)
        if o['op'] == 'load':
            self.loaded.append(c)
        return o

    def bind(self, c=None):
        cands = [x for x in self.decl if x not in self.touched] if c is None else [c]
        if not cands:
            return None
        c = self.r.choice(cands)
        o = {'op': 'bind', 'cid': c, 'meta': gen_meta_x(self.r) if self.ext else gen_meta(self.r), 'tag': 'bind'}
        self.ops.append(o)
        if o['meta'].get('v1'):
            self.v1.add(c)
        return o

    def subclass_after_use(self):
        """a subclass of an already LOADED class, configured like its base (v1 stays v1), loaded through fromdict"""
        r = self.r
        if not self.loaded or len(self.decl) >= self.max_classes + 1:
            return False
        b = r.choice(self.loaded)
        c = self.new_class('sub', pool={b})
        if b in self.v1 and c not in self.v1:
            self.ops.append({'op': 'bind', 'cid': c, 'meta': {'ltr': None, 'dtr': None, 'raise': None, 'skipdef': None, 'rec': None, 'v1': True},
                             'tag': 'bind'})
            self.v1.add(c)
        self.use(c=c, kind=r.choice(['load', 'load', 'novel']))
        self.ops[-1]['attr'] = False
        return True


def gen_history(r, n_ops, ext=False):
    p = Prog(r, ext=ext)
    p.new_class('leaf')
    while len(p.ops) < n_ops:
        x = r.random()
        left = n_ops - len(p.ops)
        if p.pending_fwd is not None:
            # generation-time failure, then the cause is removed (the referenced class gets defined), then a retry
            c0, p.pending_fwd = p.pending_fwd, None
            if r.random() < 0.6:
                o = p.bind(c0)
                if o is not None:
                    o['meta']['v1'] = True
                    p.v1.add(c0)
            if r.random() < 0.8:
                p.use(c=c0, kind=r.choice(['load', 'load', 'dump']))
            p.new_class('leaf')
            p.use(c=c0, kind='load')
        elif x > 0.86 and left > 1 and p.subclass_after_use():
            pass
        elif len(p.decl) < p.max_classes and x < (0.45 if len(p.decl) < 2 else 0.22) and left > 1:
            p.new_class()
        elif x < 0.34 and p.bind() is not None:
            pass
        else:
            o = p.use()
            # the same call again (a retried failing call must fail the same way)
            if r.random() < (0.3 if ext else 0.15):
                p.ops.append(dict(copy.deepcopy(o), tag='repeat'))
    return p.ops[:n_ops]


def history_text(h):
    return json.dumps([{k: v for k, v in o.items() if k not in ('tag',)} for o in h], sort_keys=True)


def related_uses(h):
    """number of load/dump operations (non-trivial when >= 2 on related classes)"""
    return sum(1 for o in h if o['op'] in ('load', 'dump'))


# --------------------------------------------------------------------------- the check
def pristine_jobs(h):
    """(index, ops) for every load/dump of h: the call alone after the definitions it needs"""
    return [(i, needed_defs(h, i) + [h[i]]) for i, o in enumerate(h) if o['op'] in ('load', 'dump')]


def check_histories(ctx, histories, label, model=True, alone_sample=0.1):
    """Runs histories on the implementation (+ each op alone), on the model, compares.
    Returns list of per-history dicts: {'impl','model','alone':{i:text},'regions'}."""
    r = ctx.sub_rng(label, 'alone')
    jobs = [h for h in histories]
    pr = []
    for hi, h in enumerate(histories):
        for i, ops in pristine_jobs(h):
            pr.append((hi, i, ops))
    all_jobs = jobs + [ops for _, _, ops in pr]
    res = run_jobs(ctx, all_jobs)
    impl = res[:len(jobs)]
    alone = [dict() for _ in histories]
    for (hi, i, ops), out in zip(pr, res[len(jobs):]):
        alone[hi][i] = out[-1]
    # validate batching: a sample of pristine jobs, each in an interpreter of its own
    sample = [k for k in range(len(pr)) if r.random() < alone_sample][:120 if ctx.tier == 'quick' else 600]
    if sample:
        solo = run_jobs(ctx, [pr[k][2] for k in sample], per_proc=1, workers=10)
        for k, out in zip(sample, solo):
            hi, i, ops = pr[k]
            if out[-1] != alone[hi][i]:
                ctx.violation('%s: a call made alone gives %s in an interpreter of its own but %s when batched with unrelated classes '
                              '(classes with distinct objects, names and no shared nested class influence each other)' % (label, out[-1], alone[hi][i]),
                              {'kind': 'batch', 'ops': ops, 'solo': out[-1], 'batched': alone[hi][i]})
        ctx.hist(label + '_solo_validated', len(sample))
    mod = None
    if model:
        try:
            mod = run_model(ctx, histories, tag=label)
        except Exception as e:  # noqa
            ctx.broken_tie('model evaluation failed: %s' % str(e)[:600])
    out = []
    for hi, h in enumerate(histories):
        out.append({'impl': impl[hi], 'model': None if mod is None else mod[hi], 'alone': alone[hi], 'regions': regions_of(h)})
    return out


def shrink(ctx, h, fails, budget=40):
    """drop operations while `fails(history)` stays true (definitions needed by later ops are kept by validity check)"""
    def valid(hh):
        defined = set()
        for o in hh:
            if o['op'] == 'define':
                if o['base'] is not None and o['base'] not in defined:
                    return False
                if any(isinstance(ty, dict) and 'nested' in ty and ty['nested'] not in defined for _, ty, _ in o['fields']):
                    return False
                defined.add(o['cid'])
            elif o['op'] in ('bind', 'load'):
                if o['cid'] not in defined:
                    return False
            else:
                if any(c not in defined for c in Sim().inst_classes(o['inst'])):
                    return False
        return True
    cur = list(h)
    changed = True
    while changed and budget > 0:
        changed = False
        for i in range(len(cur) - 1, -1, -1):
            cand = cur[:i] + cur[i + 1:]
            if not cand or not valid(cand):
                continue
            budget -= 1
            if budget < 0:
                break
            try:
                if fails(cand):
                    cur = cand
                    changed = True
                    break
            except Exception:
                pass
    return cur


def direct_failures(h, impl, alone):
    """indices where the outcome in the history differs from the outcome of the call alone"""
    return [i for i in sorted(alone) if impl[i] != alone[i]]


def replay_history(ctx, h):
    res = run_jobs(ctx, [h] + [ops for _, ops in pristine_jobs(h)], per_proc=1, workers=8)
    impl = res[0]
    alone = {i: out[-1] for (i, _), out in zip(pristine_jobs(h), res[1:])}
    return impl, alone


OPEN = {'F2': 'F2-subclass-inherits-specialised', 'F10': 'F10-shared-nested-meta-leak', 'F11': 'F11-meta-initializer-qualname',
        'F40': 'F40-subclass-bind-mutates-base-meta'}


def classify_and_report(ctx, label, h, info, prop_regions):
    """direct predicate + correspondence for one history"""
    impl, mod, alone, regs = info['impl'], info['model'], info['alone'], info['regions']
    if mod is not None:
        ctx.traces_validated += 1
        if mod != impl:
            ctx.disagreements_checked += 1
            k = next((i for i in range(min(len(mod), len(impl))) if mod[i] != impl[i]), None)
            ctx.broken_tie('%s: state model and implementation disagree at operation %s: model %s, implementation %s'
                           % (label, k, None if k is None else mod[k], None if k is None else impl[k]),
                           {'history': h, 'model': mod, 'impl': impl})
    bad = direct_failures(h, impl, alone)
    for i in bad:
        # regions accumulated up to and including operation i
        here = set(regs[i])
        known = [f for f in here if f in prop_regions and ctx.is_open_region(OPEN[f])]
        # the open regions are exactly the behaviours the faithful model reproduces: inside a region the
        # changed outcome is a known finding only if it is the outcome the model predicts for today's tree
        # (a change that makes MORE leak there - another setting, another order - is a violation)
        beyond = bool(known) and mod is not None and i < len(mod) and mod[i] != impl[i]
        if known and not beyond:
            for f in known:
                ctx.hist('known_region', OPEN[f])
            continue
        if beyond:
            ctx.violation('%s: operation %d (%s on class %s) lies in the open region %s, but gives %s where today\'s behaviour '
                          '(state model) is %s; alone after its definitions: %s' % (label, i, h[i]['op'], op_class(h[i]),
                                                                                  '/'.join(known), impl[i], mod[i], alone[i]),
                          {'kind': 'history', 'history': h[:i + 1], 'full_history': h, 'index': i, 'model': mod[i]})
            continue

        def fails(hh, target=h[i]):
            if target not in hh:
                return False
            im, al = replay_history(ctx, hh)
            j = max(k for k, o in enumerate(hh) if o is target)
            return j in al and im[j] != al[j] and not (set(regions_of(hh)[j]) & set(prop_regions))
        small = shrink(ctx, h[:i + 1], fails)
        ctx.violation('%s: operation %d (%s on class %s) gives %s after this history but %s when made alone after its definitions'
                      % (label, i, h[i]['op'], h[i].get('cid', (h[i].get('inst') or {}).get('c')), impl[i], alone[i]),
                      {'kind': 'history', 'history': small, 'full_history': h, 'index': i})
    return bad


def witness_histories():
    """the Coq refutation witnesses (coq/props/C06.v, C07.v) as harness histories"""
    def cls(cid, fields, wiz=True, base=None, mro=(), inner=None, qn=None, mod='m', own=None, base_qn=None):
        return {'op': 'define', 'cid': cid, 'qn': cid if qn is None else qn, 'mod': mod, 'wiz': wiz, 'base': base, 'mro': list(mro),
                'base_qn': base_qn if base_qn is not None else (None if base is None else base), 'inner': inner,
                'fields': fields, 'own_fields': fields if own is None else own}
    M = lambda **kw: dict({'ltr': None, 'dtr': None, 'raise': None, 'skipdef': None, 'rec': None}, **kw)  # noqa
    fx = [['x', 'int', None]]
    fxy = [['x', 'int', None], ['y', 'int', 0]]
    w = {}
    w['F2-subclass-inherits-specialised'] = [
        cls(1, fx), {'op': 'load', 'cid': 1, 'attr': True, 'doc': {'x': 1}},
        cls(2, fxy, base=1, mro=[1], own=[['y', 'int', 0]]),
        {'op': 'load', 'cid': 2, 'attr': True, 'doc': {'x': 2, 'y': 7}}]
    w['F2-base-used-first'] = [
        cls(1, fx), cls(2, fxy, base=1, mro=[1], own=[['y', 'int', 0]]),
        {'op': 'dump', 'attr': True, 'inst': {'c': 1, 'f': [['x', {'i': 3}]]}},
        {'op': 'dump', 'attr': True, 'inst': {'c': 2, 'f': [['x', {'i': 3}], ['y', {'i': 9}]]}}]
    inner = [['my_val', 'int', 1]]
    w['F10-shared-nested-meta-leak'] = [
        cls(1, inner, wiz=False), cls(2, [['inner', {'nested': 1}, None]], wiz=False), cls(3, [['inner', {'nested': 1}, None]], wiz=False),
        {'op': 'bind', 'cid': 2, 'meta': M(dtr='SNAKE')}, {'op': 'bind', 'cid': 3, 'meta': M(dtr='PASCAL')},
        {'op': 'dump', 'attr': False, 'inst': {'c': 2, 'f': [['inner', {'c': 1, 'f': [['my_val', {'i': 1}]]}]]}},
        {'op': 'dump', 'attr': False, 'inst': {'c': 3, 'f': [['inner', {'c': 1, 'f': [['my_val', {'i': 1}]]}]]}}]
    w['F10-nested-alone-after'] = [
        cls(1, inner, wiz=False), cls(2, [['inner', {'nested': 1}, None]], wiz=False),
        {'op': 'bind', 'cid': 2, 'meta': M(dtr='PASCAL')},
        {'op': 'dump', 'attr': False, 'inst': {'c': 2, 'f': [['inner', {'c': 1, 'f': [['my_val', {'i': 1}]]}]]}},
        {'op': 'dump', 'attr': False, 'inst': {'c': 1, 'f': [['my_val', {'i': 1}]]}}]
    w['F10-nested-alone-first'] = [
        cls(1, inner, wiz=False), cls(2, [['inner', {'nested': 1}, None]], wiz=False),
        {'op': 'bind', 'cid': 2, 'meta': M(**{'raise': True})},
        {'op': 'load', 'cid': 1, 'attr': False, 'doc': {'my_val': 2, 'zzz': 1}},
        {'op': 'load', 'cid': 2, 'attr': False, 'doc': {'inner': {'my_val': 2, 'zzz': 1}}}]
    w['F11-meta-initializer-qualname'] = [
        cls(1, inner, qn=7, mod='a', inner=M(dtr='PASCAL', **{'raise': True})),
        cls(2, inner, qn=7, mod='b'),
        {'op': 'dump', 'attr': True, 'inst': {'c': 2, 'f': [['my_val', {'i': 1}]]}},
        {'op': 'load', 'cid': 2, 'attr': True, 'doc': {'zz': 1}}]
    w['F40-subclass-bind-mutates-base-meta'] = [
        cls(1, [['my_x', 'int', 1]], inner=M(dtr='SNAKE')),
        cls(2, [['my_x', 'int', 1], ['my_y', 'int', 2]], base=1, mro=[1], own=[['my_y', 'int', 2]]),
        {'op': 'bind', 'cid': 2, 'meta': M(skipdef=True, **{'raise': True})},
        {'op': 'load', 'cid': 1, 'attr': True, 'doc': {'my_x': 1, 'zz': 2}},
        {'op': 'dump', 'attr': True, 'inst': {'c': 1, 'f': [['my_x', {'i': 1}]]}}]
    return w


def replay_witness(ctx, fid, h, indices=None):
    """True iff the witness still fails (some load/dump differs from the call made alone)"""
    impl, alone = replay_history(ctx, h)
    bad = [i for i in sorted(alone) if impl[i] != alone[i]]
    return bool(bad), impl, alone


# =========================================================================== second state machine (typed region)
# coq/model/HistValueModel.v: values with their exact Python type, both engines' generated loaders (key cache /
# v1 key-resolution order), Pattern objects shared between classes, value-level memo.  Histories are enumerated
# SYSTEMATICALLY over three dimensions; every load / dump of a history is compared with the same call made alone
# in a pristine FORKED child (direct predicate), and the whole outcome sequence with the Coq machine `hrun_out`.
import itertools, fractions as _fr, decimal as _dec, datetime as _dtm


def XV(t, v=None):
    return {'t': t} if t == 'none' else {'t': t, 'v': v}


# groups of values that are == (and hash-equal) or near-equal but of DISTINCT exact types / spellings
EQ_GROUPS = {
    'one': [XV('bool', True), XV('int', 1), XV('float', '0x1p+0'), XV('Decimal', '1'), XV('Decimal', '1.0'), XV('Fraction', '1'), XV('str', '1'),
            XV('timedelta', 1)],
    'zero': [XV('bool', False), XV('int', 0), XV('float', '0x0p+0'), XV('float', '-0x0p+0'), XV('Decimal', '0'), XV('Decimal', '-0'), XV('str', '0'),
             XV('str', ''), XV('none')],
    'two': [XV('int', 2), XV('float', '0x1p+1'), XV('Decimal', '2'), XV('Decimal', '2.00'), XV('str', '2'), XV('str', '2.0'), XV('Fraction', '4/2')],
    'half': [XV('float', '0x1.8p+0'), XV('Decimal', '1.5'), XV('Fraction', '3/2'), XV('str', '1.5')],
    'epoch': [XV('int', 1577836800), XV('float', '0x1.7830e00000000p+30'), XV('Decimal', '1577836800'), XV('str', '1577836800'),
              XV('str', '2020-01-01T00:00:00+00:00'), XV('str', '2020-01-01T00:00:00Z'), XV('datetime', '2020-01-01T00:00:00+00:00'),
              XV('datetime', '2020-01-01T01:00:00+01:00'), XV('datetime', '2019-12-31T19:00:00-05:00'), XV('datetime', '2020-01-01T00:00:00'),
              XV('date', '2020-01-01'), XV('str', '2020-01-01')],
    'noon': [XV('time', '12:00:00+00:00'), XV('time', '13:00:00+01:00'), XV('time', '12:00:00'), XV('str', '12:00:00'), XV('str', '12:00:00Z'),
             XV('str', '12:00'), XV('int', 43200), XV('timedelta', 43200)],
    'truthy': [XV('str', 'true'), XV('str', 'True'), XV('str', 'TRUE'), XV('bool', True), XV('str', 'yes'), XV('str', 'Y'), XV('int', 1),
               XV('str', 'false'), XV('str', 'no')],
}
X_TARGETS = ['int', 'float', 'bool', 'str', 'Decimal', 'datetime', 'date', 'time', 'timedelta', 'any']


def xdef(cid, fields, eng='d', **k):
    return dict({'op': 'xdefine', 'cid': cid, 'qn': cid, 'wiz': False, 'engine': eng, 'fields': fields}, **k)


def xload(cid, doc):
    return {'op': 'xload', 'cid': cid, 'attr': False, 'doc': [[a, b] for a, b in doc]}


def xdump(cid, fs):
    return {'op': 'xdump', 'cid': cid, 'attr': False, 'f': [[a, b] for a, b in fs]}


def dim1_histories():
    """value level: ==-equal / type-distinct values through a class AND an equal-shaped unrelated class, both orders;
    one value group through classes of EVERY target type; dumps of exact-typed values"""
    out = []
    for eng in ('d', 'v1'):
        for t in X_TARGETS:
            for gname, grp in EQ_GROUPS.items():
                for rev in (False, True):
                    seq = list(reversed(grp)) if rev else grp
                    h = [xdef(1, [{'n': 'at', 't': t}], eng), xdef(2, [{'n': 'seen', 't': t}], eng)]
                    for v in seq:
                        h.append(xload(2, [('seen', v)]))
                        h.append(xload(1, [('at', v)]))
                    out.append(('v:%s:%s:%s:%d' % (eng, t, gname, rev), h))
        for gname, grp in EQ_GROUPS.items():
            for rev in (False, True):
                seq = list(reversed(grp)) if rev else grp
                ts = list(reversed(X_TARGETS)) if rev else X_TARGETS
                h = [xdef(i + 1, [{'n': 'f', 't': t}], eng) for i, t in enumerate(X_TARGETS)]
                for v in seq:
                    for t in ts:
                        h.append(xload(X_TARGETS.index(t) + 1, [('f', v)]))
                out.append(('vx:%s:%s:%d' % (eng, gname, rev), h))
        for gname, grp in EQ_GROUPS.items():
            for rev in (False, True):
                seq = list(reversed(grp)) if rev else grp
                h = [xdef(1, [{'n': 'f', 't': 'any'}], eng), xdef(2, [{'n': 'g', 't': 'any'}], eng)]
                for v in seq:
                    h.append(xdump(2, [('g', v)]))
                    h.append(xdump(1, [('f', v)]))
                out.append(('vd:%s:%s:%d' % (eng, gname, rev), h))
    return out


# formats without '-' / '+' (parsers.py swaps the parse order for time patterns containing them)
PAT_FMTS = ['%d.%m.%Y', '%Y%m%d%H%M', '%H:%M %d/%m/%y']
PAT_DOCS = {'%d.%m.%Y': ['24.12.2021', '01.02.2003'], '%Y%m%d%H%M': ['202112241530', '200302010000'],
            '%H:%M %d/%m/%y': ['15:30 24/12/21', '00:00 01/02/03']}
PAT_COMMON = [XV('str', '2021-12-24'), XV('str', '2021-12-24T15:30:00'), XV('str', '15:30:00'), XV('str', 'zz'), XV('int', 1577836800),
              XV('bool', True), XV('none'), XV('date', '2021-12-24'), XV('datetime', '2021-12-24T15:30:00'), XV('time', '15:30:00')]


def dim2_histories():
    """ONE Pattern object at positions of different date/time types (three classes, a class with three positions, a
    class with an object of its own); every set-up order; set-up by failing loads"""
    out = []
    for eng in ('d', 'v1'):
        for fi, fmt in enumerate(PAT_FMTS):
            P = lambda b, obj=1: {'pat': obj, 'fmt': fmt, 'base': b}  # noqa
            defs = [xdef(1, [{'n': 'day', 't': P('date')}], eng), xdef(2, [{'n': 'at', 't': P('datetime')}], eng),
                    xdef(3, [{'n': 'tm', 't': P('time')}], eng),
                    xdef(4, [{'n': 'a', 't': P('datetime')}, {'n': 'b', 't': P('date')}, {'n': 'c', 't': P('time'), 'd': XV('none')}], eng),
                    xdef(5, [{'n': 'own', 't': P('date', 2)}], eng)]
            fld = {1: 'day', 2: 'at', 3: 'tm', 5: 'own'}
            docs = [XV('str', s) for s in PAT_DOCS[fmt]] + PAT_COMMON
            good = docs[0]

            def ld(c, v):
                if c == 4:
                    return xload(4, [('a', v), ('b', v), ('c', v)])
                return xload(c, [(fld[c], v)])
            for perm in itertools.permutations([1, 2, 3, 4]):
                h = list(defs)
                for c in perm:
                    h.append(ld(c, good))
                for v in docs:
                    for c in (perm[-1], perm[0], 5, perm[1], perm[2]):
                        h.append(ld(c, v))
                out.append(('p:%s:%d:%s' % (eng, fi, ''.join(map(str, perm))), h))
            for a, b in itertools.permutations([1, 2, 3], 2):
                z = XV('str', 'zz')
                h = list(defs) + [ld(a, z), ld(b, z), ld(a, z), ld(a, good), ld(b, good), ld(4, z), ld(a, z)]
                out.append(('pf:%s:%d:%d%d' % (eng, fi, a, b), h))
    return out


def xspellings(name):
    ws = name.split('_')
    cap = [w[:1].upper() + w[1:] for w in ws]
    return [name, ws[0] + ''.join(cap[1:]), ''.join(cap), '-'.join(ws), '-'.join(cap), '_'.join(cap), name.upper()]


KEY_CONFIGS = ([('d', {'ltr': x}) for x in (None, 'SNAKE', 'CAMEL', 'PASCAL', 'LISP', 'NONE')] +
               [('v1', {'case': x}) for x in (None, 'AUTO', 'CAMEL', 'PASCAL', 'KEBAB', 'SNAKE')])
KEY_ALIASES = (None, ['userName', 'USER', 'user_name'], ['uname', 'User-Name'])


def dim3_histories(small=False):
    """documents with 2..3 simultaneous spellings of ONE field (every order) after a document with each single spelling;
    both engines, every key-case setting, explicit aliases, unknown keys ignored / rejected"""
    out = []
    for eng, kw in KEY_CONFIGS:
        for unknown in (None, 'RAISE'):
            for al in KEY_ALIASES:
                name = 'user_name'
                sp = list(dict.fromkeys(xspellings(name) + (al or [])))
                f = {'n': name, 't': 'str', 'd': XV('str', 'dflt')}
                if al:
                    f['al'] = al
                defs = [xdef(1, [{'n': 'id', 't': 'int', 'd': XV('int', 0)}, f], eng, unknown=unknown, **kw)]
                pool = sp[:5 if small else 6] + [a for a in (al or [])[:1] if a not in sp[:6]]
                pairs = list(itertools.permutations(pool, 2))
                triples = list(itertools.permutations(pool, 3))[::11 if small else 7]
                docs = [[(k, XV('str', 'v%d' % i)) for i, k in enumerate(m)] for m in pairs + triples]
                for s in sp:
                    h = list(defs) + [xload(1, [(s, XV('str', 'first'))])]
                    for d in docs:
                        h.append(xload(1, d))
                    out.append(('k:%s:%s:%s:al%d:%s' % (eng, list(kw.values())[0], unknown, len(al or []), s), h))
    return out


def dim3b_histories():
    """two UNRELATED classes with the same field names under different key settings (any engine pair): the key
    resolution of one must not depend on the other having been set up / loaded first"""
    out = []
    name = 'user_name'
    sp = xspellings(name)
    for (e1, k1), (e2, k2) in itertools.permutations(KEY_CONFIGS, 2):
        flds = [{'n': 'id', 't': 'int', 'd': XV('int', 0)}, {'n': name, 't': 'str', 'd': XV('str', 'dflt')}]
        h = [xdef(1, flds, e1, **k1), xdef(2, flds, e2, **k2)]
        for s_ in sp:
            h.append(xload(1, [(s_, XV('str', 'a'))]))
        for s_ in sp:
            h.append(xload(2, [(s_, XV('str', 'b'))]))
        h.append(xdump(1, [('id', XV('int', 1)), (name, XV('str', 'a'))]))
        h.append(xdump(2, [('id', XV('int', 1)), (name, XV('str', 'b'))]))
        out.append(('kk:%s:%s:%s:%s' % (e1, list(k1.values())[0], e2, list(k2.values())[0]), h))
    return out


def gen_xhistory(r):
    """random typed history: 2-4 classes (random engine / key setting / aliases / shared Pattern objects), loads with
    exact-typed values drawn from the equal-value groups under random spellings, dumps"""
    ncls = r.choice([2, 3, 3, 4])
    fmt = r.choice(PAT_FMTS)
    names = ['user_name', 'item_count', 'at', 'x']
    defs, fields_of = [], {}
    for c in range(1, ncls + 1):
        eng = r.choice(['d', 'v1'])
        kw = {'ltr': r.choice([None, None, 'SNAKE', 'CAMEL', 'PASCAL', 'LISP', 'NONE'])} if eng == 'd' else \
             {'case': r.choice([None, 'AUTO', 'AUTO', 'CAMEL', 'PASCAL', 'KEBAB', 'SNAKE'])}
        fs = []
        for n in r.sample(names, r.choice([1, 2, 2, 3])):
            t = r.choice(X_TARGETS + ['datetime', 'date', {'pat': r.choice([1, 1, 2]), 'fmt': fmt, 'base': r.choice(['date', 'datetime', 'time'])}])
            f = {'n': n, 't': t}
            if r.random() < 0.5:
                f['d'] = XV('none')
            if r.random() < 0.2 and '_' in n:
                f['al'] = r.sample(xspellings(n)[1:5] + ['alt'], 2)
            fs.append(f)
        fs.sort(key=lambda f: 'd' in f)
        defs.append(xdef(c, fs, eng, unknown=r.choice([None, None, 'RAISE']), **kw))
        fields_of[c] = fs
    h = list(defs)
    grp = r.choice(sorted(EQ_GROUPS))
    for _ in range(r.randrange(4, 14)):
        c = r.randrange(1, ncls + 1)
        fs = fields_of[c]
        if r.random() < 0.2:
            h.append(xdump(c, [(f['n'], r.choice(EQ_GROUPS[grp])) for f in fs]))
            continue
        doc = []
        for f in fs:
            if r.random() < 0.15:
                continue
            ks = r.sample(xspellings(f['n'])[:6] + list(f.get('al') or []), r.choice([1, 1, 1, 2, 3]))
            for k in dict.fromkeys(ks):
                v = r.choice(EQ_GROUPS[grp]) if r.random() < 0.8 else XV('str', r.choice(PAT_DOCS[fmt] + ['zz']))
                doc.append((k, v))
        if r.random() < 0.15:
            doc.append(('zzz', XV('int', 1)))
        if r.random() < 0.3:
            r.shuffle(doc)
        doc = list(dict(doc).items())
        h.append(xload(c, doc))
    return h


# ---- running typed histories (every job in a forked child of its own)
def run_xjobs(ctx, jobs, per_proc=160, workers=8):
    payloads = [{'fork': True, 'jobs': [{'salt': 'x%d' % (k + i), 'ops': ops} for i, ops in enumerate(jobs[k:k + per_proc])]}
                for k in range(0, len(jobs), per_proc)]
    out = []
    with cf.ThreadPoolExecutor(max_workers=workers) as ex:
        for res in ex.map(lambda p: ctx.impl('c06', p, timeout=900), payloads):
            out.extend(res['results'])
    return out


def xneeded(h, i):
    """definitions the i-th operation needs (typed classes are flat: the class itself)"""
    c = h[i]['cid']
    return [p for p in h[:i] if p['op'] == 'xdefine' and p['cid'] == c]


def jkey(x):
    return json.dumps(x, sort_keys=True)


def run_xhistories(ctx, hs):
    """-> (impl outcome lists, alone outcome dicts {index: text}); the alone calls are deduplicated"""
    akey, ajobs = {}, []
    for h in hs:
        for i, o in enumerate(h):
            if o['op'] in ('xload', 'xdump'):
                ops = xneeded(h, i) + [o]
                k = jkey(ops)
                if k not in akey:
                    akey[k] = len(ajobs)
                    ajobs.append(ops)
    res = run_xjobs(ctx, list(hs) + ajobs)
    impl = res[:len(hs)]
    alone = []
    for h in hs:
        alone.append({i: res[len(hs) + akey[jkey(xneeded(h, i) + [o])]][-1] for i, o in enumerate(h) if o['op'] in ('xload', 'xdump')})
    return impl, alone, len(ajobs)


# ---- Gallina printers
XTY = {'none': 'XNone', 'bool': 'XBool', 'int': 'XInt', 'float': 'XFloat', 'Decimal': 'XDecimal', 'Fraction': 'XFraction', 'str': 'XStr',
       'datetime': 'XDatetime', 'date': 'XDate', 'time': 'XTime', 'timedelta': 'XDelta'}
KIND = {'datetime': 'KDt', 'date': 'KDate', 'time': 'KTime'}
V1CASE = {None: 'KCNone', 'AUTO': 'KCAuto', 'CAMEL': '(KCTr TrCamel)', 'PASCAL': '(KCTr TrPascal)', 'KEBAB': '(KCTr TrLisp)', 'SNAKE': '(KCTr TrSnake)'}
_US = _dtm.timedelta(microseconds=1)


def py_of(v):
    """the Python value of an xvalue (same decoding as harness/impl/c06.py Job.xvalue)"""
    t = v['t']
    if t == 'none':
        return None
    if t in ('bool', 'int', 'str'):
        return v['v']
    if t == 'float':
        return float.fromhex(v['v'])
    if t == 'Decimal':
        return _dec.Decimal(v['v'])
    if t == 'Fraction':
        return _fr.Fraction(v['v'])
    if t == 'datetime':
        return _dtm.datetime.fromisoformat(v['v'])
    if t == 'date':
        return _dtm.date.fromisoformat(v['v'])
    if t == 'time':
        return _dtm.time.fromisoformat(v['v'])
    if t == 'timedelta':
        return _dtm.timedelta(seconds=v['v'])
    raise ValueError(t)


def xtext(v):
    """canonical typed text (same syntax as Job.xshow)"""
    t, x = v['t'], py_of(v)
    if t == 'none':
        return 'N'
    if t == 'bool':
        return 'B%d' % x
    if t == 'int':
        return 'I%d' % x
    if t == 'float':
        return 'F' + x.hex()
    if t == 'Decimal':
        return 'M' + str(x)
    if t == 'Fraction':
        return 'Q' + str(x)
    if t == 'str':
        return 'S' + x.encode('utf-8').hex()
    if t == 'datetime':
        return 'T' + x.isoformat()
    if t == 'date':
        return 'A' + x.isoformat()
    if t == 'time':
        return 'H' + x.isoformat()
    return 'W%d_%d_%d' % (x.days, x.seconds, x.microseconds)


def q_eqk(v):
    """what Python's == and hash look at (model: eqk)"""
    t, x = v['t'], py_of(v)
    if t == 'none':
        return 'QNone'
    if t in ('bool', 'int', 'float', 'Decimal', 'Fraction'):
        q = _fr.Fraction(x)
        return '(QNum %s %d%%positive)' % (q_Z(q.numerator), q.denominator)
    if t == 'str':
        return '(QStr %s)' % coq_str(x)
    if t == 'datetime':
        aware = x.utcoffset() is not None
        inst = (x - _dtm.datetime(1970, 1, 1, tzinfo=_dtm.timezone.utc if aware else None)) // _US
        return '(QMoment XDatetime %s %s)' % (q_bool(aware), q_Z(inst))
    if t == 'date':
        return '(QMoment XDate false %s)' % q_Z(x.toordinal())
    if t == 'time':
        aware = x.utcoffset() is not None
        inst = ((x.hour * 60 + x.minute) * 60 + x.second) * 10 ** 6 + x.microsecond - ((x.utcoffset() // _US) if aware else 0)
        return '(QMoment XTime %s %s)' % (q_bool(aware), q_Z(inst))
    return '(QDelta %s)' % q_Z(x // _US)


def q_xv(v):
    return '{| x_ty := %s; x_eq := %s; x_txt := %s |}' % (XTY[v['t']], q_eqk(v), coq_str(xtext(v)))


class XSyms:
    """names for the values of a run (kept in the prelude, so that histories stay short)"""

    def __init__(self):
        self.vals = {}

    def val(self, v):
        k = jkey(v)
        if k not in self.vals:
            self.vals[k] = ('xv_%d' % len(self.vals), v)
        return self.vals[k][0]

    def prelude(self):
        return '\n'.join('Definition %s : xv := %s.' % (n, q_xv(v)) for n, v in self.vals.values())


def fmt_id(fmt):
    return PAT_FMTS.index(fmt)


def q_xfty(t):
    if isinstance(t, dict):
        return '(FPat %d%%nat %d%%nat %s)' % (t['pat'], fmt_id(t['fmt']), KIND[t['base']])
    if t in KIND:
        return '(FMoment %s)' % KIND[t]
    return '(FLeaf %s)' % coq_str(t)


def leaf_name(t):
    if isinstance(t, dict):
        return 'pat%d:%s' % (fmt_id(t['fmt']), t['base'])
    return t


def q_xop(o, syms):
    if o['op'] == 'xdefine':
        fs = ['{| xf_name := %s; xf_ty := %s; xf_default := %s; xf_aliases := %s |}' % (
            coq_str(f['n']), q_xfty(f['t']), q_opt(syms.val(f['d']) if f.get('d') is not None else None),
            coq_list([coq_str(a) for a in f.get('al') or []])) for f in o['fields']]
        return '(HDefine {| xc_id := %d%%nat; xc_v1 := %s; xc_ltr := %s; xc_case := %s; xc_raise := %s; xc_fields := %s |})' % (
            o['cid'], q_bool(o['engine'] == 'v1'), q_opt(None if o.get('ltr') is None else TR_COQ[o['ltr']]),
            V1CASE[o.get('case')], q_bool(o.get('unknown') == 'RAISE'), coq_list(fs))
    if o['op'] == 'xload':
        return '(HLoad %d%%nat %s)' % (o['cid'], coq_list(['(%s, %s)' % (coq_str(k), syms.val(v)) for k, v in o['doc']]))
    return '(HDump %d%%nat %s)' % (o['cid'], coq_list(['(%s, %s)' % (coq_str(k), syms.val(v)) for k, v in o['f']]))


def model_ok(h):
    """histories inside the Coq machine's grammar"""
    for o in h:
        vs = [v for _, v in (o.get('doc') or o.get('f') or [])] + [f['d'] for f in o.get('fields') or [] if f.get('d') is not None]
        if any(v['t'] == 'list' for v in vs):
            return False
    return True


def parse_conv(text, field_hex):
    """outcome of a single-field oracle job -> Gallina cres"""
    m = re.match(r'^vc\d+\(%s=(.*)\)$' % field_hex, text) or re.match(r'^jD\{[0-9a-f]*:(.*)\}$', text)
    if m:
        return '(COk (xo %s))' % coq_str(m.group(1))
    m = re.match(r'^eP\d+:[0-9a-f]*@(.*)$', text)
    if m:
        return '(CErr (CEParse %s))' % coq_str(m.group(1))
    name = {'eV': 'ValueError', 'eX': 'IndexError', 'eA': 'AttributeError'}.get(text) or (text[2:] if text.startswith('e?') else None)
    if name is None:
        return None
    return '(CErr (CERaw %s))' % coq_str(name)


def oracle_needs(h):
    """[(table, key, job spec)]: the oracle entries the model needs to run history h"""
    out = []
    decl = {}
    for o in h:
        if o['op'] == 'xdefine':
            decl[o['cid']] = o
        elif o['op'] == 'xload':
            d = decl[o['cid']]
            v1 = d['engine'] == 'v1'
            for _, v in o['doc']:
                for f in d['fields']:
                    t = f['t']
                    if v1 or not (isinstance(t, dict) or t in KIND):
                        out.append(('conv', '%d|%s|%s' % (v1, leaf_name(t), xtext(v)), (d['engine'], t, v)))
                    else:
                        kind = t['base'] if isinstance(t, dict) else t
                        if v['t'] == 'str':
                            out.append(('iso', '%s|%s' % (kind, xtext(v)), (kind, v)))
                            if isinstance(t, dict):
                                out.append(('strp', '%d|%s|%s' % (fmt_id(t['fmt']), kind, xtext(v)), (kind, v, t['fmt'])))
                        elif v['t'] in ('int', 'float') and kind != 'time':
                            out.append(('fts', '%s|%s' % (kind, xtext(v)), (kind, v)))
        elif o['op'] == 'xdump':
            d = decl[o['cid']]
            for _, v in o['f']:
                out.append(('dump', '%d|%s' % (d['engine'] == 'v1', xtext(v)), (d['engine'], v)))
    return out


def build_oracles(ctx, hs):
    """{(table, key): Gallina entry} for the histories hs: leaf conversions / dump hooks measured on single-field classes
    in pristine forked children; fromisoformat / fromtimestamp / strptime from the stdlib (runner op xoracle)"""
    need = {}
    for h in hs:
        for tab, key, spec in oracle_needs(h):
            need.setdefault((tab, key), spec)
    jobs = []
    for (tab, key), spec in need.items():
        if tab == 'conv':
            eng, t, v = spec
            jobs.append([xdef(1, [{'n': 'f', 't': dict(t, pat=9) if isinstance(t, dict) else t}], eng), xload(1, [('f', v)])])
        elif tab == 'dump':
            eng, v = spec
            jobs.append([xdef(1, [{'n': 'f', 't': 'any'}], eng), xdump(1, [('f', v)])])
        elif tab == 'strp':
            jobs.append([{'op': 'xoracle', 'fn': 'strp', 'kind': spec[0], 'v': spec[1], 'fmt': spec[2]}])
        else:
            jobs.append([{'op': 'xoracle', 'fn': {'iso': 'iso', 'fts': 'fromts'}[tab], 'kind': spec[0], 'v': spec[1]}])
    res = run_xjobs(ctx, jobs)
    out = {}
    for (tab, key), r0 in zip(need, res):
        text = r0[-1]
        if tab in ('conv', 'dump'):
            r = parse_conv(text, '66')
        elif tab == 'fts':
            r = '(COk (xo %s))' % coq_str(text[1:]) if text.startswith('o') else '(CErr (CERaw %s))' % coq_str(text[2:])
        else:
            r = '(Some (xo %s))' % coq_str(text[1:]) if text.startswith('o') else 'None'
        if r is None:
            raise RuntimeError('oracle job gave an unexpected outcome %r for %r' % (text, key))
        out[(tab, key)] = '(%s, %s)' % (coq_str(key), r)
    ctx.hist('x_oracle_entries', len(out))
    return out


X_IMPORTS = ['PyStr', 'StrConv', 'StateModel', 'HistMemo', 'HistValueModel', 'HistShow']


def run_xmodel(ctx, hs, want, tag='xcases'):
    """the Coq machine on histories hs, compared INSIDE Coq with the outcome texts `want` (implementation): per history
    None when every outcome agrees, else (index of the first difference, model's text there)"""
    from lib.coqrun import coq_eval
    syms = XSyms()
    orc = build_oracles(ctx, hs)
    exprs = []
    for h, w in zip(hs, want):
        mine = {}
        for tab, key, _ in oracle_needs(h):
            mine.setdefault(tab, {})[key] = orc[(tab, key)]
        tabs = ' '.join(coq_list(list(mine.get(t, {}).values())) for t in ('conv', 'dump', 'iso', 'fts', 'strp'))
        exprs.append('show_hcmp %s %s %s' % (tabs, coq_list([q_xop(o, syms) for o in h]), coq_list([coq_str(x) for x in w])))
    res = coq_eval(exprs, X_IMPORTS, os.path.join(ctx.workdir, tag), prelude=syms.prelude(), jobs=8, timeout=900, shard=50)
    out = []
    for r in res:
        if r == '':
            out.append(None)
        else:
            i, _, text = r.partition(':')
            out.append((int(i), text))
    return out


def xfails(impl, alone, hh):
    j = len(hh) - 1
    return impl[j] != alone[j]


def xshrink(ctx, h, i, budget=40):
    """smallest failing history found: first every PAIR (one earlier operation A, then the target B) in one batch, then
    greedy removal of single operations"""
    target = h[i]

    def with_defs(ops):
        need = {o['cid'] for o in ops}
        return [p for p in h[:i] if p['op'] == 'xdefine' and p['cid'] in need] + ops
    try:
        pairs = [with_defs([h[k], target]) for k in range(i) if h[k]['op'] != 'xdefine']
        if pairs:
            impl, alone, _ = run_xhistories(ctx, pairs)
            for hh, im, al in zip(pairs, impl, alone):
                if xfails(im, al, hh):
                    return hh
    except Exception:
        pass
    cur = list(h[:i + 1])
    changed = True
    while changed and budget > 0:
        changed = False
        cands = []
        for k in range(len(cur) - 2, -1, -1):
            cand = cur[:k] + cur[k + 1:]
            seen, ok = set(), True
            for o in cand:
                if o['op'] == 'xdefine':
                    seen.add(o['cid'])
                elif o['cid'] not in seen:
                    ok = False
            if ok:
                cands.append(cand)
        budget -= 1
        try:
            impl, alone, _ = run_xhistories(ctx, cands)
        except Exception:
            break
        for hh, im, al in zip(cands, impl, alone):
            if xfails(im, al, hh):
                cur, changed = hh, True
                break
    return cur


def check_xhistories(ctx, label, named, model=True, model_frac=1.0):
    """direct predicate + correspondence for typed histories [(name, history)]"""
    hs = [h for _, h in named]
    impl, alone, n_alone = run_xhistories(ctx, hs)
    ctx.hist(label + '_alone_calls', n_alone)
    mod = None
    if model:
        idx = [k for k, h in enumerate(hs) if model_ok(h) and (model_frac >= 1 or ctx.sub_rng(label, 'm', k).random() < model_frac)]
        try:
            res = run_xmodel(ctx, [hs[k] for k in idx], [impl[k] for k in idx], tag=label)
            mod = dict(zip(idx, res))
        except Exception as e:  # noqa
            ctx.broken_tie('%s: typed model evaluation failed: %s' % (label, str(e)[:600]))
    reported = 0
    for k, (name, h) in enumerate(named):
        ctx.count(1, key='x:' + name + ':' + jkey(h)[-40:], nontrivial=sum(o['op'] != 'xdefine' for o in h) >= 2)
        ctx.hist(label + '_kind', name.split(':')[0] + ':' + name.split(':')[1])
        for o, out in zip(h, impl[k]):
            if o['op'] != 'xdefine':
                ctx.hist(label + '_outcome', out[:2])
        diff = None
        if mod is not None and k in mod:
            ctx.traces_validated += 1
            diff = mod[k]
            if diff is not None:
                ctx.disagreements_checked += 1
                j, text = diff
                ctx.broken_tie('%s %s: typed state model and implementation disagree at operation %d: model %s, implementation %s'
                               % (label, name, j, text, impl[k][j] if j < len(impl[k]) else None), {'history': h, 'model_at': diff, 'impl': impl[k]})
        for i in sorted(alone[k]):
            if impl[k][i] == alone[k][i]:
                continue
            if reported >= 3:
                continue
            reported += 1
            small = xshrink(ctx, h, i)
            ctx.violation('%s %s: operation %d (%s on class %s) gives %s after this history but %s when made alone in a pristine process'
                          % (label, name, i, h[i]['op'], h[i]['cid'], impl[k][i], alone[k][i]),
                          {'kind': 'xhistory', 'history': small, 'index': len(small) - 1, 'full_history': h, 'full_index': i})
    return impl, alone, mod


F73 = 'F73-shared-pattern-error-names-last-type'


def check_pyeq(ctx):
    """the model's py_eq (Python's == / hash, used by the refutation theorems) against the interpreter"""
    vals = []
    for g in EQ_GROUPS.values():
        for v in g:
            if jkey(v) not in [jkey(x) for x in vals]:
                vals.append(v)
    syms = XSyms()
    names = [syms.val(v) for v in vals]
    try:
        res = ctx.coq(['show_pyeq %s' % coq_list(names)], X_IMPORTS, prelude=syms.prelude(), tag='pyeq')[0].split(';')
    except Exception as e:  # noqa
        ctx.broken_tie('py_eq evaluation failed: %s' % str(e)[:400])
        return
    pv = [py_of(v) for v in vals]
    for a, row in zip(range(len(vals)), res):
        for b in range(len(vals)):
            try:
                want = pv[a] == pv[b] and hash(pv[a]) == hash(pv[b])
            except TypeError:
                want = False
            ctx.count(1)
            if (row[b] == '1') != bool(want):
                ctx.broken_tie('py_eq: model says %s for %s == %s, Python says %s' % (row[b], vals[a], vals[b], want))
    ctx.traces_validated += 1


def sample_strata(r, named, frac):
    """keep a fraction of the histories of every stratum (name up to its last component), at least one each"""
    groups = {}
    for name, h in named:
        groups.setdefault(name.rsplit(':', 1)[0], []).append((name, h))
    out = []
    for g in groups.values():
        n = max(1, int(round(len(g) * frac)))
        out.extend(r.sample(g, n) if n < len(g) else g)
    return out


def typed_witnesses():
    """the Coq witness of the pre-fix variant (F73, repaired by 38c6a1a; coq/proofs/HistWitness.v h_f71 / o_f71) as a typed
    history: kept in every run as a regression case"""
    P = lambda b: {'pat': 1, 'fmt': PAT_FMTS[0], 'base': b}  # noqa
    z = XV('str', 'zz')
    return {F73: [xdef(1, [{'n': 'day', 't': P('date')}]), xdef(2, [{'n': 'at', 't': P('datetime')}]),
                  xload(1, [('day', z)]), xload(2, [('at', z)]), xload(1, [('day', z)])]}


def run_typed(ctx):
    quick = ctx.tier == 'quick'
    r = ctx.sub_rng('typed')
    check_pyeq(ctx)
    d1, d2, d3 = dim1_histories(), dim2_histories(), dim3_histories(small=quick)
    if quick:
        # quick tier: one of the two orders for 60% of the (engine, target, value group) strata; a quarter of the set-up
        # permutations per (engine, format); a quarter of the first spellings per (engine, key setting, unknown, aliases);
        # the Coq machine runs on half of them.  The thorough tier runs everything.
        d1 = [x for x in sample_strata(r, d1, 0.5) if r.random() < 0.5]
        d2 = sample_strata(r, d2, 0.25)
        # of the six (unknown keys, aliases) variants of every (engine, key setting) three are kept: one of the two
        # without aliases (where the key setting itself decides the lookup order), two of the four with aliases
        var = {}
        for n, _ in d3:
            var.setdefault(':'.join(n.split(':')[:3]), set()).add(':'.join(n.split(':')[:5]))
        keep = set()
        for ss in var.values():
            plain = sorted(x for x in ss if x.endswith(':al0'))
            keep.update(r.sample(plain, 1) + r.sample(sorted(ss - set(plain)), 2))
        d3 = sample_strata(r, [x for x in d3 if ':'.join(x[0].split(':')[:5]) in keep], 0.25)
    d3b = dim3b_histories()
    if quick:
        d3b = [x for x in sample_strata(r, d3b, 0.3)]      # stratum = (first class's setting, second class's engine)
    named = d1 + d2 + d3 + d3b + [('w:%s:x' % fid, h) for fid, h in typed_witnesses().items()]
    check_xhistories(ctx, 'C06t', named, model_frac=0.4 if quick else 1.0)
    # random typed histories
    rr = ctx.sub_rng('typed_random')
    rnd = [('r:%d:x' % k, gen_xhistory(rr)) for k in range(60 if quick else 1500)]
    impl, alone, mod = check_xhistories(ctx, 'C06tr', rnd, model_frac=1.0 if quick else 0.5)
    ctx.sample({'typed_history': rnd[0][1], 'impl': impl[0], 'alone': alone[0], 'model_difference': None if mod is None else mod.get(0)})


def run(ctx):
    quick = ctx.tier == 'quick'
    r = ctx.sub_rng('histories')
    # 1. listed findings: replay the witnesses
    wit = witness_histories()
    for f in ctx.findings('open'):
        h = (f.get('witness') or {}).get('history') or wit.get(f['id'])
        if h is None:
            continue
        still, impl, alone = replay_witness(ctx, f['id'], h)
        ctx.count(1, key='witness:' + f['id'])
        ctx.known_finding(f['id'], still_fails=still)
    # 2. generated histories (grammar of the Coq model: correspondence + direct predicate)
    n = 420 if quick else 6000
    hs = []
    for _ in range(n):
        hs.append(gen_history(r, r.choice([2, 3, 4, 5, 6, 7, 8, 9, 10, 11, 12])))
    hs.extend(wit.values())
    infos = check_histories(ctx, hs, 'c06')
    for h, info in zip(hs, infos):
        key = history_text(h)
        ctx.count(1, key=key, nontrivial=related_uses(h) >= 2)
        ctx.hist('length', len(h))
        for o in h:
            ctx.hist('op', o.get('tag', o['op']))
        for o, out in zip(h, info['impl']):
            if o['op'] in ('load', 'dump'):
                ctx.hist('outcome', 'error' if out.startswith('e') else 'value')
        classify_and_report(ctx, 'C06', h, info, ('F2', 'F10', 'F40', 'F11'))
    ctx.sample({'history': hs[0], 'impl': infos[0]['impl'], 'model': infos[0]['model'], 'alone': infos[0]['alone']})
    ctx.sample({'history': hs[7], 'impl': infos[7]['impl'], 'alone': infos[7]['alone']})
    # 2b. extended grammar (direct predicate only; features outside the Coq model): setup-time failures
    #     (a bare Condition annotation makes the dump setup raise) with the call retried, datetime / Any / bool
    #     fields, list-rooted value types with mixins, Meta settings auto_assign_tags / tag_key /
    #     marshal_date_time_as / skip_if / json_key_to_field built from SHARED Python objects
    rx = ctx.sub_rng('histories_x')
    hx = [gen_history(rx, rx.choice([3, 4, 5, 6, 7, 8, 9, 10, 11, 12]), ext=True) for _ in range(300 if quick else 4000)]
    infx = check_histories(ctx, hx, 'c06x', model=False, alone_sample=0.05)
    for h, info in zip(hx, infx):
        ctx.count(1, key='x:' + history_text(h), nontrivial=related_uses(h) >= 2)
        ctx.hist('length_x', len(h))
        for o, out in zip(h, info['impl']):
            if o['op'] in ('load', 'dump'):
                ctx.hist('outcome_x', out[:2] + out[2:].split(':')[0][:24] if out.startswith('e') else 'value')
                ctx.hist('op_x', o.get('tag', o['op']))
        classify_and_report(ctx, 'C06x', h, info, ('F2', 'F10', 'F40', 'F11'))
    ctx.sample({'extended_history': hx[0], 'impl': infx[0]['impl'], 'alone': infx[0]['alone']})
    # 3. strict setting: the same offending document is rejected every time (F1 repaired) - direct
    strict = []
    for k in range(20 if quick else 200):
        p = Prog(ctx.sub_rng('strict', k))
        c = p.new_class('leaf')
        p.ops.append({'op': 'bind', 'cid': c, 'meta': {'ltr': None, 'dtr': None, 'raise': True, 'skipdef': None, 'rec': None}})
        doc = p.gen_doc(c, 'good')
        doc['zzz'] = 1
        for _ in range(3):
            p.ops.append({'op': 'load', 'cid': c, 'attr': False, 'doc': doc})
        strict.append(p.ops)
    for h, out in zip(strict, run_jobs(ctx, strict)):
        ctx.count(1, key='strict:' + history_text(h))
        if not (out[-1] == out[-2] == out[-3] and out[-1].startswith('eU')):
            ctx.violation('raise_on_unknown_json_key: the same offending document gives %s, %s, %s on three consecutive loads' % tuple(out[-3:]),
                          {'kind': 'history', 'history': h, 'index': len(h) - 1, 'strict': True})
    # 4. the typed region (second state machine): exact value types, key spellings on both engines, shared annotation objects
    run_typed(ctx)


def replay(ctx, obj):
    if obj.get('kind') == 'history':
        h = obj['history']
        impl, alone = replay_history(ctx, h)
        ok = True
        for i in sorted(alone):
            same = impl[i] == alone[i]
            print('op %d %s: in history %s | alone %s%s' % (i, h[i]['op'], impl[i], alone[i], '' if same else '   <-- differs'))
            ok = ok and same
        if obj.get('strict'):
            ok = ok and impl[-1].startswith('eU') and impl[-1] == impl[-2] == impl[-3]
        return ok
    if obj.get('kind') == 'xhistory':
        h = obj['history']
        impl, alone, _ = run_xhistories(ctx, [h])
        ok = True
        for i in sorted(alone[0]):
            same = impl[0][i] == alone[0][i]
            print('op %d %s: in history %s | alone (pristine forked process) %s%s' % (i, h[i]['op'], impl[0][i], alone[0][i], '' if same else '   <-- differs'))
            ok = ok and same
        return ok
    if obj.get('kind') == 'batch':
        solo = run_jobs(ctx, [obj['ops']], per_proc=1)[0][-1]
        print('alone: %s' % solo)
        return True
    if 'finding' in obj:
        h = (obj.get('witness') or {}).get('history') or witness_histories().get(obj['finding'])
        if h:
            still, impl, alone = replay_witness(ctx, obj['finding'], h)
            print('impl %s alone %s' % (impl, alone))
            return not still
    print('replay object names a broken tie, not an input: %s' % json.dumps(obj)[:1500])
    return False
