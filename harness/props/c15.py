"""C15 — generated code is well-formed for every class; spelling never changes behaviour.

Theorems: coq/props/C15.v (string literals: GenPyLit; name structure of the generated
functions: GenNames).  This module
  * ties the literal model to Python's own repr() / ast.literal_eval (exhaustive small
    alphabet + random),
  * generates dataclass models M (default engine, v1 engine, EnvWizard; JSONWizard mixin;
    aliases, tags, paths, defaults, skip conditions, catch-all, nested classes, containers,
    enums, NamedTuple, TypedDict, Union, Literal), each run in a fresh interpreter with hook
    H1 (the registry of generated function sources),
  * evaluates the DIRECT PREDICATES of the property on the implementation:
      (P1) every generated function parses and every name it loads is a parameter, a local,
           a closure cell, a key of the globals dict it is exec'ed in, or a builtin
           (Python's own symtable decides), and no user-derived identifier shadows a
           closure/global name of the generator;
      (P2) renaming: load_{r(M)}(r(j)) == r(load_M(j)) and dump likewise, for injective
           renamings r of field names (into generator-internal names and builtins), of
           class/enum names (into builtins; and non-injective on __name__ = F9 region),
           of alias / tag strings (into text with quotes, backslashes, braces, newlines,
           non-ASCII),
  * compares the GenNames model of each covered generated function (params, closure,
    globals, loaded names, bound names, free names, string constants, attribute names)
    with Python's view of the registered source.
"""
import json, itertools, keyword, copy, concurrent.futures as cf
from lib.coqrun import coq_str, coq_list, coq_bool, coq_opt

META = {
    'id': 'C15',
    'title': 'Generated code is well-formed for every class; spelling never changes behaviour',
    'level': 'proof',
    'technique': ('Coq proof (induction over strings / field lists) on a hand-written Gallina model of Python string '
                  'literals and of the name structure of the generated functions + differential correspondence with '
                  'the implementation through hook H1 + direct predicates (symtable closedness, renaming experiment)'),
    'design_ref': 'DESIGN.md section 4 C15',
    'theorems': ['C15_repr_roundtrip', 'C15_repr_self_delimiting', 'C15_repr_line_safe',
                 'C15_bare_splice_partial', 'C15_bare_splice_refuted',
                 'C15_closed_v0_load', 'C15_closed_v0_dump',
                 'C15_closed_env', 'C15_closed_v1_load',
                 'C15_show_nat_injective', 'C15_index_names_injective',
                 'C15_v0_dump_rename_invariant', 'C15_v0_load_no_collision',
                 'C15_v1_field_locals_partial', 'C15_v1_field_local_refuted',
                 'C15_env_no_collision_partial', 'C15_env_collision_refuted',
                 'C15_v1_fn_name_injective', 'C15_type_local_injective',
                 'C15_helper_table_partial', 'C15_helper_table_refuted_same_name',
                 'C15_type_local_table_partial', 'C15_type_local_refuted_same_name'],
    'tables': [],
    'level_text': ('Theorems proved in Coq for ALL byte strings (repr round trip, self-delimitation) and for ALL class '
                   'shapes (any number of fields, any names) about an executable model of the four code generators\' '
                   'name structure; the model is re-validated on every run against Python\'s own repr/literal_eval and '
                   'against Python\'s symtable/ast view of every function the library generates (hook H1); the renaming '
                   'statement itself is tested directly on the implementation (fresh interpreter per model).'),
    'level_note': ('Trusted: Coq kernel + vm_compute; the hand-written models GenPyLit/GenNames (validated by correspondence); '
                   'Python\'s symtable as the judge of scoping; the harness. The step from "identifiers do not collide" to '
                   '"behaviour is invariant" (alpha-renaming of Python code) is argued, not mechanised; it is what the '
                   'renaming experiment tests.'),
    'rule': ('literals: exhaustive over a 14-symbol alphabet (both quotes, backslash, newline, CR, tab, NUL, DEL, brace, '
             'letters, non-ASCII) up to length 3 (quick) / 4 (thorough) + random; literal reader: exhaustive bodies up to '
             'length 4 (thorough: + 40000 of length 5) + mutations; models: random dataclass models x engines {v0, v1, env} x {plain, JSONWizard}, each '
             'with 4 renamings (derived-name collisions, fields->internal names/builtins, types->builtins or equal names, strings->hostile text); '
             'distinct = distinct (model, renaming) / distinct string; non-trivial = the renaming changes at least one '
             'identifier that occurs in generated code or one spliced string (models), the string needs an escape (literals).'),
    'trusted_base': ['model coq/model/GenPyLit.v (repr / literal lexer; bytes >= 128 transparent)',
                     'model coq/model/GenNames.v (transcription of the four generators as name skeletons)',
                     'Python symtable/ast as the reference for scoping of the generated source'],
    'assumptions': ['non-printable non-ASCII characters (which repr escapes as \\x../\\u....) are outside the literal model; '
                    'the direct predicate literal_eval(repr(s)) == s is still tested on them',
                    'class names, enum names and field names are Python identifiers that are not keywords',
                    'key transform NONE / explicit keys (letter casing is C08)'],
}

def coq_eval(ctx, exprs, imports, tag, shard=200):
    """like ctx.coq, with a shard size that fits the output volume (the show_fn strings are
    long: 200 of them in one vm_compute overflow the stack) and one retry (a shard can be
    killed when the machine is overloaded)"""
    import os, time
    from lib import coqrun
    jobs = 8 if ctx.tier == 'quick' else 14
    try:
        return coqrun.coq_eval(exprs, imports, os.path.join(ctx.workdir, tag), jobs=jobs, timeout=900, shard=shard)
    except Exception:
        time.sleep(3)
        return coqrun.coq_eval(exprs, imports, os.path.join(ctx.workdir, tag + '_retry'), jobs=jobs, timeout=900,
                               shard=shard)


# =========================================================================== literals
ALPHA_REPR = ["a", "'", '"', "\\", "\n", "\t", "\x00", "\x7f", "{", "\r", "x", "4", "é", "n"]
ALPHA_LIT = ["a", "'", '"', "\\", "\n", "x", "4", "n", "é", "0", "N", "{", "\r", "t"]


def literal_cases(ctx):
    r = ctx.sub_rng('lits')
    L = 3 if ctx.tier == 'quick' else 4
    reprs = [''.join(t) for n in range(0, L + 1) for t in itertools.product(ALPHA_REPR, repeat=n)]
    pool = [chr(c) for c in range(0, 128)] + list('éü中яλ') + ["'", '"', '\\'] * 6
    for _ in range(400 if ctx.tier == 'quick' else 4000):
        n = r.choice([1, 2, 3, 5, 8, 13, 30])
        reprs.append(''.join(r.choice(pool) for _ in range(n)))
    reprs = list(dict.fromkeys(reprs))
    # non-printable non-ASCII: direct predicate only
    extra = ['\x80', '\xad', ' ', 'a​b', '퟿', '\U0001f600', '؀']
    lits = []
    for q in "'\"":
        for n in range(0, 5):
            for t in itertools.product(ALPHA_LIT, repeat=n):
                body = ''.join(t)
                lits.append(q + body + q)
                if n <= 3:
                    lits.append(q + body)
    if ctx.tier == 'quick':
        r.shuffle(lits)
        lits = lits[:14000]
    else:   # all bodies up to length 4, a sample of length 5
        for _ in range(40000):
            q = r.choice("'\"")
            lits.append(q + ''.join(r.choice(ALPHA_LIT) for _ in range(5)) + q)
    for _ in range(300 if ctx.tier == 'quick' else 3000):
        s = ''.join(r.choice(pool) for _ in range(r.choice([1, 2, 4, 8])))
        t = repr(s)
        lits.append(t)
        i = r.randrange(len(t))
        lits.append(t[:i] + r.choice(["'", '"', '\\', 'x', '\n', '']) + t[i + 1:])
    lits = list(dict.fromkeys(lits))
    return reprs, extra, lits


def model_domain(s):
    """strings the literal model covers: ASCII + printable non-ASCII"""
    return all(ord(c) < 128 or c.isprintable() for c in s)


def run_literals(ctx):
    reprs, extra, lits = literal_cases(ctx)
    impl = ctx.impl('c15', {'kind': 'lits', 'repr': reprs + extra, 'lit': lits})
    # direct predicate: every repr splice evaluates back to the string
    for s, ok in zip(reprs + extra, impl['eval_repr']):
        ctx.count(1, key='rp:' + s, nontrivial=any(c in s for c in "'\"\\\n\r\t\x00{}") or not s.isascii())
        if not ok:
            ctx.violation('ast.literal_eval(repr(%r)) != the string' % s, {'kind': 'repr', 'string': s})
    dom = [s for s in reprs if model_domain(s)]
    try:
        model = coq_eval(ctx, ['py_repr %s' % coq_str(s) for s in dom] + ['show_lit %s' % coq_str(t) for t in lits],
                         ['GenPyLit'], 'lits')
    except Exception as e:
        ctx.broken_tie('literal model evaluation failed: %s' % str(e)[:400])
        return
    impl_repr = dict(zip(reprs + extra, impl['repr']))
    nd = 0
    for s, m in zip(dom, model[:len(dom)]):
        ctx.traces_validated += 1
        if m != impl_repr[s]:
            nd += 1
            ctx.disagreements_checked += 1
            if nd <= 5:
                ctx.broken_tie('py_repr model differs from repr()', {'string': s, 'model': m, 'impl': impl_repr[s]})
    cnt = {}
    for t, m, p in zip(lits, model[len(dom):], impl['lit']):
        ctx.count(1, key='lt:' + t, nontrivial='\\' in t)
        cnt[m[:1]] = cnt.get(m[:1], 0) + 1
        if m[:1] in ('U', 'T'):
            continue
        ctx.traces_validated += 1
        if m != p:
            nd += 1
            ctx.disagreements_checked += 1
            if nd <= 10:
                ctx.broken_tie('literal reader model differs from ast.literal_eval', {'text': t, 'model': m, 'impl': p})
    ctx.hist('literals', 'repr=%d reader=%d outcomes=%s' % (len(dom), len(lits), json.dumps(cnt, sort_keys=True)))
    ctx.sample({'string': "it's", 'repr': impl_repr.get("a'", None) or repr("it's")})


# =========================================================================== model generator
def tok(prefix, i):
    return prefix + chr(97 + (i // 26) % 26) + chr(97 + i % 26)


class Gen:
    """A random dataclass model over canonical tokens (f.. fields, T.. types, k.. keys, g.. tags)."""

    def __init__(self, r, engine):
        self.r, self.engine = r, engine
        self.n = {'f': 0, 'T': 0, 'k': 0, 'g': 0, 's': 0, 'e': 0, 'n': 0}
        self.types = []
        self.ids = 0

    def t(self, p):
        self.n[p] += 1
        return tok(p, self.n[p] - 1)

    def new_id(self, p):
        self.ids += 1
        return '%s%d' % (p, self.ids)

    def enum(self):
        t = {'kind': 'enum', 'id': self.new_id('E'), 'name': self.t('T'),
             'members': [['M' + chr(65 + i), self.t('e')] for i in range(self.r.choice([1, 2, 3]))]}
        self.types.append(t)
        return t

    def namedtuple(self):
        fs = [{'name': self.t('n'), 'type': self.r.choice(['int', 'str'])}]
        if self.r.random() < 0.5:
            fs.append({'name': self.t('n'), 'type': 'str', 'default': ['val', self.t('s')]})
        t = {'kind': 'namedtuple', 'id': self.new_id('N'), 'name': self.t('T'), 'fields': fs}
        self.types.append(t)
        return t

    def typeddict(self):
        t = {'kind': 'typeddict', 'id': self.new_id('Y'), 'name': self.t('T'),
             'fields': [{'name': self.t('n'), 'type': self.r.choice(['int', 'str'])} for _ in range(self.r.choice([1, 2]))]}
        self.types.append(t)
        return t

    LEAF_VALUES = {'date': ('2021-03-04', '2019-12-31'), 'time': ('10:20:30', '23:05:00'),
                   'datetime': ('2021-03-04T10:20:30', '2019-12-31T23:05:00'), 'Decimal': ('1.25', '7.5')}
    PATTERNS = {'date': '%d/%m/%Y', 'time': '%Hh%M', 'datetime': '%d/%m/%Y %H:%M'}

    def leaf(self, base=None):
        """a user subclass of date / time / datetime / Decimal"""
        t = {'kind': 'leaf', 'id': self.new_id('L'), 'name': self.t('T'),
             'base': base or self.r.choice(['date', 'date', 'time', 'datetime', 'Decimal'])}
        self.types.append(t)
        return t

    def simple_type(self):
        return self.r.choice(['int', 'str', 'float', 'bool', 'int', 'str'])

    def field_type(self, refs, depth=0):
        r = self.r
        x = r.random()
        if x < 0.40 or depth >= 2:
            return self.simple_type()
        if x < 0.62 and refs:
            ref = r.choice(refs)
            ts = [t for t in self.types if t['id'] == ref][0]
            if ts['kind'] == 'leaf' and ts['base'] in self.PATTERNS and self.engine == 'v1' and r.random() < 0.6:
                # patterned position; ONE pattern object per base type and model
                pid = 'P_' + ts['base']
                self.patterns[pid] = self.PATTERNS[ts['base']]
                inner = ['ref', ref] if r.random() < 0.75 else ['list', ['ref', ref]]
                return ['pat', inner, pid]
            return ['ref', ref]
        if x < 0.74:
            return ['list', self.field_type(refs, depth + 1)]
        if x < 0.82:
            return ['dict', self.field_type(refs, depth + 1)]
        if x < 0.88:
            return ['opt', self.field_type(refs, depth + 1)]
        if x < 0.92:
            return ['union', 'int', 'str']
        if x < 0.96:
            return ['lit', self.t('s'), r.choice([1, 2, 3])]
        return ['tuplev', self.simple_type()]

    def dataclass(self, refs, dc_refs, n_fields=None, allow_union=True):
        r, eng = self.r, self.engine
        k = n_fields or r.choice([1, 2, 3, 3, 4, 5])
        fields = []
        for _ in range(k):
            f = {'name': self.t('f')}
            f['type'] = self.field_type(refs)
            x = r.random()
            if x < 0.22:
                f['alias'] = self.t('k')
            elif x < 0.34:
                f['path'] = [self.t('k') for _ in range(r.choice([1, 2, 2, 3]))]
            elif x < 0.42 and eng == 'v1':
                f['aliases'] = [self.t('k') for _ in range(r.choice([2, 3]))]
                r.shuffle(f['aliases'])     # declaration order is what counts, not the spelling
            elif x < 0.54 and isinstance(f['type'], str) and f['type'] in ('int', 'str'):
                # the dumper is shared by both engines; 'eqc' = a value passed through a closure variable
                f['skip_if'] = r.choice([['truthy'], ['falsy'], ['eq', 3], ['isnone'], ['eqc', '1.5'], ['eqc', '1.5'],
                                         ['eqc', '2.5']])
            elif x < 0.58 and eng == 'v0':
                f['nodump'] = True
            if r.random() < 0.4 or f.get('nodump'):
                f['default'] = self.default_for(f['type'])
                if f['default'] is None:
                    f.pop('default')
                    f.pop('nodump', None)
            fields.append(f)
        # union of tagged dataclasses
        if allow_union and len(dc_refs) >= 2 and r.random() < 0.35:
            a, b = r.sample(dc_refs, 2)
            fields.append({'name': self.t('f'), 'type': ['union', ['ref', a], ['ref', b]]})
            self.union_members.update([a, b])
        if r.random() < 0.15:
            f = {'name': self.t('f'), 'catch_all': True, 'type': 'int'}
            if r.random() < 0.6:
                f['default'] = ['val', None]
            fields.append(f)
        fields.sort(key=lambda f: f.get('default') is not None)   # stable: required first
        t = {'kind': 'dataclass', 'id': self.new_id('D'), 'name': self.t('T'), 'fields': fields, 'tag': None}
        self.types.append(t)
        return t

    def default_for(self, t):
        r = self.r
        if t == 'int':
            return ['val', r.choice([0, 3, 7])]
        if t == 'str':
            return ['val', self.t('s')]
        if t == 'float':
            return ['val', 1.5]
        if t == 'bool':
            return ['val', r.choice([True, False])]
        if t[0] == 'list':
            return ['list']
        if t[0] == 'dict':
            return ['dict']
        if t[0] == 'opt':
            return ['val', None]
        return None

    def model(self):
        r = self.r
        self.union_members = set()
        self.patterns = {}
        refs = []
        focus = getattr(self, 'focus', None)      # a focused model has two types of one kind, used apart
        self.focus_pair = None
        if focus == 'leaf':
            a = self.leaf(r.choice(['date', 'date', 'time', 'time', 'datetime', 'datetime', 'Decimal']))
            b = self.leaf(a['base'])
        elif focus:
            a, b = getattr(self, focus)(), getattr(self, focus)()
        if focus:
            self.focus_pair = (a['name'], b['name'])
            self.focus_ids = [a['id'], b['id']]
            refs += self.focus_ids
        for _ in range(r.choice([0, 1, 1, 2])):
            refs.append(self.enum()['id'])
        for _ in range(r.choice([0, 0, 1, 1, 2])):      # two of a kind: same-name renamings across classes
            refs.append(self.namedtuple()['id'])
        for _ in range(r.choice([0, 0, 1, 2])):
            refs.append(self.typeddict()['id'])
        if r.random() < 0.45:
            a = self.leaf()
            refs.append(a['id'])
            if r.random() < 0.7:                        # a second subclass of the same base
                refs.append(self.leaf(a['base'])['id'])
        dcs = []
        for _ in range(r.choice([1, 2, 2]) if focus else r.choice([0, 1, 2, 2, 3])):
            d = self.dataclass(refs + dcs[-1:], [], allow_union=False)
            dcs.append(d['id'])
        root = self.dataclass(refs + dcs, dcs)
        # make sure every nested dataclass is used at least somewhere (so that equal names matter)
        used = json.dumps(root['fields'])
        for d in dcs:
            if '"%s"' % d not in used and r.random() < 0.7:
                root['fields'].insert(0, {'name': self.t('f'), 'type': ['ref', d]})
        # every enum / NamedTuple / TypedDict / leaf subclass is used somewhere, spread over the classes
        # (so that equal names of two types meet in different classes and fields, not only in one)
        all_dcs = [t for t in self.types if t['kind'] == 'dataclass']
        used = json.dumps([t['fields'] for t in all_dcs])
        fids = getattr(self, 'focus_ids', []) if focus else []
        spread = list(all_dcs)
        r.shuffle(spread)
        both_patterned = r.random() < 0.75
        for tid in refs:
            forced = tid in fids
            if not forced and ('"%s"' % tid in used or r.random() < 0.15):
                continue
            ts = self.tspec({'types': self.types}, tid)
            ft = ['ref', tid]
            if ts['kind'] == 'leaf' and ts['base'] in self.PATTERNS and self.engine == 'v1' and (
                    both_patterned if forced else r.random() < 0.7):
                pid = 'P_' + ts['base']
                self.patterns[pid] = self.PATTERNS[ts['base']]
                ft = ['pat', ft if r.random() < 0.75 else ['list', ft], pid]
            elif r.random() < 0.25:
                ft = ['list', ft]
            target = spread[fids.index(tid) % len(spread)] if forced and r.random() < 0.7 else r.choice(all_dcs)
            target['fields'].insert(0, {'name': self.t('f'), 'type': ft})
        # nested classes with their OWN Meta, different from the root's, in settings that change
        # which names the generated code mentions (unknown-key action)
        for t in self.types:
            if t['kind'] == 'dataclass' and t['id'] != root['id'] and r.random() < 0.4:
                t['meta'] = ({'v1_unknown': r.choice(['RAISE', 'WARN'])} if self.engine == 'v1'
                             else {'raise_unknown': True})
        meta = {}
        if self.union_members:
            if r.random() < 0.5:
                meta['auto_tags'] = True
            else:
                for t in self.types:
                    if t['id'] in self.union_members:
                        t['tag'] = self.t('g')
            if r.random() < 0.5:
                meta['tag_key'] = self.t('g')
        if self.engine == 'v0':
            if r.random() < 0.2:
                meta['raise_unknown'] = True
        else:
            if r.random() < 0.3:
                meta['v1_unknown'] = r.choice(['RAISE', 'WARN'])
        # the dumper is shared by both engines
        if r.random() < 0.2:
            meta['skip_defaults'] = True
        if r.random() < 0.15:
            meta['skip_if'] = r.choice([['truthy'], ['isnone'], ['eqc', '1.5']])
        has_ca_default = any(f.get('catch_all') and f.get('default') is not None
                             for t in self.types if t['kind'] == 'dataclass' for f in t['fields'])
        if r.random() < (0.6 if has_ca_default else 0.12):
            meta['skip_defaults_if'] = r.choice([['isnone'], ['falsy'], ['eqc', '1.5']])
        spec = {'engine': self.engine, 'mixin': r.random() < 0.3, 'types': self.types, 'root': root['id'], 'meta': meta,
                'patterns': self.patterns}
        spec['ops'] = self.ops(spec)
        return spec

    # ---- documents ---------------------------------------------------------
    def tspec(self, spec, tid):
        return [t for t in spec['types'] if t['id'] == tid][0]

    def doc_for(self, spec, t, bad=False):
        r = self.r
        if isinstance(t, str):
            if t == 'int':
                return r.choice([1, 2, 5, 12])
            if t == 'str':
                return self.t('s')
            if t == 'float':
                return r.choice([0.5, 2.25])
            return r.choice([True, False])
        k = t[0]
        if k == 'pat':
            import datetime as _dt

            def fmt(inner):
                if inner[0] == 'list':
                    return [fmt(inner[1]) for _ in range(r.choice([1, 2]))]
                base = self.tspec(spec, inner[1])['base']
                iso = r.choice(self.LEAF_VALUES[base])
                obj = {'date': _dt.date, 'time': _dt.time, 'datetime': _dt.datetime}[base].fromisoformat(iso)
                return obj.strftime(spec['patterns'][t[2]])
            return fmt(t[1])
        if k == 'ref':
            ts = self.tspec(spec, t[1])
            if ts['kind'] == 'leaf':
                return r.choice(self.LEAF_VALUES[ts['base']])
            if ts['kind'] == 'enum':
                return r.choice(ts['members'])[1]
            if ts['kind'] == 'namedtuple':
                return [self.doc_for(spec, f['type']) for f in ts['fields'] if f.get('default') is None or r.random() < 0.5]
            if ts['kind'] == 'typeddict':
                return {f['name']: self.doc_for(spec, f['type']) for f in ts['fields']}
            return self.doc_dc(spec, ts)
        if k in ('list', 'tuplev'):
            return [self.doc_for(spec, t[1]) for _ in range(r.choice([0, 1, 2]))]
        if k == 'dict':
            return {self.t('s'): self.doc_for(spec, t[1]) for _ in range(r.choice([0, 1, 2]))}
        if k == 'opt':
            return None if r.random() < 0.3 else self.doc_for(spec, t[1])
        if k == 'union':
            m = r.choice(t[1:])
            d = self.doc_for(spec, m)
            if isinstance(m, list) and m[0] == 'ref':
                ts = self.tspec(spec, m[1])
                tag = ts['tag'] if ts.get('tag') is not None else ts['name']
                d = dict(d)
                d[spec['meta'].get('tag_key') or '__tag__'] = tag
            return d
        if k == 'lit':
            return r.choice(t[1:])
        raise ValueError(t)

    inject_nested_unknown = False

    def doc_dc(self, spec, ts):
        r = self.r
        doc = {}
        if self.inject_nested_unknown and ts['id'] != spec['root']:
            doc[self.t('s')] = 1
        for f in ts['fields']:
            if f.get('catch_all'):
                continue
            if f.get('default') is not None and r.random() < 0.4:
                continue
            v = self.doc_for(spec, f['type'])
            if f.get('path') is not None:
                d = doc
                for c in f['path'][:-1]:
                    d = d.setdefault(c, {})
                d[f['path'][-1]] = v
            elif f.get('aliases'):
                if r.random() < 0.6:
                    # several aliases present with DIFFERENT values: the first declared one wins
                    for a in r.sample(f['aliases'], r.choice([2, len(f['aliases'])])):
                        doc[a] = self.doc_for(spec, f['type'])
                else:
                    doc[r.choice(f['aliases'])] = v
            elif f.get('alias') is not None:
                doc[f['alias']] = v
            else:
                doc[f['name']] = v
        if any(f.get('catch_all') for f in ts['fields']) and r.random() < 0.6:
            doc[self.t('s')] = r.choice([1, 2])
        return doc

    def ops(self, spec):
        r = self.r
        root = self.tspec(spec, spec['root'])
        ops = []
        for _ in range(3):
            d = self.doc_dc(spec, root)
            ops.append({'op': 'load', 'doc': d})
            op = {'op': 'roundtrip', 'doc': d}
            if r.random() < 0.3:
                op['exclude'] = [r.choice(root['fields'])['name']]
            if r.random() < 0.3:
                op['skip_defaults'] = True
            ops.append(op)
        # error paths: a required key missing / an unknown key / a wrong type / not a dict
        d = self.doc_dc(spec, root)
        req = [f for f in root['fields'] if f.get('default') is None and not f.get('catch_all')
               and f.get('path') is None]
        if req:
            f = r.choice(req)
            d2 = {k: v for k, v in d.items() if k not in ([f['name'], f.get('alias')] + (f.get('aliases') or []))}
            ops.append({'op': 'load', 'doc': d2})
        d3 = dict(d)
        d3[self.t('s')] = 1
        ops.append({'op': 'load', 'doc': d3})
        ints = [f for f in root['fields'] if f.get('type') == 'int' and not f.get('catch_all')
                and f.get('path') is None and not f.get('aliases')]
        if ints:
            f = r.choice(ints)
            d4 = dict(d)
            d4[f.get('alias') if f.get('alias') is not None else f['name']] = {'zz': 1}
            ops.append({'op': 'load', 'doc': d4})
        ops.append({'op': 'load', 'doc': None})
        # an unknown key inside every nested object (exercises the nested classes' own unknown-key branch)
        self.inject_nested_unknown = True
        for _ in range(2):
            ops.append({'op': 'load', 'doc': self.doc_dc(spec, root)})
        self.inject_nested_unknown = False
        return ops


def gen_env_model(r):
    g = Gen(r, 'env')
    fields = []
    environ = {}
    kwargs = {}
    for _ in range(r.choice([1, 2, 3, 4])):
        f = {'name': g.t('f'), 'type': r.choice(['int', 'str', 'bool', 'float', 'int'])}
        x = r.random()
        val = {'int': '7', 'str': g.t('s'), 'bool': 'true', 'float': '2.5'}[f['type']]
        if x < 0.55:
            f['alias'] = g.t('k')
            if r.random() < 0.85:
                environ[f['alias']] = val
        elif x < 0.8:
            kwargs[f['name']] = val
        if r.random() < 0.35 or (f['name'] not in kwargs and f.get('alias') not in environ and r.random() < 0.7):
            f['default'] = g.default_for(f['type'])
        fields.append(f)
    meta = {}
    if r.random() < 0.3:
        # catch-all field with a default, often under Meta.skip_defaults_if (former F38 / C15c)
        f = {'name': g.t('f'), 'catch_all': True, 'type': 'int', 'default': ['val', None]}
        fields.append(f)
        if r.random() < 0.5:
            kwargs[f['name']] = {g.t('s'): 1}
        if r.random() < 0.7:
            meta['skip_defaults_if'] = r.choice([['isnone'], ['falsy']])
    fields.sort(key=lambda f: f.get('default') is not None)
    t = {'kind': 'dataclass', 'id': 'D1', 'name': g.t('T'), 'fields': fields, 'tag': None}
    return {'engine': 'env', 'mixin': False, 'types': [t], 'root': 'D1', 'meta': meta, 'environ': environ,
            'ops': [{'op': 'env', 'kwargs': kwargs}, {'op': 'env', 'kwargs': {}}]}


# =========================================================================== renamings
KW = set(keyword.kwlist) | set(getattr(keyword, 'softkwlist', []))
GEN_NAMES = ['o', 'cls', 'field', 'fields', 'i', 'e', 'v1', 'v2', 'tp', 'result', 'config', 'hooks', 'exclude',
             'init_kwargs', 'MISSING', 'json_key', 'py_field', 'catch_all', 'paths', 'asdict', 'dict_factory',
             'skip_defaults', 'cls_to_asdict', 'k', 'v', 'f', 'L', 'tag', 'name', 'aliases', 'extra_keys', 'safe_get',
             're_raise', 'ParseError', 'LOG', 'json_to_field', 'field_to_parser', 'py_case', 'ExplicitNull',
             'cls_fields', 'MissingFields', 'NestedDict', 'raise_missing_fields', 'tag_key', 'msg', 'has_opt',
             '_skip_0', '_skip_1', '_default_0', '_default_1', '_skip_if_0', '_skip_value', 'as_int', 'e_cls', 'T',
             'fields_1', 'fields_2', 'tp_fields_1', 'cls_dump_fn', 'UnknownKeysError', 'MissingData', 'x']
BUILTINS = ['list', 'dict', 'type', 'id', 'len', 'int', 'str', 'float', 'bool', 'set', 'isinstance', 'locals',
            'Exception', 'TypeError', 'KeyError', 'object', 'print', 'repr', 'tuple', 'UnboundLocalError']
ENV_RESERVED = ['self', '_env_file', '_reload', '_env_prefix', '_secrets_dir', 'Env', 'ParseError', 'get_env',
                'lookup_exact', 'MissingVars', 'add', 'cls', 'handle_err', 'MISSING', '_vars', '_name', '_env_var',
                '_var_name', 'e', '_dotenv_values']
V1_DUNDER = ['TRUTHY', 'pre_from_dict__']          # `__<field>` meets a closure variable of the same function
TYPE_NAMES = ['int', 'str', 'list', 'dict', 'type', 'id', 'len', 'float', 'bool', 'object', 'o', 'cls', 'fields',
              'field', 'MISSING', 'tp', 'ParseError', 'Enum', 'Decimal', 'datetime', 'as_int', 'config', 'Item',
              'Color', 'tp_fields', 'v1', 'e', 'result', 'Exception', 'hooks', 'T', 'LOG', 'dataclass_wizard']
HOSTILE_SYNTAX = ['#', 'k  # x', '  # ', 'a # b', '"' * 3, "'''x", 'f"', 'f"{x}"', "rb'", ';', 'a;b', ':', 'a: b', 'x\\',
                  'lambda', 'lambda: 0', 'import os', 'a\tb\t', '\x0cx', 'def f():', 'y' * 200, 'a = 1  # c', '\\\n',
                  'if x:', '@d', '->', '*args', '**kw', ')', '(', ']', ',', ' leading', 'trailing ', '0', '-1', 'None', 'True']
HOSTILE = HOSTILE_SYNTAX + ["a'b", 'a"b', 'a\\b', 'a{b}', 'a\nb', 'ünï', "'", '"', '\\', '{', '}', '{0}', '%s', 'a\tb', ' ',
           'a b', "it's \"q\"", '\\n', '$x', 'ключ', '日本', '\U0001f600', 'a\x7fb',
           'a\r\nb', '[0]', '#', "'''", '"""', '{o}', '{cls}', "\\'", '\\"', 'a\\', "');import os;('", 'o', 'cls',
           'field', '__tag__x', 'a%(b)s', '\\x41', '\\N{BULLET}', '\x01', 'x' * 70, '{{', '}}', "a''b", '`', 'é']
HOSTILE = list(dict.fromkeys(HOSTILE))      # alias renamings must stay injective


DERIVE = ['if_%s', 'skip_%s', 'skip_if_%s', 'default_%s', 'dflt_%s', 'tp_%s', 'parser_%s', '%s_0', '%s_1', '_%s',
          '__%s', '%s_']


def derived_renaming(r, spec, R):
    """rename fields of each class INTO names that a plausible derivation scheme could derive from
    ANOTHER field of the same class (`if_<n>`, `skip_<n>`, `default_<n>`, `<n>_0`, `_<n>` ...), or into
    the tail of a generator name (`value` of `_skip_value`, `defaults_value`).  The schemes that match
    a feature that makes the generator create a per-field variable (SkipIf value, default) come first."""
    m = spec['meta']
    for t in spec['types']:
        if t['kind'] != 'dataclass':
            continue
        fs = [f for f in t['fields'] if not f.get('catch_all')]
        if len(fs) < 2:
            continue
        wanted = []
        if (m.get('skip_if') or [''])[0] == 'eqc':
            wanted.append('value')
        if (m.get('skip_defaults_if') or [''])[0] == 'eqc':
            wanted.append('defaults_value')
        for a in fs:
            n = R.get(a['name'], a['name'])
            if (a.get('skip_if') or [''])[0] == 'eqc':
                wanted += [r.choice(['if_%s', 'skip_if_%s']) % n]
            if a.get('default') is not None and r.random() < 0.5:
                wanted += [r.choice(['default_%s', 'dflt_%s']) % n]
        for _ in range(2):
            a = r.choice(fs)
            wanted.append(r.choice(DERIVE) % R.get(a['name'], a['name']))
        if r.random() < 0.3:
            wanted.append(r.choice(['value', 'defaults_value']))
        r.shuffle(wanted)
        taken = {R.get(f['name'], f['name']) for f in t['fields']}
        free = [f for f in fs]
        r.shuffle(free)
        for c in wanted:
            if not free:
                break
            if not (c.isidentifier() and c not in KW and c not in taken):
                continue
            # the target must not be the field the name was derived from
            cand = [f for f in free if not c.endswith(R.get(f['name'], f['name'])) and not c.startswith(R.get(f['name'], f['name']))]
            if not cand:
                continue
            b = cand[0]
            free.remove(b)
            taken.discard(R.get(b['name'], b['name']))
            R[b['name']] = c
            taken.add(c)
    return R


def make_renaming(r, spec, flavor, pair=None):
    """token -> new text.  Field names injective within each class, key strings globally injective."""
    R = {}
    eng = spec['engine']
    key_tokens, tag_tokens, type_tokens = [], [], []
    for t in spec['types']:
        type_tokens.append(t['name'])
        if t.get('tag') is not None:
            tag_tokens.append(t['tag'])
        if t['kind'] == 'dataclass':
            for f in t['fields']:
                for a in ([f['alias']] if f.get('alias') is not None else []) + (f.get('aliases') or []) + (f.get('path') or []):
                    key_tokens.append(a)
    if spec['meta'].get('tag_key') is not None:
        tag_tokens.append(spec['meta']['tag_key'])
    used_keys = set()
    if flavor in ('strings', 'all'):
        pool = [h for h in HOSTILE if not (eng == 'env' and ('\x00' in h or '=' in h or h == ''))]
        r.shuffle(pool)
        for k in key_tokens + tag_tokens:
            if r.random() < 0.8 and pool:
                R[k] = pool.pop()
                used_keys.add(R[k])
    if flavor in ('fields', 'all'):
        for t in spec['types']:
            if t['kind'] != 'dataclass':
                continue
            if eng == 'env':
                safe = [n for n in GEN_NAMES + BUILTINS if n not in ENV_RESERVED and not n.startswith(('_tp_', '_parser_', '_dflt_'))
                        and n != 'dict']
                pool = safe if r.random() < 0.7 else safe + ENV_RESERVED
            elif eng == 'v1':
                pool = GEN_NAMES + BUILTINS + (V1_DUNDER if r.random() < 0.15 else [])
            else:
                pool = GEN_NAMES + BUILTINS
            pool = [n for n in pool if n not in KW and n not in used_keys]
            if spec.get('mixin'):
                pool = [n for n in pool if n not in ('list', 'dict')]
            r.shuffle(pool)
            for f in t['fields']:
                if r.random() < 0.85 and pool:
                    R[f['name']] = pool.pop()
    if flavor in ('types', 'types_same', 'all'):
        pool = [n for n in TYPE_NAMES if n not in KW]
        r.shuffle(pool)
        for k in type_tokens:
            if r.random() < 0.85 and pool:
                R[k] = pool.pop()
    if flavor == 'derived':
        if r.random() < 0.4:        # the source field itself may carry a short generator name
            for t in spec['types']:
                if t['kind'] == 'dataclass' and t['fields']:
                    f = r.choice(t['fields'])
                    c = r.choice(['x', 'v', 'k', 'o', 'i', 'e', 'f', 'tp'])
                    if c not in {g['name'] for g in t['fields']}:
                        R[f['name']] = c
        derived_renaming(r, spec, R)
    if flavor == 'types_same' and len(type_tokens) >= 2:
        # two distinct types of one kind (for leaf subclasses: of one base) get ONE name; prefer pairs
        # that stay OUTSIDE the open F9 region (same-named types in different classes / fields)
        groups = {}
        for t in spec['types']:
            if t['id'] != spec['root']:
                groups.setdefault((t['kind'], t.get('base')), []).append(t['name'])
        pairs = [(a, b) for g in groups.values() for a in g for b in g if a < b]
        r.shuffle(pairs)
        outside = [(a, b) for a, b in pairs if not f9_region(rename_tree(spec, {b: a}))]
        if pair is not None:
            a, b = pair
        elif outside and r.random() < 0.85:
            a, b = outside[0]
        elif pairs and r.random() < 0.8:
            a, b = pairs[0]
        else:
            a, b = r.sample(type_tokens, 2)
        R[b] = R.get(a, a)
    return R


def rename_tree(x, R):
    """apply the renaming to every string (dict key or value) that is a token"""
    if isinstance(x, str):
        return R.get(x, x)
    if isinstance(x, list):
        return [rename_tree(v, R) for v in x]
    if isinstance(x, dict):
        return {(R.get(k, k) if isinstance(k, str) else k): rename_tree(v, R) for k, v in x.items()}
    return x


STRUCT_KEYS = {'kind', 'id', 'engine', 'op', 'root'}


def rename_spec(spec, R):
    """r(M): only name positions are renamed (type ids and structural constants are not tokens)."""
    return rename_tree(spec, R)


def same_named_types(spec, same_kind=False):
    """{name: [ids]} of distinct types sharing one __name__ (optionally only of one kind:
    the v1 helper/type-local name spaces are per kind)"""
    names = {}
    for t in spec['types']:
        key = (t['name'], t['kind']) if same_kind else t['name']
        names.setdefault(key, []).append(t['id'])
    return {n: ids for n, ids in names.items() if len(ids) > 1}


def type_refs(t):
    """spec ids referenced by a type expression"""
    out = []
    if isinstance(t, list):
        if t[0] == 'ref':
            out.append(t[1])
        else:
            for x in t[1:]:
                out.extend(type_refs(x))
    return out


def f9_region(spec):
    """the open F9 region, as narrow as the defect: where the unchanged library keys something by
    __name__ within ONE name space:
      (a) v1: two distinct DATACLASSES of the model with one __name__ (the load function's name is
          global to the model's batch);
      (b) v1: two distinct NamedTuples (or two TypedDicts) with one __name__ among the fields of ONE
          dataclass (helper name `_load_<class>_<kind>_<name>`);
      (c) v1: two distinct enums / leaf subclasses with one __name__ inside ONE field (type local
          `<Name>_<field index>`);
      (d) any engine, auto_assign_tags: two dataclasses with one __name__ in ONE Union (tag = __name__).
    Same-named types in DIFFERENT classes / fields are outside (they work on the unchanged tree)."""
    by_id = {t['id']: t for t in spec['types']}
    v1 = spec['engine'] == 'v1'
    dcs = [t for t in spec['types'] if t['kind'] == 'dataclass']
    if v1 and len({t['name'] for t in dcs}) < len(dcs):
        return True
    for t in dcs:
        per_class = {}
        for f in t['fields']:
            ids = list(dict.fromkeys(type_refs(f.get('type'))))
            per_field = {}
            for i in ids:
                k = by_id[i]['kind']
                if k in ('namedtuple', 'typeddict'):
                    per_class.setdefault((k, by_id[i]['name']), set()).add(i)
                if k in ('enum', 'leaf'):
                    per_field.setdefault(by_id[i]['name'], set()).add(i)
            if v1 and any(len(v) > 1 for v in per_field.values()):
                return True
            tt = f.get('type')
            if spec['meta'].get('auto_tags') and isinstance(tt, list) and tt[0] == 'union':
                names = [by_id[i]['name'] for i in type_refs(tt) if by_id[i]['kind'] == 'dataclass']
                if len(set(names)) < len(names):
                    return True
        if v1 and any(len(v) > 1 for v in per_class.values()):
            return True
    return False


def env_unsafe_alias(spec):
    bad = set('"\\\n\r\x00{}')
    return [f['alias'] for t in spec['types'] if t['kind'] == 'dataclass' for f in t['fields']
            if f.get('alias') is not None and any(c in bad for c in f['alias'])]


def env_reserved_fields(spec):
    return [f['name'] for t in spec['types'] if t['kind'] == 'dataclass' for f in t['fields']
            if f['name'] in ENV_RESERVED or f['name'].startswith(('_tp_', '_parser_', '_dflt_'))]


def catchall_default_with_skip_defaults_if(spec):
    if spec['meta'].get('skip_defaults_if') is None:
        return False
    return any(f.get('catch_all') and f.get('default') is not None
               for t in spec['types'] if t['kind'] == 'dataclass' for f in t['fields'])


# =========================================================================== spec -> model shapes (Coq terms)
def cs(s):
    return coq_str(s)


def cl(items):
    return coq_list(items)


def dskip(c):
    if c is None:
        return 'SkNone'
    return {'truthy': 'SkTruthy', 'falsy': 'SkTruthy', 'eq': 'SkInline', 'isnone': 'SkInline', 'eqc': 'SkClosure'}[c[0]]


def union_member_ids(spec):
    out = set()

    def walk(t):
        if isinstance(t, list):
            if t[0] == 'union':
                for m in t[1:]:
                    if isinstance(m, list) and m[0] == 'ref':
                        out.add(m[1])
            for x in t[1:]:
                walk(x)
    for t in spec['types']:
        if t['kind'] == 'dataclass':
            for f in t['fields']:
                walk(f.get('type'))
    return out


def class_tag(spec, ts):
    if ts.get('tag') is not None:
        return ts['tag']
    if spec['meta'].get('auto_tags') and ts['id'] in union_member_ids(spec):
        return ts['name']
    return None


def effective(spec, ts, key):
    """a class's own Meta wins over the root's (Meta `|`: the first operand has priority)"""
    own = ts.get('meta') or {}
    return own[key] if key in own else spec['meta'].get(key)


def shape_v0_load(spec, ts):
    fs = ts['fields']
    paths = [f for f in fs if f.get('path') is not None]
    ca = [f for f in fs if f.get('catch_all')]
    tag = class_tag(spec, ts)
    tag_key = spec['meta'].get('tag_key') or '__tag__'
    names = [f['name'] for f in fs]
    tk = coq_opt(cs(tag_key)) if (tag is not None and tag_key not in names) else 'None'
    if tag is not None and tag_key in names:
        tk = coq_opt(cs(tag_key))
    return 'v0_load_fn (Build_v0l_shape %s %s false %s %s %s)' % (
        cl(['(Build_v0l_field %s %s %s)' % (cs(f['name']), cl([cs(c) for c in f['path']]), coq_bool(f.get('default') is not None))
            for f in paths]),
        coq_bool(len(paths) != len(fs)),
        coq_opt('(%s, %s)' % (cs(ca[0]['name']), coq_bool(ca[0].get('default') is not None))) if ca else 'None',
        tk, coq_bool(bool(effective(spec, ts, 'raise_unknown'))))


def shape_v0_dump(spec, ts, env=False):
    items = []
    for f in ts['fields']:
        if f.get('catch_all'):
            key = 'DCatchAll'
        elif f.get('nodump'):
            key = 'DExcluded'
        elif f.get('path') is not None:
            key = '(DPath %s)' % cl([cs(c) for c in f['path']])
        elif f.get('aliases'):
            key = '(DKey %s)' % cs(f['aliases'][0])
        elif f.get('alias') is not None:
            key = '(DKey %s)' % cs(f['alias'])
        else:
            key = '(DKey %s)' % cs(f['name'])
        items.append('(Build_v0d_field %s %s %s %s)' % (cs(f['name']), coq_bool(f.get('default') is not None), key,
                                                         dskip(f.get('skip_if'))))
    tag = class_tag(spec, ts)
    tag_key = spec['meta'].get('tag_key') or '__tag__'
    return 'v0_dump_fn (Build_v0d_shape %s %s false %s %s %s)' % (
        cl(items), coq_bool(env), dskip(spec['meta'].get('skip_if')), dskip(spec['meta'].get('skip_defaults_if')),
        coq_opt('(%s, %s)' % (cs(tag_key), cs(tag))) if (tag is not None and not env) else 'None')


def env_shape(spec, ts):
    items = []
    for f in ts['fields']:
        d = f.get('default')
        items.append('(Build_env_field %s %s %s)' % (
            cs(f['name']), coq_opt(cs(f['alias'])) if f.get('alias') is not None else 'None',
            'EdNone' if d is None else ('EdValue' if d[0] == 'val' else 'EdFactory')))
    return '(Build_env_shape %s false false None)' % cl(items)


def vty(spec, t):
    if isinstance(t, str):
        return {'int': 'VInt', 'str': 'VStr', 'float': 'VFloat', 'bool': 'VBool'}[t]
    if t[0] == 'list':
        inner = vty(spec, t[1])
        return None if inner is None else '(VList %s)' % inner
    if t[0] == 'ref':
        ts = [x for x in spec['types'] if x['id'] == t[1]][0]
        if ts['kind'] == 'enum':
            return '(VEnum %s)' % cs(ts['name'])
        if ts['kind'] == 'dataclass':
            return '(VData %s)' % cs(ts['name'])
    return None


def shape_v1_load(spec, ts):
    """None when the class uses a type / feature outside the v1 slice of the model."""
    items = []
    if any(f.get('catch_all') for f in ts['fields']):
        return None
    for f in ts['fields']:
        t = vty(spec, f['type'])
        if t is None:
            return None
        if f.get('path') is not None:
            key = '(KPath1 %s)' % cl([cs(c) for c in f['path']])
        elif f.get('aliases'):
            key = '(KAliasN %s %s)' % (cs(f['aliases'][0]), cl([cs(a) for a in f['aliases'][1:]]))
        elif f.get('alias') is not None:
            key = '(KAlias1 %s)' % cs(f['alias'])
        else:
            key = 'KField'
        items.append('(Build_v1_field %s %s %s %s)' % (cs(f['name']), t, coq_bool(f.get('default') is not None), key))
    uk = {None: 'UkNone', 'RAISE': 'UkRaise', 'WARN': 'UkWarn'}[effective(spec, ts, 'v1_unknown')]
    tag = class_tag(spec, ts)
    tag_key = spec['meta'].get('tag_key') or '__tag__'
    names = [f['name'] for f in ts['fields']]
    tk = coq_opt(cs(tag_key)) if (tag is not None and tag_key not in names) else 'None'
    return 'v1_load_fn (Build_v1_shape %s %s false %s %s)' % (cs(ts['name']), cl(items), uk, tk)


PRELUDE = ''


def decode_fn(s):
    """inverse of GenNames.show_fn"""
    if s == 'NONE':
        return None
    parts = s.split('|')

    def lst(x):
        return [bytes.fromhex(h).decode('utf-8', 'surrogateescape') for h in x.split(',')] if x else []
    keys = ['params', 'closure', 'globals', 'loads', 'binds', 'free', 'header', 'strs', 'attrs']
    d = {'name': bytes.fromhex(parts[0]).decode('utf-8', 'surrogateescape')}
    for k, x in zip(keys, parts[1:10]):
        d[k] = lst(x)
    d['closed'] = parts[10] == 'closed'
    return d


def compare_fn(model, impl):
    """list of differences between the model's and Python's view of one function"""
    diffs = []
    if model['name'] != impl['name']:
        diffs.append(('name', model['name'], impl['name']))
    if model['params'] != impl['params']:
        diffs.append(('params', model['params'], impl['params']))
    for k in ('closure', 'globals', 'loads', 'binds', 'free', 'header', 'strs', 'attrs'):
        a, b = sorted(set(model[k])), sorted(set(impl[k]))
        if a != b:
            diffs.append((k, [x for x in a if x not in b], [x for x in b if x not in a]))
    py_closed = impl['parse_ok'] and not impl['unbound']
    if model['closed'] != py_closed:
        diffs.append(('closed', model['closed'], py_closed))
    return diffs


# =========================================================================== run
def run_models(ctx, specs):
    """run every spec in its own interpreter (parallel)"""
    def one(sp):
        try:
            return ctx.impl('c15', {'kind': 'model', 'spec': sp}, timeout=120)
        except Exception as e:
            return {'runner_error': str(e)[-800:]}
    with cf.ThreadPoolExecutor(max_workers=8 if ctx.tier == 'quick' else 12) as ex:
        return list(ex.map(one, specs))


def norm_outcome(o):
    """what of an outcome must be invariant under renaming"""
    if 'ok' in o:
        return {'ok': o['ok']}
    d = {'err': o['err']}
    if 'field_name' in o:
        d['field_name'] = o['field_name']
    return d


def p1_failures(res):
    """direct predicate P1 on one run: [(function name, what)]"""
    bad = []
    for f in res.get('functions', []):
        if not f['parse_ok']:
            bad.append((f['name'], 'does not parse: %s' % f.get('syntax_error')))
            continue
        if not f.get('scoping_agrees', True):
            bad.append((f['name'], 'harness self-check: AST scoping and symtable disagree on the free names'))
        if f['unbound']:
            bad.append((f['name'], 'refers to names it does not bind: %s' % f['unbound']))
        if f['shadow']:
            bad.append((f['name'], 'a user-derived identifier shadows a generator name: %s' % f['shadow']))
    return bad


def classify(ctx, spec, res, what):
    """region of a failing case -> finding id or None"""
    eng = spec['engine']
    if f9_region(spec):
        return 'F9-same-name-types'
    if eng == 'env' and env_reserved_fields(spec):
        return 'C15a-env-field-shadows-generator-name'
    if eng == 'v1':
        for f in res.get('functions', []):
            if any(s.startswith('__') for s in f.get('shadow', [])) and f['file'].startswith('v1/'):
                return 'C15b-v1-dunder-local-collision'
    return None


def report(ctx, fid, what, replay_obj):
    if fid is not None and ctx.is_open_region(fid):
        ctx.hist('known_region', fid)
        return
    ctx.violation(what, replay_obj)


def model_exprs_for(spec, res):
    """[(function index in res['functions'], Coq expression)] for the functions the model covers"""
    out = []
    by_id = {t['id']: t for t in spec['types']}
    by_name = {}
    for t in spec['types']:
        by_name.setdefault(t['name'], []).append(t)
    funcs = res.get('functions', [])
    for i, f in enumerate(funcs):
        ts = by_id.get(f.get('cls'))
        file = f.get('file')
        if file == 'dataclass_wizard/loaders.py' and ts is not None and f['name'] == 'cls_fromdict':
            if spec['meta'].get('auto_tags') and any(x.get('catch_all') for x in ts['fields']):
                continue
            out.append((i, 'show_fn [] (%s)' % shape_v0_load(spec, ts)))
        elif file == 'dataclass_wizard/dumpers.py' and ts is not None and f['name'] == 'cls_asdict':
            out.append((i, 'show_fn [] (%s)' % shape_v0_dump(spec, ts)))
        elif file == 'environ/dumpers.py' and ts is not None and f['name'] == 'cls_asdict':
            out.append((i, 'show_fn [] (%s)' % shape_v0_dump(spec, ts, env=True)))
        elif file == 'environ/wizard.py' and ts is not None:
            if f['name'] == '__init__':
                out.append((i, 'show_fn [] (env_init_fn %s)' % env_shape(spec, ts)))
            elif f['name'] == 'dict':
                out.append((i, 'show_fn [] (env_dict_fn %s)' % env_shape(spec, ts)))
        elif file == 'v1/loaders.py' and f['name'].startswith('__dataclass_wizard_from_dict_'):
            if f.get('cls') != spec['root']:
                # a nested class whose loader is generated stand-alone (dump with auto_assign_tags):
                # which Meta applies there is C07's business; P1 still checks the function
                continue
            nm = f['name'][len('__dataclass_wizard_from_dict_'):-2]
            cands = [t for t in by_name.get(nm, []) if t['kind'] == 'dataclass']
            if len(cands) != 1 or same_named_types(spec):
                continue
            if spec['meta'].get('auto_tags') and effective(spec, cands[0], 'v1_unknown') and cands[0]['id'] in union_member_ids(spec):
                # whether the tag key is expected depends on whether the class was first met as a
                # plain field or inside the Union (order dependence noticed, reported to C13/C10)
                continue
            e = shape_v1_load(spec, cands[0])
            if e is None:
                continue
            batch = [g['name'] for g in funcs if g.get('batch') == f.get('batch')]
            out.append((i, 'show_fn %s (%s)' % (cl([cs(b) for b in batch]), e)))
    return out


def enum_variant(spec):
    """M': the same model, spelled identically (class, enum, field names), with different enum
    member VALUES; documents follow.  (value map, M')"""
    emap = {}
    for t in spec['types']:
        if t['kind'] == 'enum':
            for _, v in t['members']:
                emap[v] = v + 'q'
    return emap, rename_tree(spec, emap)


def run_sequences(ctx, cases, by_case):
    """P2 in ONE interpreter: identically spelled but distinct models, and M / r(M), one after the
    other in both orders; every model must behave as it does in a fresh interpreter."""
    jobs = []
    for ci, (spec, rens) in enumerate(cases):
        base_spec, base = by_case[ci][None]
        if 'runner_error' in base or base.get('setup') is not None:
            continue
        emap, variant = enum_variant(spec)
        exp_m = [norm_outcome(o) for o in base['ops']]
        exp_v = [rename_tree(x, emap) for x in exp_m]
        seq_a = [('M', spec, exp_m), ("M' (same spelling, other enum values)", variant, exp_v)]
        seq_b = [("M' (same spelling, other enum values)", variant, exp_v), ('M', spec, exp_m)]
        if rens and 'runner_error' not in by_case[ci][0][1] and by_case[ci][0][1].get('setup') is None:
            rsp, rres = by_case[ci][0]
            exp_r = [norm_outcome(o) for o in rres['ops']]
            seq_a = seq_a[:1] + [('r(M)', rsp, exp_r)] + seq_a[1:] + [('M again', spec, exp_m)]
            seq_b = [('r(M)', rsp, exp_r)] + seq_b
        jobs.append((ci, seq_a))
        jobs.append((ci, seq_b))

    def one(job):
        try:
            return ctx.impl('c15', {'kind': 'multi', 'specs': [x[1] for x in job[1]]}, timeout=180)
        except Exception as e:
            return {'runner_error': str(e)[-800:]}
    with cf.ThreadPoolExecutor(max_workers=8 if ctx.tier == 'quick' else 12) as ex:
        outs = list(ex.map(one, jobs))
    for (ci, seq), out in zip(jobs, outs):
        if 'runner_error' in out:
            ctx.broken_tie('impl runner failed on a model sequence', {'error': out['runner_error']})
            continue
        ctx.count(1, key='seq:%d:%s' % (ci, seq[0][0]), nontrivial=True)
        ctx.hist('sequence', '%d models in one interpreter' % len(seq))
        for pos, ((label, sp, exp), run) in enumerate(zip(seq, out['runs'])):
            got = [norm_outcome(o) for o in run['ops']]
            if run.get('setup') is not None or got != exp:
                k = next((i for i, (a, b) in enumerate(zip(got, exp)) if a != b), 0)
                what = ('in one interpreter after %s, model %s behaves differently from a fresh interpreter: op %d gives %s, '
                        'fresh %s' % (' then '.join(x[0] for x in seq[:pos]) or 'nothing', label, k,
                                      json.dumps(got[k] if k < len(got) else run.get('setup'))[:250],
                                      json.dumps(exp[k] if k < len(exp) else None)[:250]))
                fid = classify(ctx, sp, {'functions': []}, what)
                report(ctx, fid, what, {'kind': 'multi', 'specs': [x[1] for x in seq], 'expected': [x[2] for x in seq],
                                        'labels': [x[0] for x in seq]})
                break


def gen_cases(ctx):
    r = ctx.sub_rng('models')
    n = 36 if ctx.tier == 'quick' else 260
    cases = []
    for i in range(n):
        eng = ['v0', 'v1', 'v0', 'v1', 'env'][i % 5]
        spec = gen_env_model(r) if eng == 'env' else Gen(r, eng).model()
        flavors = (['fields', 'strings', 'derived'] if eng == 'env'
                   else ['derived', r.choice(['types', 'types_same', 'types_same', 'all']),
                         r.choice(['strings', 'strings', 'all']), r.choice(['fields', 'all'])])
        r.shuffle(flavors)
        rens = []
        for fl in flavors:
            R = make_renaming(r, spec, fl)
            if R:
                rens.append((fl, R))
        cases.append((spec, rens))
    # focused models: two distinct types of ONE kind (NamedTuple, TypedDict, enum, leaf subclass of one
    # base - patterned with one pattern object or not), used in different classes / fields, then given ONE name
    for i in range(10 if ctx.tier == 'quick' else 60):
        g = Gen(r, 'v0' if i % 5 == 4 else 'v1')
        g.focus = ['leaf', 'namedtuple', 'leaf', 'typeddict', 'enum'][i % 5]
        spec = g.model()
        rens = [('types_same', make_renaming(r, spec, 'types_same', pair=g.focus_pair))]
        for fl in ('derived', r.choice(['strings', 'all'])):
            R = make_renaming(r, spec, fl)
            if R:
                rens.append((fl, R))
        cases.append((spec, rens))
    return cases


def replay_known(ctx):
    """replay the witnesses of the listed findings on the implementation"""
    for f in ctx.findings():
        w = f.get('witness')
        if not w or f.get('demo'):
            continue
        try:
            ok = replay(ctx, w, quiet=True)
        except Exception as e:
            ctx.broken_tie('replay of finding %s failed to run: %s' % (f['id'], str(e)[:300]))
            continue
        ctx.count(1, key='finding:' + f['id'], nontrivial=True)
        ctx.known_finding(f['id'], still_fails=not ok)


def run(ctx):
    run_literals(ctx)
    replay_known(ctx)

    # builtins the model relies on are builtins of this Python
    names = ['dict', 'isinstance', 'TypeError', 'KeyError', 'Exception', 'UnboundLocalError', 'len', 'set', 'locals',
             'int', 'float', 'str', 'bool', 'list', 'type']
    b = ctx.impl('c15', {'kind': 'builtins', 'names': names})['builtins']
    if not all(b):
        ctx.broken_tie('model builtin list contains a non-builtin', [n for n, x in zip(names, b) if not x])

    cases = gen_cases(ctx)
    specs, index = [], []
    for ci, (spec, rens) in enumerate(cases):
        specs.append(spec)
        index.append((ci, None))
        for ri, (fl, R) in enumerate(rens):
            specs.append(rename_spec(spec, R))
            index.append((ci, ri))
    results = run_models(ctx, specs)
    by_case = {}
    for (ci, ri), sp, res in zip(index, specs, results):
        by_case.setdefault(ci, {})[ri] = (sp, res)

    exprs, expr_ref = [], []
    n_fn = n_cov = 0
    for ci, (spec, rens) in enumerate(cases):
        base_spec, base = by_case[ci][None]
        ctx.hist('engine', spec['engine'] + ('/mixin' if spec.get('mixin') else ''))
        if 'runner_error' in base or not base.get('hook', True):
            ctx.broken_tie('impl runner failed on the base model', {'spec': spec, 'error': base.get('runner_error', 'hook H1 missing')})
            continue
        ok_ops = sum(1 for o in base['ops'] if 'ok' in o)
        ctx.hist('base_ops', 'ok' if ok_ops else ('setup_error' if base.get('setup') else 'all_raise'))
        for o in base['ops']:
            ctx.hist('base_op_outcome', 'ok' if 'ok' in o else o['err'])
        for ri in [None] + list(range(len(rens))):
            sp, res = by_case[ci][ri]
            if 'runner_error' in res:
                ctx.broken_tie('impl runner failed', {'spec': sp, 'error': res['runner_error']})
                continue
            label = 'base' if ri is None else rens[ri][0]
            # ---- P1: well-formedness of everything generated --------------------
            fails = p1_failures(res)
            n_fn += len(res.get('functions', []))
            ctx.count(len(res.get('functions', [])), key='p1:%d:%s' % (ci, label), nontrivial=True)
            for fname, what in fails[:3]:
                fid = classify(ctx, sp, res, what)
                report(ctx, fid, 'generated function %s (%s engine, %s) %s' % (fname, sp['engine'], label, what),
                       {'kind': 'p1', 'spec': sp})
            for i, e in model_exprs_for(sp, res):
                exprs.append(e)
                expr_ref.append((ci, ri, i))
            # ---- P3: no operation ends in a NameError raised by generated code ---------
            for oi, o in enumerate(res.get('ops', [])):
                msg = o.get('msg') or ''
                if 'err' in o and (o['err'] == 'NameError' or ("name '" in msg and "is not defined" in msg)):
                    fid = classify(ctx, sp, res, msg)
                    report(ctx, fid, 'operation %d (%s) on a %s-engine model (%s) ran generated code that refers to a '
                           'name nothing binds: %s: %s' % (oi, sp['ops'][oi]['op'], sp['engine'], label, o['err'], msg[:160]),
                           {'kind': 'nameerror', 'spec': sp, 'op': oi})
                    break
            # ---- P2: renaming ------------------------------------------------------
            if ri is None:
                continue
            fl, R = rens[ri]
            nontriv = any(k != v for k, v in R.items())
            ctx.count(1, key='p2:%d:%d' % (ci, ri), nontrivial=nontriv)
            ctx.hist('renaming', fl)
            exp_setup = base.get('setup')
            got_setup = res.get('setup')
            differs = None
            if (exp_setup is None) != (got_setup is None):
                differs = 'class creation: base %s, renamed %s' % (
                    'ok' if exp_setup is None else exp_setup['err'], 'ok' if got_setup is None else '%s: %s' % (got_setup['err'], got_setup.get('msg')))
            else:
                for oi, (a, bb) in enumerate(zip(base['ops'], res['ops'])):
                    ea = rename_tree(norm_outcome(a), R)
                    eb = norm_outcome(bb)
                    if ea != eb:
                        differs = 'op %d (%s): r(result of M) = %s but r(M) gives %s' % (
                            oi, sp['ops'][oi]['op'], json.dumps(ea)[:300], json.dumps(eb)[:300])
                        break
            if differs:
                fid = classify(ctx, sp, res, differs)
                report(ctx, fid, 'renaming (%s) changes behaviour [%s engine]: %s' % (fl, sp['engine'], differs),
                       {'kind': 'rename', 'spec': spec, 'renaming': R})
    ctx.hist('functions_analysed', n_fn)
    run_sequences(ctx, cases, by_case)

    # ---- correspondence: GenNames model vs Python's view of the generated source ----
    if exprs:
        try:
            out = coq_eval(ctx, exprs, ['GenNames'], 'names', shard=20)
        except Exception as e:
            ctx.broken_tie('GenNames model evaluation failed: %s' % str(e)[:500])
            out = None
        if out is not None:
            nd = 0
            for (ci, ri, i), s in zip(expr_ref, out):
                sp, res = by_case[ci][ri]
                f = res['functions'][i]
                m = decode_fn(s)
                ctx.traces_validated += 1
                n_cov += 1
                ctx.hist('model_covered', f['file'] + ':' + (f['name'] if not f['name'].startswith('__dataclass_wizard') else 'from_dict'))
                if not f['parse_ok']:
                    if not (sp['engine'] == 'env' and env_reserved_fields(sp)):
                        ctx.broken_tie('generated function does not parse', {'fn': f['name'], 'spec': sp, 'error': f.get('syntax_error')})
                    continue
                d = compare_fn(m, f)
                if d:
                    nd += 1
                    ctx.disagreements_checked += 1
                    if nd <= 6:
                        ctx.broken_tie('GenNames model differs from the generated %s (%s)' % (f['name'], f['file']),
                                       {'diffs': d, 'spec': sp})
            ctx.hist('model_vs_impl', 'compared=%d differing=%d' % (n_cov, nd))
    sp0, res0 = by_case[0][None]
    ctx.sample({'model_spec': sp0, 'generated': [f['name'] for f in res0.get('functions', [])], 'ops': res0.get('ops', [])[:1]})
    if cases[0][1]:
        ctx.sample({'renaming': cases[0][1][0][1]})


# =========================================================================== replay
def replay(ctx, obj, quiet=False):
    def say(*a):
        if not quiet:
            print(*a)
    kind = obj.get('kind')
    if kind == 'repr':
        res = ctx.impl('c15', {'kind': 'lits', 'repr': [obj['string']], 'lit': []})
        say('literal_eval(repr(%r)) == s: %s' % (obj['string'], res['eval_repr'][0]))
        return bool(res['eval_repr'][0])
    if kind == 'p1':
        res = ctx.impl('c15', {'kind': 'model', 'spec': obj['spec']})
        fails = p1_failures(res)
        for f in fails:
            say('generated function %s: %s' % f)
        if not fails:
            say('every generated function parses and refers only to names it binds')
        return not fails
    if kind == 'multi':
        out = ctx.impl('c15', {'kind': 'multi', 'specs': obj['specs']})
        ok = True
        for label, exp, run in zip(obj['labels'], obj['expected'], out['runs']):
            got = [norm_outcome(o) for o in run['ops']]
            if run.get('setup') is not None or got != exp:
                ok = False
                k = next((i for i, (a, b) in enumerate(zip(got, exp)) if a != b), 0)
                say('model %s (position %d of %s): op %d gives %s\n   in a fresh interpreter: %s' % (
                    label, obj['labels'].index(label), obj['labels'], k,
                    json.dumps(got[k] if k < len(got) else run.get('setup'))[:400], json.dumps(exp[k] if k < len(exp) else None)[:400]))
        if ok:
            say('every model of the sequence behaves as in a fresh interpreter')
        return ok
    if kind == 'nameerror':
        res = ctx.impl('c15', {'kind': 'model', 'spec': obj['spec']})
        bad = [(i, o) for i, o in enumerate(res['ops'])
               if 'err' in o and (o['err'] == 'NameError' or ("name '" in (o.get('msg') or '') and 'is not defined' in (o.get('msg') or '')))]
        for i, o in bad:
            say('op %d (%s): %s: %s' % (i, json.dumps(obj['spec']['ops'][i])[:200], o['err'], (o.get('msg') or '')[:200]))
        for f in p1_failures(res):
            say('generated function %s: %s' % f)
        if not bad:
            say('no operation raised a NameError')
        return not bad
    if kind == 'rename':
        spec, R = obj['spec'], obj['renaming']
        base = ctx.impl('c15', {'kind': 'model', 'spec': spec})
        ren = ctx.impl('c15', {'kind': 'model', 'spec': rename_spec(spec, R)})
        ok = True
        if (base.get('setup') is None) != (ren.get('setup') is None):
            say('class creation: base %s, renamed %s' % (base.get('setup'), ren.get('setup')))
            ok = False
        for oi, (a, b) in enumerate(zip(base['ops'], ren['ops'])):
            ea, eb = rename_tree(norm_outcome(a), R), norm_outcome(b)
            if ea != eb:
                ok = False
                say('op %d: r(result of M) = %s\n       r(M) gives     = %s' % (oi, json.dumps(ea)[:400], json.dumps(eb)[:400]))
        if ok:
            say('renamed model behaves as the renamed results of the base model')
        return ok
    print('replay object names a broken tie, not an input: %s' % json.dumps(obj)[:1000])
    return False
