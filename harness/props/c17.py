"""C17 — patterned dates/times parse their pattern, accept ISO and survive their dump.

Theorems: coq/props/C17.v (model coq/model/PatModel.v: decision trees of the default
engine's generated `pattern_to_dt` and of v1's `load_to_pattern`, with fromisoformat /
strptime as parameters, and `load_pos`: the annotated type as a position tree).
Harness: classes of 8 patterned fields written as source text.
  * patterns: grammar of strptime directives that determine the target's fields (%Y %y %m %b %B
    %d %j %H %I %p %M %S %f %z, literal text, '-', '+', 'Z', '%%', overlapping pattern pairs);
  * placement styles: Annotated on the whole container, one module-level pattern object shared by
    several fields of different target types, subscript style at the leaves
    (List[DatePattern[...]]), Annotated at the leaves (v1), pattern inside a nested dataclass;
  * positions: leaf, List, Dict (str keys / date-time keys), fixed and variadic tuples, Optional
    (also inside containers), Union with several non-None members (v1), NamedTuple fields,
    TypedDict values (total and not), nested dataclasses, NamedTuple / TypedDict classes shared
    by several fields, depth up to 3-4, mixed target kinds and subclasses below one pattern;
  * engines: default and v1 (naive / Aware / UTC, 1-3 patterns).
Direct predicates on the implementation, for every generated input:
  P1 load(v.strftime(p)) == truncate_p(v) (+tz), as the annotated class (ISO reading allowed
     only if the string is also valid ISO),     P2 load(dump(load(x))) == load(x),
  P3 load(v.isoformat()) == v,                  P4 junk -> ParseError naming the patterns,
  P6 several patterns -> first matching in listed order,   P7 element-wise at every position.
Correspondence: the model's `load_pos` over the same tree and input, the answers of the real
strptime / fromisoformat for the leaf strings being passed as oracle tables.
ISO-AMBIGUOUS stream (second half of every run): pattern lists containing a re-assignment of the
digit slots of an ISO layout ('%Y-%d-%m', '%S:%M:%H', '%Y-%d-%mT%M:%H:%S', '%m%d-%y-%H', '%I:%M' ...),
alone / with other patterns / Aware+UTC / in containers, both engines; STRICT reference:
  (a) a string that is valid ISO loads as fromisoformat reads it, whatever the patterns make of it,
  (b) load(dump(load(s))) == load(s),  (c) otherwise the first listed matching pattern wins.
The stdlib slice coq/model/PatStd.v (strp_fix / iso_fix) is compared with the interpreter on the
same strings.  Recorded finding F90 (v1 exception decided for the whole list) is replayed and its
region classified.
"""
import datetime as _dt, json, zoneinfo
from lib.coqrun import coq_str, coq_list

META = {
    'id': 'C17',
    'title': 'Patterned dates/times parse their pattern, accept ISO and survive their dump',
    'level': 'proof',
    'technique': 'Coq proof (case analysis on the two generated decision trees, induction on the pattern list / container) on a '
                 'hand-written Gallina model with fromisoformat/strptime as parameters + differential correspondence with oracle '
                 'tables + direct predicates on generated patterns and values',
    'design_ref': 'DESIGN.md section 4 C17',
    'theorems': ['C17_pattern', 'C17_pattern_dash_time', 'C17_pattern_v1', 'C17_first_match_v1', 'C17_tz_attached',
                 'C17_iso_precedence', 'C17_iso_precedence_v1', 'C17_iso', 'C17_iso_v1', 'C17_dump_load', 'C17_dump_load_v1',
                 'C17_reject_v1', 'C17_reject', 'C17_elementwise', 'C17_elementwise_error',
                 'C17_positions_leaf', 'C17_positions_seq', 'C17_positions_error_origin',
                 # the ambiguous region (a declared pattern ALSO parses a valid ISO string / several patterns parse one string)
                 'C17_load_cases', 'C17_load_cases_v1', 'C17_iso_wins', 'C17_iso_wins_v1', 'C17_no_exception_date_datetime',
                 'C17_ambiguous_is_iso', 'C17_ambiguous_is_iso_v1', 'C17_exception_exact', 'C17_exception_exact_v1',
                 'C17_first_match_spec', 'C17_first_listed_wins_v1', 'C17_dump_load_any', 'C17_dump_load_any_v1',
                 'C17_dump_load_strong', 'C17_dump_load_strong_v1', 'C17_dump_load_plain', 'C17_dump_load_plain_v1_partial',
                 'C17_iso_plain_v1_partial', 'C17_dump_load_v1_refuted', 'C17_iso_v1_refuted',
                 # the fixed-width slice of strptime / fromisoformat and the ISO-ambiguous family of patterns
                 'C17_slice_literal_law', 'C17_slice_roundtrip', 'C17_ambiguous_family', 'C17_ambiguous_dates', 'C17_ambiguous_times'],
    'tables': [],
    'level_text': ('Theorems proved in Coq for ALL patterns, strings, values, classes and time zones about an executable model of the '
                   'two generated decision trees (default engine and v1): order of the ISO / strptime attempts, first matching '
                   'pattern, tz attachment, class, rejection, dump/load, element-wise containers. strptime / strftime / '
                   'fromisoformat are parameters whose laws are premises; the model is re-validated against the implementation '
                   'on every run with the real functions\' answers, and the property is tested directly. '
                   'The AMBIGUOUS region is inside the model: "pattern p also matches s" (pmatches / first_match / ambig0 / ambig1); '
                   'a valid ISO string loads as ISO whatever the declared patterns make of it, the exception (time target and a '
                   'pattern containing - or +) is delimited exactly as the source delimits it (iff theorems), the first listed '
                   'matching pattern wins among the patterns, and load(dump(load s)) = load s for a value loaded through any '
                   'declared pattern. An executable fixed-width slice of strptime / fromisoformat (PatStd.v, compared with the '
                   'interpreter on every run) makes the region concrete: for EVERY permutation of the ISO field order and ALL '
                   'values whose permuted reading exists, the permuted pattern parses the ISO string as another value and both '
                   'engines still load the ISO reading (C17_ambiguous_family / _dates / _times). Where /repo violates the '
                   'property (v1: the exception is decided for the whole pattern list, finding F90) the statement is proved on the '
                   'safe region (sibling_free) and refuted with a witness outside it.'),
    'level_note': ('Trusted: Coq kernel; the hand-written model; the oracle premises (strptime inverts strftime at the pattern\'s '
                   'precision, fromisoformat inverts isoformat) audited by sampling on every run; the harness.'),
    'rule': ('per engine: classes of 8 patterned fields (placement styles: Annotated container / shared module-level pattern object / '
             'subscript leaves / Annotated leaves / nested dataclass; positions: leaf, List, Dict, date-time dict keys, fixed and '
             'variadic tuples, Optional, multi-member Union, NamedTuple, TypedDict total and partial, nested dataclass, shared '
             'NamedTuple/TypedDict classes, depth <= 4). Scalar field: one value formatted with each pattern, an ISO string, 2 junk '
             'strings; container field: 3 inputs whose leaves are pattern-formatted or ISO strings + 2 inputs with one junk leaf. '
             'Ambiguous stream: classes of 8 fields whose pattern list contains a re-assignment of the digit slots of an ISO layout '
             '(permutations of the two-digit directives, two-digit-year variants, %I for the hour; alone / listed with other patterns / '
             'Aware and UTC variants / containers); inputs: ISO renderings of values whose alternative reading exists, strings formatted '
             'with each listed pattern (small, mixed and full-range components), junk; strict reference: ISO reading if valid ISO, else '
             'first listed matching pattern. '
             'Non-trivial = pattern with >= 3 directives or subclass / tz variant / container / several patterns; distinct = '
             'distinct (engine, annotation, input).'),
    'trusted_base': ['model coq/model/PatModel.v: decision trees only; stdlib parsing/formatting are oracle parameters',
                     'oracle tables computed with the interpreter\'s own datetime.strptime / fromisoformat',
                     'coq/model/PatStd.v: a fixed-width slice of strptime / fromisoformat (%Y %m %d %H %M %S + literals, zero-padded '
                     'strings, ISO extended forms), used only as a concrete instance of the oracles; compared with the interpreter on '
                     'its domain on every run (stdlib_slice_audit)',
                     'literal law (premise of C17_dump_load_plain*): a pattern containing - or + only parses strings containing one'],
    'assumptions': ['date/time leaves receive str inputs (numbers / date objects take the timestamp path, outside the property)',
                    'years 1900-2100 (1969-2068 with %y); C locale for %b %B %p',
                    'default engine: no multi-member Union around a date/time leaf (str input is not matched there even unpatterned) and '
                    'no leaf-level Annotated inside a container (only container-level Annotated is documented)',
                    'junk strings are not placed below a multi-member Union (the Union error does not name the patterns)'],
}

ZONES = ['Europe/London', 'Asia/Tokyo', 'America/New_York', 'UTC', 'Australia/Adelaide']
OFFSETS = [0, 19800, -28800, 3600, 34200, -12600]
BASE = {'date': _dt.date, 'time': _dt.time, 'datetime': _dt.datetime}
SUB = {'date': 'MyDate', 'time': 'MyTime', 'datetime': 'MyDT'}


# --------------------------------------------------------------------------- pattern grammar
FIXED2 = {'%m', '%d', '%H', '%M', '%S', '%y', '%I', '%Y'}
SEPS = ['/', '.', ' ', ':', ',', '-', '-', '+', 'T', '_', ' at ', ' on ', '(', ')', '%%', '|', '~', 'h', 'Z', ' - ']


def gen_pattern(r, kind, want_tz=False, force_dash=None):
    """returns (pattern, info) - info = set of directives present"""
    parts = []
    info = set()

    def date_parts():
        y = r.choice(['%Y', '%Y', '%y'])
        if r.random() < 0.15:
            ps = [y, '%j']
        else:
            ps = [y, r.choice(['%m', '%m', '%b', '%B']), '%d']
        r.shuffle(ps)
        return ps

    def time_parts():
        ps = ['%H'] if r.random() < 0.65 else ['%I', '%p']
        ps.append('%M')
        if r.random() < 0.6:
            ps.append('%S')
            if r.random() < 0.35:
                ps.append('%f')
        if r.random() < 0.3:
            r.shuffle(ps)
            if '%f' in ps:      # keep the fraction right after something non-numeric-greedy: put it last
                ps.remove('%f'); ps.append('%f')
        return ps
    if kind == 'date':
        parts = date_parts()
        if r.random() < 0.15:
            parts += time_parts()
    elif kind == 'time':
        parts = time_parts()
        if r.random() < 0.12:
            parts = date_parts() + parts
    else:
        a, b = date_parts(), time_parts()
        parts = a + b if r.random() < 0.8 else b + a
    if want_tz:
        parts.append('%z')
    info = set(parts)
    seps = list(SEPS)
    if force_dash is True:
        seps = ['-', '+', ' - ', '-', '+']
    elif force_dash is False:
        seps = [s for s in SEPS if '-' not in s and '+' not in s]
    out = r.choice(['', '', '', 'on ', '[', 'day '])
    if force_dash is False:
        out = out.replace('-', '')
    for i, d in enumerate(parts):
        out += d
        if i + 1 < len(parts):
            nxt = parts[i + 1]
            s = r.choice(seps)
            if r.random() < 0.18 and d in FIXED2 and nxt in FIXED2 and d != '%Y' or (r.random() < 0.1 and d == '%Y' and nxt in FIXED2):
                s = '' if force_dash is not True else '-'
            if d == '%z' and (s == '' or s[0] in ':.0123456789'):
                s = ' '
            if nxt == '%f' and d == '%S':
                s = r.choice(['.', ',', '']) if force_dash is not True else '-'
            if d in ('%b', '%B', '%p') and s[:1].isalpha():
                s = ' ' + s
            if nxt in ('%b', '%B', '%p') and s[-1:].isalpha():
                s = s + ' '
            out += s
    out += r.choice(['', '', '', ']', ' h', '.'])
    if force_dash is True and '-' not in out and '+' not in out:
        out += '-'
    return out, info


def swap_variant(p):
    for a, b in (('%d', '%m'), ('%M', '%S'), ('%H', '%M')):
        if a in p and b in p:
            return p.replace(a, '\0').replace(b, a).replace('\0', b)
    return None


def gen_value(r, info, with_tz):
    y = r.randint(1969, 2068) if '%y' in info else r.randint(1900, 2100)
    m = r.randint(1, 12)
    d = r.randint(1, [31, 29 if (y % 4 == 0 and (y % 100 != 0 or y % 400 == 0)) else 28, 31, 30, 31, 30, 31, 31, 30, 31, 30, 31][m - 1])
    h, mi, s = r.randint(0, 23), r.randint(0, 59), r.randint(0, 59)
    us = r.choice([0, 0, r.randint(0, 999999), r.choice([1, 10, 450000, 999999])])
    tz = _dt.timezone(_dt.timedelta(seconds=r.choice(OFFSETS))) if with_tz else None
    return _dt.datetime(y, m, d, h, mi, s, us, tzinfo=tz)


def truncate(v, info):
    """independent reference: the value at the pattern's precision (components the pattern does not
    determine take strptime's documented defaults 1900-01-01 00:00:00, no tz)"""
    has_date = '%j' in info or '%d' in info
    return _dt.datetime(v.year if ('%Y' in info or '%y' in info) else 1900,
                        v.month if has_date else 1, v.day if has_date else 1,
                        v.hour if ('%H' in info or '%I' in info) else 0, v.minute if '%M' in info else 0,
                        v.second if '%S' in info else 0, v.microsecond if '%f' in info else 0,
                        tzinfo=v.tzinfo if '%z' in info else None)


def to_target(full, kind, tzname):
    """property text: date / time / datetime at the annotation's kind; declared tz attached for Aware / UTC"""
    tz = zoneinfo.ZoneInfo(tzname) if tzname else None
    if kind == 'date':
        return full.date()
    if kind == 'time':
        return full.time().replace(tzinfo=tz) if tz else full.time()
    return full.replace(tzinfo=tz) if tz else full


def canon_py(v, cls_name):
    """same canonical form as the runner, for a stdlib value expected to be of class cls_name"""
    if isinstance(v, _dt.datetime):
        f, t = [v.year, v.month, v.day, v.hour, v.minute, v.second, v.microsecond, v.fold], v.tzinfo
    elif isinstance(v, _dt.date):
        f, t = [v.year, v.month, v.day, 0, 0, 0, 0, 0], None
    else:
        f, t = [0, 0, 0, v.hour, v.minute, v.second, v.microsecond, v.fold], v.tzinfo
    if t is None:
        tz = None
    elif isinstance(t, zoneinfo.ZoneInfo):
        tz = ['zone', t.key]
    else:
        tz = ['off', int(t.utcoffset(None).total_seconds())]
    return {'t': cls_name, 'f': f, 'tz': tz}


def same_instant(a, b):
    """canonical forms equal, where a fixed offset and a zone are compared through Python equality upstream;
    here: identical class, fields and tz descriptor"""
    return a == b


# --------------------------------------------------------------------------- stdlib oracles
def o_strp(s, p):
    try:
        return _dt.datetime.strptime(s, p)
    except (ValueError, TypeError):
        return None
    except Exception:       # re.error etc. for odd patterns: treated as no match by the code as well
        return None


def o_iso(kind, s, engine):
    """the target class's fromisoformat, as the engine calls it"""
    if not isinstance(s, str):
        return None
    if engine == 'v0' and kind != 'date':
        s = s.replace('Z', '+00:00', 1)
    try:
        return BASE[kind].fromisoformat(s)
    except (ValueError, TypeError):
        return None


# --------------------------------------------------------------------------- positions (type trees)
# A field's type is a tree:
#   ['leaf', kind, cls] | ['int'] | ['list', T] | ['dict', T] | ['dictk', leaf, T] | ['tuple', [T, ...]] | ['tuplev', T]
#   | ['opt', T] | ['union', leaf, fillers] | ['nt', name, [[field, T], ...]] | ['td', name, total, [[key, T], ...]]
#   | ['dc', name, T, inner_style]          (nested dataclass `name` with one patterned field g: T)
# and a pattern placement STYLE:
#   'ann'    Annotated[<tree>, Pattern(...)]            the pattern applies to every date/time leaf of the tree
#   'shared' Annotated[<tree>, P]  with a module-level  P = Pattern(...)  used by several fields of the class
#   'sub'    subscript style at every leaf              List[DatePattern['...']]
#   'leafann' Annotated at every leaf (v1 only)         Dict[str, Annotated[MyDate, Pattern['...']]]
#   'dc'     the pattern lives inside a nested dataclass
KINDNAME = {'date': 'Date', 'time': 'Time', 'datetime': 'DateTime'}
# NamedTuple / TypedDict classes shared by the fields of a class (several fields reach the same helper type)
COMMON_SRC = ''.join('class CNT_%s(NamedTuple):\n    a: %s\n    n: int\n\n\nclass CTD_%s(TypedDict):\n    at: %s\n    n: int\n\n\n' % (k, k, k, k)
                     for k in ('date', 'time', 'datetime'))
JUNK = ['zzz', 'not a date', '12/34/5678', '99:99', '2022-13-45', '25-61', 'T', '+', '--', 'Jan', '12 PM', '0', ' ']


def tz_of(f):
    return None if f['tz'] is None else ('UTC' if f['tz'] == 'UTC!' else f['tz'])


def pat_expr(f):
    """source text of the pattern object"""
    plist = ', '.join(repr(p) for p in f['patterns'])
    if f['engine'] == 'v0':
        return 'Pattern(%s)' % plist
    pref = '' if f['tz'] is None else ('UTC' if f['tz'] == 'UTC!' else 'Aware')
    tzarg = '' if pref != 'Aware' else repr(f['tz']) + ', '
    return '%sPattern[%s%s]' % (pref, tzarg, plist)


def leaf_src(f, leaf, style):
    kind, cls = leaf[1], leaf[2]
    plain = cls or kind
    if style in ('ann', 'shared', 'plain'):
        return plain
    if style == 'leafann':
        return 'Annotated[%s, %s]' % (plain, pat_expr(f))
    # subscript style: the stdlib classes only
    plist = ', '.join(repr(p) for p in f['patterns'])
    if f['engine'] == 'v0':
        return '%sPattern[%s]' % (KINDNAME[kind], plist)
    pref = '' if f['tz'] is None else ('UTC' if f['tz'] == 'UTC!' else 'Aware')
    tzarg = '' if pref != 'Aware' else repr(f['tz']) + ', '
    return '%s%sPattern[%s%s]' % (pref, KINDNAME[kind], tzarg, plist)


FILLER_SRC = {'int': 'int', 'none': 'None', 'listint': 'List[int]', 'dictint': 'Dict[str, int]'}


def tree_src(f, t, style):
    k = t[0]
    if k == 'leaf':
        return leaf_src(f, t, style)
    if k == 'int':
        return 'int'
    if k == 'list':
        return 'List[%s]' % tree_src(f, t[1], style)
    if k == 'dict':
        return 'Dict[str, %s]' % tree_src(f, t[1], style)
    if k == 'dictk':
        return 'Dict[%s, %s]' % (tree_src(f, t[1], style), tree_src(f, t[2], style))
    if k == 'tuple':
        return 'Tuple[%s]' % ', '.join(tree_src(f, x, style) for x in t[1])
    if k == 'tuplev':
        return 'Tuple[%s, ...]' % tree_src(f, t[1], style)
    if k == 'opt':
        return 'Optional[%s]' % tree_src(f, t[1], style)
    if k == 'union':
        return 'Union[%s]' % ', '.join([tree_src(f, t[1], style)] + [FILLER_SRC[x] for x in t[2]])
    if k in ('nt', 'td', 'dc'):
        return t[1]
    raise ValueError(t)


def header_src(f, t, style, out):
    """class definitions the tree needs (NamedTuple / TypedDict / nested dataclass), innermost first"""
    k = t[0]
    if k in ('list', 'dict', 'tuplev', 'opt'):
        header_src(f, t[1], style, out)
    elif k == 'dictk':
        header_src(f, t[2], style, out)
    elif k == 'tuple':
        for x in t[1]:
            header_src(f, x, style, out)
    elif k in ('nt', 'td') and t[1].startswith('C'):
        pass
    elif k == 'nt':
        for _, x in t[2]:
            header_src(f, x, style, out)
        out.append('class %s(NamedTuple):\n%s\n' % (t[1], '\n'.join('    %s: %s' % (n, tree_src(f, x, style)) for n, x in t[2])))
    elif k == 'td':
        for _, x in t[3]:
            header_src(f, x, style, out)
        out.append('class %s(TypedDict%s):\n%s\n' % (t[1], '' if t[2] else ', total=False',
                                                     '\n'.join('    %s: %s' % (n, tree_src(f, x, style)) for n, x in t[3])))
    elif k == 'dc':
        inner_style = t[3]
        header_src(f, t[2], inner_style, out)
        body = tree_src(f, t[2], inner_style)
        if inner_style == 'ann':
            body = 'Annotated[%s, %s]' % (body, pat_expr(f))
        out.append('@dataclass\nclass %s:\n    g: %s\n' % (t[1], body) +
                   ('\nLoadMeta(v1=True).bind_to(%s)\n' % t[1] if f['engine'] == 'v1' else ''))


def field_ann(f):
    style, t = f['style'], f['tree']
    extra = ', json_key(%r)' % f['path'][0] if f.get('feat') == 'json_key' else ''
    if style == 'ann':
        return 'Annotated[%s, %s%s]' % (tree_src(f, t, 'ann'), pat_expr(f), extra)
    if style == 'shared':
        return 'Annotated[%s, %s%s]' % (tree_src(f, t, 'shared'), f['pvar'], extra)
    if style == 'dc':
        return tree_src(f, t, 'plain')
    return tree_src(f, t, style)


def leaves_of(t, acc=None):
    acc = [] if acc is None else acc
    k = t[0]
    if k == 'leaf':
        acc.append(t)
    elif k in ('list', 'dict', 'tuplev', 'opt', 'union'):
        leaves_of(t[1], acc)
    elif k == 'dictk':
        leaves_of(t[1], acc); leaves_of(t[2], acc)
    elif k == 'tuple':
        for x in t[1]:
            leaves_of(x, acc)
    elif k == 'nt':
        for _, x in t[2]:
            leaves_of(x, acc)
    elif k == 'td':
        for _, x in t[3]:
            leaves_of(x, acc)
    elif k == 'dc':
        leaves_of(t[2], acc)
    return acc


def gen_tree(r, f, style, kinds, depth, counter, top=True):
    def leaf():
        k = r.choice(kinds)
        return ['leaf', k, SUB[k] if (style != 'sub' and r.random() < 0.3) else None]
    if depth >= 3 or r.random() < (0.3 if top else 0.4):
        return leaf()
    opts = ['list', 'list', 'dict', 'tuplev', 'tuple', 'opt', 'dictk']
    if f['engine'] == 'v1':
        opts += ['union', 'union']
    if style in ('ann', 'shared'):
        opts += ['nt', 'td', 'nt', 'td']
    k = r.choice(opts)
    sub = lambda: gen_tree(r, f, style, kinds, depth + 1, counter, top=False)
    if k in ('list', 'dict', 'tuplev'):
        return [k, sub()]
    if k == 'opt':
        x = sub()
        return x if x[0] in ('opt', 'union') else ['opt', x]
    if k == 'dictk':
        return ['dictk', leaf(), sub()]
    if k == 'tuple':
        n = r.choice([1, 2, 2, 3])
        xs = [sub() if (i == 0 or r.random() < 0.5) else ['int'] for i in range(n)]
        r.shuffle(xs)
        return ['tuple', xs]
    if k == 'union':
        lf = leaf()
        fill = r.choice([['int', 'none'], ['listint'], ['int']]) if lf[1] == 'time' else r.choice([['listint', 'none'], ['dictint'], ['listint']])
        return ['union', lf, fill]
    if r.random() < 0.4:
        ck = r.choice(kinds)
        if k == 'nt':
            return ['nt', 'CNT_' + ck, [['a', ['leaf', ck, None]], ['n', ['int']]]]
        return ['td', 'CTD_' + ck, True, [['at', ['leaf', ck, None]], ['n', ['int']]]]
    counter[0] += 1
    cid = counter[0]
    if k == 'nt':
        n = r.choice([1, 2, 3])
        fs = [['m%d' % i, sub() if (i == 0 or r.random() < 0.5) else ['int']] for i in range(n)]
        r.shuffle(fs)
        return ['nt', 'NT%d_%d' % (f['id'], cid), fs]
    n = r.choice([1, 2, 3])
    fs = [['k%d' % i, sub() if (i == 0 or r.random() < 0.5) else ['int']] for i in range(n)]
    return ['td', 'TD%d_%d' % (f['id'], cid), r.random() < 0.5, fs]


def gen_patterns(r, f, kinds):
    """patterns determining every target kind of the field (a datetime-complete pattern when kinds are mixed)"""
    pk = kinds[0] if len(set(kinds)) == 1 else 'datetime'
    npat = 1 if f['engine'] == 'v0' else r.choice([1, 1, 2, 3])
    force = r.choice([True, False, None]) if pk == 'time' else None
    want_tz = pk != 'date' and r.random() < 0.25
    pats, infos, overlap = [], [], False
    while len(pats) < npat:
        for _try in range(20):
            p, info = gen_pattern(r, pk, want_tz=want_tz, force_dash=force)
            if p not in pats:
                break
        pats.append(p)
        infos.append(sorted(info))
        if len(pats) < npat and r.random() < 0.5:
            q = swap_variant(p)
            if q is not None and q not in pats:
                pats.append(q)
                infos.append(sorted(info))
                overlap = True
    f['patterns'], f['infos'], f['overlap'] = pats, infos, overlap


def gen_feature(r, f):
    """the other declaration features a patterned field can be combined with: how its default and its JSON key / path
    are declared"""
    i = f['id']
    if f['engine'] == 'v0':
        feats = ['plain', 'plain', 'plain', 'json_field', 'json_field_all', 'metadata', 'factory', 'path', 'skip_if']
        if f['style'] in ('ann', 'shared'):
            feats += ['json_key', 'json_key']
    else:
        feats = ['plain', 'plain', 'plain', 'alias', 'alias_load', 'aliaspath', 'metadata', 'factory']
    feat = r.choice(feats)
    key = 'Key%d' % i
    f['feat'], f['path'] = feat, ['f%d' % i]
    f['rhs'] = 'None'
    if feat == 'json_field':
        f['rhs'], f['path'] = 'json_field(%r, default=None)' % key, [key]
    elif feat == 'json_field_all':
        f['rhs'], f['path'] = 'json_field(%r, all=True, default=None)' % key, [key]
    elif feat == 'metadata':
        f['rhs'] = "field(default=None, metadata={'unit': 'd', 'doc': 'patterned'})"
    elif feat == 'factory':
        f['rhs'] = 'field(default_factory=lambda: None)'
    elif feat == 'path':
        f['rhs'], f['path'] = "path_field('outer%d.inner', default=None)" % i, ['outer%d' % i, 'inner']
        # the default engine feeds the default of an ABSENT path field through the field's parser (also unpatterned):
        # a None default needs an Optional annotation
        if f['tree'][0] != 'opt':
            f['tree'] = ['opt', f['tree']]
    elif feat == 'skip_if':
        f['rhs'] = 'skip_if_field(SkipIfNone, default=None)'
    elif feat == 'json_key':
        f['path'] = [key]
    elif feat == 'alias':
        f['rhs'], f['path'] = 'Alias(%r, default=None)' % key, [key]
    elif feat == 'alias_load':
        f['rhs'], f['path'] = 'Alias(load=%r, default=None)' % key, [key]
    elif feat == 'aliaspath':
        f['rhs'], f['path'] = "AliasPath('outer%d.inner', default=None)" % i, ['outer%d' % i, 'inner']


def gen_field(r, engine, fid, shared=None):
    f = {'engine': engine, 'id': fid, 'tz': None}
    if shared is not None:
        f.update({k: shared[k] for k in ('tz', 'patterns', 'infos', 'overlap', 'pvar')})
        style, kinds = 'shared', shared['kinds']
        if r.random() < 0.6:
            kinds = [r.choice(kinds)]
    else:
        styles = ['ann', 'ann', 'ann', 'sub', 'sub', 'dc'] + (['leafann', 'leafann'] if engine == 'v1' else [])
        style = r.choice(styles)
        if engine == 'v1' and r.random() < 0.4:
            f['tz'] = 'UTC!' if r.random() < 0.4 else r.choice(ZONES)
        allk = ['time', 'datetime'] if f['tz'] else ['date', 'time', 'datetime']
        kinds = [r.choice(allk)] if r.random() < 0.7 else r.sample(allk, 2)
    f['style'] = style
    counter = [0]
    if style == 'dc':
        inner_style = r.choice(['sub', 'ann'] + (['leafann'] if engine == 'v1' else []))
        inner = gen_tree(r, f, inner_style, kinds, 1, counter, top=r.random() < 0.5)
        node = ['dc', 'Inner%d' % fid, inner, inner_style]
        f['tree'] = r.choice([node, node, ['list', node], ['dict', node]])
    else:
        f['tree'] = gen_tree(r, f, style, kinds, 0, counter)
    if shared is None:
        gen_patterns(r, f, [l[1] for l in leaves_of(f['tree'])])
    gen_feature(r, f)
    f['ann'] = field_ann(f)
    hdr = []
    header_src(f, f['tree'], 'plain' if style == 'dc' else style, hdr)
    f['header'] = ''.join(h + '\n' for h in hdr)
    gen_inputs(r, f)
    return f


# --------------------------------------------------------------------------- inputs
def leafctx(f, leaf):
    return {'engine': f['engine'], 'kind': leaf[1], 'cls': leaf[2], 'tz': f['tz'], 'patterns': f['patterns']}


def gen_leaf_string(r, f, leaf, why):
    """(string, meta) for one date/time leaf"""
    kind = leaf[1]
    if f.get('amb'):
        return amb_leaf_string(r, f, leaf, {'fmt': 'amb_fmt', 'iso': 'amb_iso'}.get(why, why))
    if why == 'fmt':
        j = r.randrange(len(f['patterns']))
        info = set(f['infos'][j])
        v = gen_value(r, info, with_tz='%z' in info)
        if f['overlap']:
            v = v.replace(day=min(v.day, 12), minute=v.minute % 24, second=v.second % 24)
        return v.strftime(f['patterns'][j]), {'why': 'fmt', 'j': j, 'v': v.isoformat()}
    if why == 'iso':
        tzname = tz_of(f)
        v = gen_value(r, set(), with_tz=(tzname is None and kind != 'date' and r.random() < 0.3))
        tv = v.date() if kind == 'date' else (v.timetz() if kind == 'time' else v)
        if tzname:
            tv = tv.replace(tzinfo=zoneinfo.ZoneInfo(tzname))
        return tv.isoformat(), {'why': 'iso', 'v': tv.isoformat()}
    return r.choice(JUNK), {'why': 'junk'}


def no_junk(plan):
    def q(p):
        w = plan(p)
        return 'fmt' if w == 'junk' else w
    return q


def gen_input(r, f, t, meta, path, plan):
    """a JSON input for the tree; meta[path] describes every date/time leaf string; `plan(path)` -> why"""
    k = t[0]
    if k == 'leaf':
        s, m = gen_leaf_string(r, f, t, plan(path))
        meta[path] = m
        return s
    if k == 'int':
        return r.randint(-5, 99)
    if k in ('list', 'tuplev'):
        return [gen_input(r, f, t[1], meta, '%s/%d' % (path, i), plan) for i in range(r.choice([0, 1, 2, 2, 3]))]
    if k == 'dict':
        return {'k%d' % i: gen_input(r, f, t[1], meta, '%s/k%d' % (path, i), plan) for i in range(r.choice([0, 1, 2, 2]))}
    if k == 'dictk':
        out = {}
        for i in range(r.choice([1, 1, 2])):
            ks = gen_input(r, f, t[1], meta, '%s/key%d' % (path, i), no_junk(plan))
            lf = leafctx(f, t[1])
            rd = [json.dumps(canon_py(x, 'k')) for x in (pattern_reading(lf, ks), iso_reading(lf, ks)) if x is not None]
            seen_keys = meta.setdefault('__keys__' + path, [])
            if ks in out or any(x in seen_keys for x in rd):   # two key strings denoting the same value collapse into one entry
                meta.pop('%s/key%d' % (path, i), None)
                continue
            seen_keys.extend(rd)
            out[ks] = gen_input(r, f, t[2], meta, '%s/val%d' % (path, i), plan)
            meta['%s/key%d' % (path, i)]['key'] = True
        return out
    if k == 'tuple':
        return [gen_input(r, f, x, meta, '%s/%d' % (path, i), plan) for i, x in enumerate(t[1])]
    if k == 'opt':
        return None if r.random() < 0.25 else gen_input(r, f, t[1], meta, path, plan)
    if k == 'union':
        m = r.random()
        if m < 0.6:
            return gen_input(r, f, t[1], meta, path, no_junk(plan))
        x = r.choice(t[2])
        return {'int': r.randint(0, 50), 'none': None, 'listint': [r.randint(0, 9), 2], 'dictint': {'x': r.randint(0, 9)}}[x]
    if k == 'nt':
        return [gen_input(r, f, x, meta, '%s/%s' % (path, n), plan) for n, x in t[2]]
    if k == 'td':
        return {n: gen_input(r, f, x, meta, '%s/%s' % (path, n), plan) for n, x in t[3] if t[2] or r.random() < 0.75}
    if k == 'dc':
        return {'g': gen_input(r, f, t[2], meta, path + '/g', plan)}
    raise ValueError(t)


def clean_meta(meta):
    for k in [k for k in meta if k.startswith('__keys__')]:
        del meta[k]
    return meta


def gen_inputs(r, f):
    t = f['tree']
    items = []
    if t[0] == 'leaf':
        for j in range(len(f['patterns'])):          # one value formatted with each pattern
            info = set(f['infos'][j])
            v = gen_value(r, info, with_tz='%z' in info)
            if f['overlap']:
                v = v.replace(day=min(v.day, 12), minute=v.minute % 24, second=v.second % 24)
            items.append({'inp': v.strftime(f['patterns'][j]), 'meta': {'': {'why': 'fmt', 'j': j, 'v': v.isoformat()}}})
        for why in ('iso', 'junk', 'junk'):
            meta = {}
            items.append({'inp': gen_input(r, f, t, meta, '', lambda p, w=why: w), 'meta': meta})
    else:
        for _ in range(3):
            meta = {}
            inp = gen_input(r, f, t, meta, '', lambda p: 'fmt' if r.random() < 0.65 else 'iso')
            items.append({'inp': inp, 'meta': meta})
        for _ in range(2):                             # one junk leaf somewhere
            meta = {}
            state = {'n': 0, 'pick': r.randint(0, 3)}

            def plan(p, state=state):
                state['n'] += 1
                return 'junk' if state['n'] - 1 == state['pick'] else ('fmt' if r.random() < 0.7 else 'iso')
            inp = gen_input(r, f, t, meta, '', plan)
            items.append({'inp': inp, 'meta': meta})
    for it in items:
        clean_meta(it['meta'])
    f['items'] = items


# --------------------------------------------------------------------------- ISO-AMBIGUOUS patterns
# Patterns that also parse an ISO-8601 rendering of some value of the target type, with another meaning.
# Systematic construction: take an ISO LAYOUT of the target kind (the strftime pattern that writes one of the ISO forms
# fromisoformat accepts), and re-assign its digit slots: permute the two-digit directives among the two-digit slots,
# read the four-digit year slot with two two-digit directives (two-digit-year variants), read the hour slot with %I.
# Whether (pattern, value) is really ambiguous is decided by the stdlib itself (strptime and fromisoformat both parse
# the string, with different readings), never by the library.
ISO_LAYOUTS = {
    'date': ['%Y-%m-%d', '%Y-%m-%d', '%Y%m%d'],
    'time': ['%H:%M:%S', '%H:%M:%S', '%H:%M', '%H%M%S', '%H%M', '%H:%M:%S.%f'],
    'datetime': ['%Y-%m-%dT%H:%M:%S', '%Y-%m-%d %H:%M:%S', '%Y-%m-%dT%H:%M', '%Y-%m-%dT%H:%M:%S.%f', '%Y%m%dT%H%M%S',
                 '%Y-%m-%d'],
}
ISO_LAYOUTS_TZ = {'time': ['%H:%M:%S%z', '%H:%M:%SZ'], 'datetime': ['%Y-%m-%dT%H:%M:%S%z', '%Y-%m-%d %H:%M:%SZ']}
TWO_DIGIT = ['%m', '%d', '%H', '%M', '%S', '%y']
REQUIRED = {'date': [('%Y', '%y'), ('%m',), ('%d',)], 'time': [('%H', '%I'), ('%M',)],
            'datetime': [('%Y', '%y'), ('%m',), ('%d',), ('%H', '%I'), ('%M',)]}
OTHER_PATTERNS = {'date': ['%d.%m.%Y', '%m/%d/%Y', '%d %b %Y', '%Y.%j'],
                  'time': ['%Hh%M', '%I.%M %p', '%H.%M.%S', '%M min %H h'],
                  'datetime': ['%d.%m.%Y %H.%M', '%m/%d/%Y %I:%M %p', '%d %b %Y, %H.%M.%S', '%H.%M on %d.%m.%Y']}
DASHED_TIME = ['%H-%M', '%H-%M-%S', '%M+%H', '%H:%M - %S']
AMB_YEARS = [2001, 2002, 2003, 2004, 2005, 2006, 2007, 2008, 2009, 2010, 2011, 2012, 1011, 1112, 1210, 2021, 1999, 2068]


def split_layout(layout):
    """['%Y', '-', '%m', ...]: directives and literal runs"""
    import re
    return [x for x in re.split(r'(%[A-Za-z])', layout) if x]


def directives_of(p):
    import re
    return re.findall(r'%[A-Za-z]', p)


def perms_of(xs):
    import itertools
    return [list(q) for q in itertools.permutations(xs)]


def amb_variants(kind, layout):
    """every re-assignment of the digit slots of `layout` that still determines the target's fields
    (as a list of patterns, the layout itself excluded), in a fixed order"""
    parts = split_layout(layout)
    slots2 = [i for i, x in enumerate(parts) if x in TWO_DIGIT]
    used2 = [parts[i] for i in slots2]
    out = []

    required = REQUIRED[kind] if ('%H' in parts or kind != 'datetime') else REQUIRED['date']   # date-only layout of a datetime

    def ok(ds):
        return len(set(ds)) == len(ds) and not ('%Y' in ds and '%y' in ds) and not ('%H' in ds and '%I' in ds) and \
            all(any(a in ds for a in alt) for alt in required)
    # (a) permutations of the two-digit directives among the two-digit slots (optionally %H -> %I)
    for q in perms_of(used2):
        for hour in ('%H', '%I'):
            ps = list(parts)
            for i, d in zip(slots2, q):
                ps[i] = hour if d == '%H' else d
            if ok(directives_of(''.join(ps))):
                out.append(''.join(ps))
    nperm = len(out)
    # (b) two-digit-year variants: the YYYY slot read by two two-digit directives, %y in some two-digit slot
    if '%Y' in parts:
        extras = [d for d in TWO_DIGIT if d not in used2 and d != '%y']
        pool = used2 + ['%y']
        for extra in extras[:3]:
            cand = pool + [extra]
            if len(cand) != len(slots2) + 2:
                continue
            allp = perms_of(cand)
            for q in allp[::max(1, len(allp) // 48)]:
                ps = list(parts)
                ps[parts.index('%Y')] = q[0] + q[1]
                for i, d in zip(slots2, q[2:]):
                    ps[i] = d
                if ok(directives_of(''.join(ps))):
                    out.append(''.join(ps))
    seen, perm, split = {layout}, [], []
    for i, p in enumerate(out):
        if p not in seen:
            seen.add(p)
            (perm if i < nperm else split).append(p)
    return perm, split


def amb_pool_value(r, small):
    """small: every component is a valid month, day, hour, minute and second (1..12): all re-assignments are valid"""
    if small:
        y = r.choice(AMB_YEARS)
        return _dt.datetime(y, r.randint(1, 12), r.randint(1, 12), r.randint(1, 12), r.randint(1, 12), r.randint(1, 12),
                            r.choice([0, 0, 120000, 101112]))
    v = gen_value(r, set(), False)
    return v.replace(day=min(v.day, 28)).replace(year=r.choice([v.year, r.choice(AMB_YEARS)]))


def render_layout(v, layout, tz=None):
    if '%z' in layout:
        v = v.replace(tzinfo=tz or _dt.timezone.utc)
        s = v.strftime(layout.replace('%z', '')) + v.isoformat()[-6:]
        return s
    return v.strftime(layout)


def gen_amb_patterns(r, f, kind):
    """pattern list of an ambiguous field: an ISO-ambiguous pattern alone, or listed with other patterns"""
    layouts = list(ISO_LAYOUTS[kind])
    if f['tz'] or (kind != 'date' and r.random() < 0.15):
        layouts += ISO_LAYOUTS_TZ.get(kind, [])
    layout = r.choice(layouts)
    perm, split = amb_variants(kind, layout)
    vs = perm if (perm and (not split or r.random() < 0.75)) else split
    f['amb'] = {'layout': layout, 'kind': kind}
    if not vs:
        vs = [layout]
    # systematic: walk the variants of the layout round-robin over the run (every one is reached), random start
    idx = f.get('amb_idx', r.randrange(len(vs)))
    amb = vs[idx % len(vs)]
    pats = [amb]
    if f['engine'] == 'v1':
        mode = r.choice(['single', 'single', 'amb+other', 'other+amb', 'amb+amb', 'three'])
        other = r.choice(OTHER_PATTERNS[kind])
        amb2 = vs[(idx + 1 + r.randrange(len(vs))) % len(vs)]
        if mode == 'amb+other':
            pats = [amb, other]
        elif mode == 'other+amb':
            pats = [other, amb]
        elif mode == 'amb+amb' and amb2 != amb:
            pats = [amb, amb2]
        elif mode == 'three' and amb2 != amb:
            pats = [amb, other, amb2]
            r.shuffle(pats)
        if kind == 'time' and r.random() < 0.3:
            # the exception region: a pattern containing '-' / '+' somewhere in the list
            pats.insert(r.randrange(len(pats) + 1), r.choice(DASHED_TIME))
    elif kind == 'time' and r.random() < 0.1:
        pats = [r.choice(DASHED_TIME)]
    f['patterns'] = pats
    f['infos'] = [sorted(set(directives_of(p))) for p in pats]
    f['overlap'] = False


def amb_leaf_string(r, f, leaf, why):
    kind, lf = leaf[1], leafctx(f, leaf)
    a = f['amb']
    if why == 'amb_iso':
        # an ISO rendering (in the field's layout) of a value; prefer one that a declared pattern ALSO parses differently
        tz = _dt.timezone(_dt.timedelta(seconds=r.choice(OFFSETS)))
        best = None
        for _try in range(12):
            v = amb_pool_value(r, small=_try < 9)
            s = render_layout(v, a['layout'], tz)
            ir = iso_reading(lf, s)
            if ir is None:
                continue
            pr = pattern_reading(lf, s)
            if best is None:
                best = (s, False)
            if pr is not None and canon_py(pr, 'x') != canon_py(ir, 'x'):
                best = (s, True)
                break
        if best is None:
            best = (gen_leaf_string(r, dict(f, amb=None), leaf, 'iso')[0], False)
        return best[0], {'why': 'amb_iso', 'ambiguous': best[1]}
    if why == 'amb_fmt':
        j = r.randrange(len(f['patterns']))
        p = f['patterns'][j]
        mode = r.choice(['small', 'small', 'any', 'mixed'])
        v = amb_pool_value(r, small=mode != 'any')
        if mode == 'mixed':      # one component out of the range of its ISO neighbour: not ISO, but several patterns may match
            v = v.replace(**r.choice([{'day': r.randint(13, 28)}, {'second': r.randint(24, 59)}, {'minute': r.randint(24, 59)},
                                      {'hour': r.randint(13, 23)}]))
        if '%z' in p:
            v = v.replace(tzinfo=_dt.timezone(_dt.timedelta(seconds=r.choice(OFFSETS))))
        try:
            s = v.strftime(p)
        except ValueError:
            s = v.replace(day=min(v.day, 28), year=2012).strftime(p)
        ir, pr = iso_reading(lf, s), pattern_reading(lf, s)
        return s, {'why': 'amb_fmt', 'j': j, 'ambiguous': bool(ir is not None and pr is not None and canon_py(pr, 'x') != canon_py(ir, 'x'))}
    return r.choice(JUNK), {'why': 'junk'}


def gen_amb_field(r, engine, fid, idx):
    """a field whose pattern list contains an ISO-ambiguous pattern; same record shape as gen_field"""
    f = {'engine': engine, 'id': fid, 'tz': None, 'amb_idx': idx}
    if engine == 'v1' and r.random() < 0.4:
        f['tz'] = 'UTC!' if r.random() < 0.5 else r.choice(ZONES)
    kind = r.choice(['time', 'datetime'] if f['tz'] else ['date', 'time', 'datetime'])
    style = r.choice(['ann', 'ann', 'sub', 'sub'] + (['leafann'] if engine == 'v1' else []))
    f['style'] = style
    if r.random() < 0.5:
        f['tree'] = ['leaf', kind, SUB[kind] if (style != 'sub' and r.random() < 0.3) else None]
    else:
        f['tree'] = gen_tree(r, f, style, [kind], r.choice([0, 1, 2]), [0])
    gen_amb_patterns(r, f, kind)
    gen_feature(r, f)
    f['ann'] = field_ann(f)
    hdr = []
    header_src(f, f['tree'], style, hdr)
    f['header'] = ''.join(h + '\n' for h in hdr)
    t = f['tree']
    items = []
    if t[0] == 'leaf':
        plans = ['amb_iso', 'amb_iso'] + ['amb_fmt'] * (2 * len(f['patterns'])) + ['junk']
        for why in plans:
            meta = {}
            items.append({'inp': gen_input(r, f, t, meta, '', lambda p, w=why: w), 'meta': meta})
    else:
        for _ in range(4):
            meta = {}
            items.append({'inp': gen_input(r, f, t, meta, '', lambda p: 'amb_iso' if r.random() < 0.5 else 'amb_fmt'), 'meta': meta})
        meta, state = {}, {'n': 0, 'pick': r.randint(0, 2)}

        def plan(p, state=state):
            state['n'] += 1
            return 'junk' if state['n'] - 1 == state['pick'] else 'amb_fmt'
        items.append({'inp': gen_input(r, f, t, meta, '', plan), 'meta': meta})
    for it in items:
        clean_meta(it['meta'])
    f['items'] = items
    return f


def has_dash(p):
    return '-' in p or '+' in p


def first_matching(lf, s):
    """(index, value at the target kind) of the first listed pattern that parses s"""
    for j, p in enumerate(lf['patterns']):
        d = o_strp(s, p)
        if d is not None:
            return j, to_target(d, lf['kind'], tz_of(lf))
    return None


def strict_accept(ctx, lf, s, m, pr, ir):
    """the property, strictly (documentation: fromisoformat first, then the patterns in listed order):
         valid ISO for the target  -> the ISO reading, whatever the declared patterns make of the string;
         otherwise                  -> the reading of the FIRST listed pattern that parses it.
       Tolerated (as in the other streams): a time pattern that itself contains '-' / '+' may be tried before
       time.fromisoformat (the purpose of the library's Python-3.11 work-around)."""
    cn = cls_name(lf)
    if ctx is not None:
        ctx.hist('ambiguous_leaf', '%s/%s' % (m['why'], 'ambiguous' if (pr is not None and ir is not None and
                                                                       canon_py(pr, cn) != canon_py(ir, cn)) else 'plain'))
    if ir is None:
        return [canon_py(pr, cn)]
    acc = [canon_py(ir, cn)]
    fm = first_matching(lf, s)
    if fm is not None and lf['kind'] == 'time' and has_dash(lf['patterns'][fm[0]]):
        acc.append(canon_py(pr, cn))
    return acc


F90 = 'F90-v1-time-dash-exception-is-list-wide'


def in_f90_region(f, strings):
    """v1, time leaf, some declared pattern contains '-' / '+' (the exception is active for the whole list), and a
    string that is valid ISO is parsed first by a listed pattern WITHOUT '-' / '+', with another reading"""
    if f['engine'] != 'v1':
        return False
    for leaf, s in strings:
        lf = leafctx(f, leaf)
        if not dash_time(lf) or not isinstance(s, str):
            continue
        fm, ir = first_matching(lf, s), iso_reading(lf, s)
        if fm is not None and ir is not None and not has_dash(lf['patterns'][fm[0]]) and canon_py(fm[1], 'x') != canon_py(ir, 'x'):
            return True
    return False


# --------------------------------------------------------------------------- expectations (direct predicates)
def cls_name(lf):
    return lf['cls'] or lf['kind']


def pattern_reading(lf, s):
    """first pattern (listed order) that parses s -> value at the target kind (+tz), else None"""
    for p in lf['patterns']:
        d = o_strp(s, p)
        if d is not None:
            return to_target(d, lf['kind'], tz_of(lf))
    return None


def iso_reading(lf, s):
    d = o_iso(lf['kind'], s, lf['engine'])
    if d is None:
        return None
    tz = tz_of(lf)
    return d.replace(tzinfo=zoneinfo.ZoneInfo(tz)) if tz else d


def dash_time(lf):
    return lf['kind'] == 'time' and any('-' in p or '+' in p for p in lf['patterns'])


class Reject(Exception):
    pass


def leaf_accept(ctx, f, leaf, s, m):
    """acceptable canonical values for one leaf string (P1/P3/P6); raises Reject when neither ISO nor any pattern"""
    lf = leafctx(f, leaf)
    cn = cls_name(lf)
    pr, ir = pattern_reading(lf, s), iso_reading(lf, s)
    if pr is None and ir is None:
        raise Reject(s)
    if m and m.get('why') in ('amb_iso', 'amb_fmt'):
        return strict_accept(ctx, lf, s, m, pr, ir)
    if m and m.get('why') == 'fmt':
        info = set(f['infos'][m['j']])
        v = _dt.datetime.fromisoformat(m['v'])
        want = to_target(truncate(v, info), lf['kind'], tz_of(lf))
        d = o_strp(s, f['patterns'][m['j']])
        if d is None or canon_py(to_target(d, lf['kind'], tz_of(lf)), cn) != canon_py(want, cn):
            if ctx is not None:
                ctx.hist('premise_audit', 'strptime_not_inverse')
        elif ctx is not None:
            ctx.hist('premise_audit', 'strptime_inverse_ok')
        acc = [canon_py(pr, cn)]
        if ir is not None:
            acc.append(canon_py(ir, cn))         # documented exception: also valid ISO
        return acc
    if m and m.get('why') == 'iso':
        tv = BASE[lf['kind']].fromisoformat(m['v'])
        if tz_of(lf):
            tv = tv.replace(tzinfo=zoneinfo.ZoneInfo(tz_of(lf)))
        if ir is None or canon_py(ir, cn) != canon_py(tv, cn):
            if ctx is not None:
                ctx.hist('premise_audit', 'fromisoformat_not_inverse')
            return [canon_py(x, cn) for x in (pr, ir) if x is not None]
        if ctx is not None:
            ctx.hist('premise_audit', 'fromisoformat_inverse_ok')
        acc = [canon_py(tv, cn)]
        if pr is not None and dash_time(lf):
            acc.append(canon_py(pr, cn))
        return acc
    return [canon_py(x, cn) for x in (pr, ir) if x is not None]


def expect(ctx, f, t, inp, meta, path=''):
    """expected canonical tree (leaves: {'accept': [...]}); raises Reject"""
    k = t[0]
    if k == 'leaf':
        return {'accept': leaf_accept(ctx, f, t, inp, meta.get(path))}
    if k == 'int':
        return {'int': inp}
    if k == 'list':
        return {'seq': 'list', 'items': [expect(ctx, f, t[1], x, meta, '%s/%d' % (path, i)) for i, x in enumerate(inp)]}
    if k == 'tuplev':
        return {'seq': 'tuple', 'items': [expect(ctx, f, t[1], x, meta, '%s/%d' % (path, i)) for i, x in enumerate(inp)]}
    if k == 'tuple':
        return {'seq': 'tuple', 'items': [expect(ctx, f, x, y, meta, '%s/%d' % (path, i)) for i, (x, y) in enumerate(zip(t[1], inp))]}
    if k == 'dict':
        return {'map': [[{'str': kk}, expect(ctx, f, t[1], x, meta, '%s/%s' % (path, kk))] for kk, x in inp.items()]}
    if k == 'dictk':
        return {'map': [[expect(ctx, f, t[1], kk, meta, '%s/key%d' % (path, i)), expect(ctx, f, t[2], x, meta, '%s/val%d' % (path, i))]
                        for i, (kk, x) in enumerate(inp.items())]}
    if k == 'opt':
        return None if inp is None else expect(ctx, f, t[1], inp, meta, path)
    if k == 'union':
        if isinstance(inp, str):
            return expect(ctx, f, t[1], inp, meta, path)
        return plain_canon(inp)
    if k == 'nt':
        return {'nt': t[1], 'items': [expect(ctx, f, x, y, meta, '%s/%s' % (path, n)) for (n, x), y in zip(t[2], inp)]}
    if k == 'td':
        d = dict((n, x) for n, x in t[3])
        return {'map': [[{'str': kk}, expect(ctx, f, d[kk], x, meta, '%s/%s' % (path, kk))] for kk, x in inp.items()], 'unordered': True}
    if k == 'dc':
        return {'dc': t[1], 'fields': [['g', expect(ctx, f, t[2], inp['g'], meta, path + '/g')]]}
    raise ValueError(t)


def plain_canon(x):
    if x is None:
        return None
    if isinstance(x, bool):
        return {'bool': x}
    if isinstance(x, int):
        return {'int': x}
    if isinstance(x, str):
        return {'str': x}
    if isinstance(x, list):
        return {'seq': 'list', 'items': [plain_canon(y) for y in x]}
    if isinstance(x, dict):
        return {'map': [[{'str': k}, plain_canon(v)] for k, v in x.items()]}
    raise ValueError(x)


def matches(exp, got):
    if isinstance(exp, dict) and 'accept' in exp:
        return got in exp['accept']
    if exp is None or got is None:
        return exp is None and got is None
    if not isinstance(got, dict):
        return False
    if 'seq' in exp or 'nt' in exp:
        key = 'seq' if 'seq' in exp else 'nt'
        return got.get(key) == exp[key] and len(got.get('items', [])) == len(exp['items']) and \
            all(matches(a, b) for a, b in zip(exp['items'], got['items']))
    if 'map' in exp:
        g = got.get('map')
        if g is None or len(g) != len(exp['map']):
            return False
        e = exp['map']
        if exp.get('unordered'):
            e = sorted(e, key=lambda kv: json.dumps(kv[0], sort_keys=True))
            g = sorted(g, key=lambda kv: json.dumps(kv[0], sort_keys=True))
        return all(matches(a[0], b[0]) and matches(a[1], b[1]) for a, b in zip(e, g))
    if 'dc' in exp:
        return got.get('dc') == exp['dc'] and len(got.get('fields', [])) == len(exp['fields']) and \
            all(a[0] == b[0] and matches(a[1], b[1]) for a, b in zip(exp['fields'], got['fields']))
    return exp == got


def first_accept(exp):
    """the expected tree with the preferred reading at each leaf (for messages)"""
    if isinstance(exp, dict) and 'accept' in exp:
        return exp['accept'][0]
    if isinstance(exp, dict):
        return {k: (first_accept(v) if isinstance(v, (dict, list)) else v) for k, v in exp.items()}
    if isinstance(exp, list):
        return [first_accept(x) for x in exp]
    return exp


def check_input(ctx, f, it, res):
    """all direct predicates for one input of one field; returns None or a description of the failure"""
    load = res['load']
    try:
        exp = expect(ctx, f, f['tree'], it['inp'], it['meta'])
    except Reject as e:
        # P4 (and P7: a junk element rejects the container)
        if not load.get('parse_error'):
            return 'P4: input with the junk string %r not rejected with ParseError: %r' % (e.args[0], load)
        msg = load.get('msg', '')
        missing = [p for p in f['patterns'] if p not in msg and repr(p)[1:-1] not in msg]
        if missing:
            return 'P4: ParseError for junk %r does not name the pattern(s) %r: %s' % (e.args[0], missing, msg[:300])
        return None
    if 'ok' not in load:
        return 'P1/P3/P7: valid input rejected: %s: %s' % (load.get('err'), load.get('msg', '')[:300])
    if not matches(exp, load['ok']):
        return 'P1/P3/P6/P7: loaded %s, expected %s' % (json.dumps(load['ok'])[:500], json.dumps(first_accept(exp))[:500])
    if load['ok'] is not None:
        if 'again' not in res or 'ok' not in res['again']:
            return 'P2: dump %r of the loaded value does not load: %r' % (res.get('dump'), res.get('again'))
        if not res.get('again_equal'):
            return 'P2: load(dump(load(x))) = %s differs from load(x) = %s (dump %r)' % (
                json.dumps(res['again']['ok'])[:300], json.dumps(load['ok'])[:300], res.get('dump'))
        if f['tree'][0] == 'leaf' and not isinstance(res.get('dump'), str):
            return 'dump of a patterned field is not an ISO string: %r' % (res.get('dump'),)
    return None


# --------------------------------------------------------------------------- aligning leaves with observed trees
def align(t, inp, got, out, f):
    """collect (leaf, input string, observed canonical leaf) triples; False if the observed tree has another shape"""
    k = t[0]
    if k == 'leaf':
        if not isinstance(inp, str):
            return False
        out.append((t, inp, got))
        return isinstance(got, dict) and 't' in got
    if k == 'int':
        return True
    if k in ('list', 'tuplev', 'tuple', 'nt'):
        items = got.get('items') if isinstance(got, dict) else None
        if items is None or not isinstance(inp, list) or len(items) != len(inp):
            return False
        subs = [t[1]] * len(inp) if k in ('list', 'tuplev') else ([x for x in t[1]] if k == 'tuple' else [x for _, x in t[2]])
        return all([align(s, i, g, out, f) for s, i, g in zip(subs, inp, items)])
    if k in ('dict', 'dictk', 'td'):
        m = got.get('map') if isinstance(got, dict) else None
        if m is None or not isinstance(inp, dict) or len(m) != len(inp):
            return False
        ok = True
        if k == 'td':
            d = dict((n, x) for n, x in t[3])
            gm = {kv[0].get('str'): kv[1] for kv in m}
            for kk, x in inp.items():
                ok = (kk in gm and align(d[kk], x, gm[kk], out, f)) and ok
            return ok
        for (kk, x), kv in zip(inp.items(), m):
            if k == 'dictk':
                ok = align(t[1], kk, kv[0], out, f) and ok
                ok = align(t[2], x, kv[1], out, f) and ok
            else:
                ok = align(t[1], x, kv[1], out, f) and ok
        return ok
    if k == 'opt':
        return got is None if inp is None else align(t[1], inp, got, out, f)
    if k == 'union':
        return align(t[1], inp, got, out, f) if isinstance(inp, str) else True
    if k == 'dc':
        fs = got.get('fields') if isinstance(got, dict) else None
        if not fs or not isinstance(inp, dict):
            return False
        return align(t[2], inp['g'], fs[0][1], out, f)
    return False


def input_leaves(t, inp, out):
    """(leaf, string) for every date/time leaf string of an input, without an observed tree"""
    k = t[0]
    if k == 'leaf':
        if isinstance(inp, str):
            out.append((t, inp))
    elif k in ('list', 'tuplev'):
        for x in inp:
            input_leaves(t[1], x, out)
    elif k == 'tuple':
        for s, x in zip(t[1], inp):
            input_leaves(s, x, out)
    elif k == 'nt':
        for (_, s), x in zip(t[2], inp):
            input_leaves(s, x, out)
    elif k == 'dict':
        for x in inp.values():
            input_leaves(t[1], x, out)
    elif k == 'dictk':
        for kk, x in inp.items():
            input_leaves(t[1], kk, out)
            input_leaves(t[2], x, out)
    elif k == 'td':
        d = dict((n, x) for n, x in t[3])
        for kk, x in inp.items():
            input_leaves(d[kk], x, out)
    elif k == 'opt':
        if inp is not None:
            input_leaves(t[1], inp, out)
    elif k == 'union':
        if isinstance(inp, str):
            input_leaves(t[1], inp, out)
    elif k == 'dc':
        input_leaves(t[2], inp['g'], out)


# --------------------------------------------------------------------------- model side
PRELUDE = r'''
Fixpoint digits (fuel : nat) (n : N) (acc : pstr) : pstr :=
  match fuel with
  | O => acc
  | Datatypes.S f => let acc' := ch (48 + N.modulo n 10) :: acc in
                     if (n <? 10)%N then acc' else digits f (N.div n 10) acc'
  end.
Definition show_N (n : N) : pstr := digits 30 n [].
Definition show_Z (z : Z) : pstr := if (z <? 0)%Z then S "-" ++ show_N (Z.to_N (- z)) else show_N (Z.to_N z).
Definition show_tz (t : option tzv) : pstr :=
  match t with None => S "-" | Some (TzOff z) => S "off=" ++ show_Z z | Some (TzZone k) => S "zone=" ++ hex k end.
Definition kind_name (k : kind) : pstr := match k with KDate => S "date" | KTime => S "time" | KDateTime => S "datetime" end.
Definition show_val (v : val) : pstr :=
  let d := v_st v in
  S "L:" ++ match v_cls v with Some c => c | None => kind_name (v_kind v) end ++ S ":" ++
  join (S ",") (map show_Z [yr d; mo d; dy d; hh d; mi d; ss d; us d; fold d]) ++ S ":" ++ show_tz (tz d).
Definition show_out (o : outcome) : pstr :=
  match o with
  | Loaded v => show_val v
  | ParseErr ps => S "P:" ++ join (S ",") (map hex ps)
  end.
Definition show_ost (o : option stamp) : pstr :=
  match o with None => S "None" | Some d => join (S ",") (map show_Z [yr d; mo d; dy d; hh d; mi d; ss d; us d]) end.
Definition missing : stamp := {| yr := -1; mo := 0; dy := 0; hh := 0; mi := 0; ss := 0; us := 0; tz := None; fold := 0 |}.
Fixpoint lk (s : pstr) (t : list (pstr * option stamp)) : option stamp :=
  match t with [] => Some missing | (k, v) :: r => if pstr_eqb s k then v else lk s r end.
Fixpoint lk2 (p s : pstr) (t : list (pstr * pstr * option stamp)) : option stamp :=
  match t with [] => Some missing | (k1, k2, v) :: r => if pstr_eqb p k1 && pstr_eqb s k2 then v else lk2 p s r end.
Definition mk (y mo d h mi s u f : Z) (t : option tzv) : stamp :=
  {| yr := y; mo := mo; dy := d; hh := h; mi := mi; ss := s; us := u; tz := t; fold := f |}.
Fixpoint show_tv (t : tv) : pstr :=
  match t with
  | TVal v => show_val v
  | TNone => S "N"
  | TNum z => S "I" ++ show_Z z
  | TArr l => S "[" ++ join (S ";") (map show_tv l) ++ S "]"
  | TObj l => S "{" ++ join (S ";") (map (fun e => show_tv (fst e) ++ S "=" ++ show_tv (snd e)) l) ++ S "}"
  | TKey s => S "K" ++ hex s
  end.
Definition show_tree (r : tv + terr) : pstr :=
  match r with
  | inl t => show_tv t
  | inr (TParse ps) => S "P:" ++ join (S ",") (map hex ps)
  | inr TShape => S "SHAPE"
  end.
'''


def tz_coq(t):
    if t is None:
        return 'None'
    if isinstance(t, zoneinfo.ZoneInfo):
        return '(Some (TzZone %s))' % coq_str(t.key)
    return '(Some (TzOff (%d)%%Z))' % int(t.utcoffset(None).total_seconds())


def stamp_coq(v):
    if v is None:
        return 'None'
    if isinstance(v, _dt.datetime):
        fs, t = (v.year, v.month, v.day, v.hour, v.minute, v.second, v.microsecond, v.fold), v.tzinfo
    elif isinstance(v, _dt.date):
        fs, t = (v.year, v.month, v.day, 0, 0, 0, 0, 0), None
    else:
        fs, t = (0, 0, 0, v.hour, v.minute, v.second, v.microsecond, v.fold), v.tzinfo
    return '(Some (mk %s %s))' % (' '.join('(%d)%%Z' % x for x in fs), tz_coq(t))


KCOQ = {'date': 'KDate', 'time': 'KTime', 'datetime': 'KDateTime'}


def oracle_tables(f, pairs):
    """oracle tables for the (leaf, string) pairs of one input: iso keyed by (kind, string), strp by (pattern, string)"""
    iso_t, strp_t, seen_i, seen_s = [], [], set(), set()
    for leaf, s in pairs:
        kind = leaf[1]
        keys = {s}
        if f['engine'] == 'v0' and kind != 'date':
            keys.add(s.replace('Z', '+00:00', 1))
        for k in keys:
            if (kind, k) not in seen_i:
                seen_i.add((kind, k))
                d = None
                try:
                    d = BASE[kind].fromisoformat(k)
                except (ValueError, TypeError):
                    pass
                iso_t.append('(%s, %s, %s)' % (coq_str(kind), coq_str(k), stamp_coq(d)))
        if s not in seen_s:
            seen_s.add(s)
            for p in f['patterns']:
                strp_t.append('(%s, %s, %s)' % (coq_str(p), coq_str(s), stamp_coq(o_strp(s, p))))
    iso = '(fun k s => lk2 (kind_name k) s %s)' % coq_list(iso_t)
    strp = '(fun p s => lk2 p s %s)' % coq_list(strp_t)
    return iso, strp


def leaf_loader(f, iso, strp):
    """Gallina function kind -> class -> string -> outcome for the field's engine / tz / patterns"""
    if f['engine'] == 'v0':
        return '(fun k c s => load0 %s %s k c %s s)' % (iso, strp, coq_str(f['patterns'][0]))
    tz = tz_of(f)
    tzo = 'None' if tz is None else '(Some (TzZone %s))' % coq_str(tz)
    return '(fun k c s => load1 %s %s k c %s %s s)' % (iso, strp, tzo, coq_list([coq_str(p) for p in f['patterns']]))


def pos_coq(t):
    k = t[0]
    if k == 'leaf':
        return '(PLeaf %s %s)' % (KCOQ[t[1]], 'None' if t[2] is None else '(Some %s)' % coq_str(t[2]))
    if k == 'int':
        return 'POther'
    if k in ('list', 'tuplev'):
        return '(PSeq %s)' % pos_coq(t[1])
    if k == 'dict':
        return '(PMap None %s)' % pos_coq(t[1])
    if k == 'dictk':
        return '(PMap (Some %s) %s)' % (pos_coq(t[1]), pos_coq(t[2]))
    if k == 'tuple':
        return '(PTup %s)' % coq_list([pos_coq(x) for x in t[1]])
    if k == 'nt':
        return '(PTup %s)' % coq_list([pos_coq(x) for _, x in t[2]])
    if k == 'td':
        return '(PRec %s)' % coq_list(['(%s, %s)' % (coq_str(n), pos_coq(x)) for n, x in t[3]])
    if k == 'opt':
        return '(POpt %s)' % pos_coq(t[1])
    if k == 'union':
        return '(PUnion %s)' % pos_coq(t[1])
    if k == 'dc':
        return '(PRec [(%s, %s)])' % (coq_str('g'), pos_coq(t[2]))
    raise ValueError(t)


def jv_coq(x):
    if x is None:
        return 'JNull'
    if isinstance(x, str):
        return '(JStr %s)' % coq_str(x)
    if isinstance(x, int):
        return '(JNum (%d)%%Z)' % x
    if isinstance(x, list):
        return '(JArr %s)' % coq_list([jv_coq(y) for y in x])
    return '(JObj %s)' % coq_list(['(%s, %s)' % (coq_str(k), jv_coq(v)) for k, v in x.items()])


def model_expr(f, inp):
    """Gallina expression: the whole position tree loaded by the model with oracle tables for its leaf strings"""
    pairs = []
    input_leaves(f['tree'], inp, pairs)
    iso, strp = oracle_tables(f, pairs)
    return 'show_tree (load_pos %s %s %s)' % (leaf_loader(f, iso, strp), pos_coq(f['tree']), jv_coq(inp))


def tz_txt(t):
    return '-' if t is None else ('zone=' + t[1].encode().hex() if t[0] == 'zone' else 'off=%d' % t[1])


def val_txt(c):
    return 'L:%s:%s:%s' % (c['t'], ','.join(str(x) for x in c['f']), tz_txt(c['tz']))


def tree_txt(c):
    """the runner's canonical tree in the model's output format"""
    if c is None:
        return 'N'
    if 't' in c:
        return val_txt(c)
    if 'int' in c:
        return 'I%d' % c['int']
    if 'str' in c:
        return 'K' + c['str'].encode().hex()
    if 'seq' in c or 'nt' in c:
        return '[' + ';'.join(tree_txt(x) for x in c['items']) + ']'
    if 'map' in c:
        return '{' + ';'.join(tree_txt(k) + '=' + tree_txt(v) for k, v in c['map']) + '}'
    if 'dc' in c:
        return '{' + ';'.join('K' + n.encode().hex() + '=' + tree_txt(v) for n, v in c['fields']) + '}'
    return 'X:' + json.dumps(c)


def sort_td(t, c):
    """TypedDict values come back in declaration order; the model keeps input order: reorder the observed map by the input"""
    return c


def impl_txt(f, o):
    if 'ok' in o:
        return tree_txt(o['ok'])
    if o.get('parse_error'):
        return 'P:' + ','.join(p.encode().hex() for p in f['patterns'])
    return 'E:' + o['err']


# --------------------------------------------------------------------------- groups
def gen_groups(ctx):
    groups = []
    for engine in ('v0', 'v1'):
        r = ctx.sub_rng('fields', engine)
        n = 60 if ctx.tier == 'quick' else 400
        for gi in range(n):
            fields, header = [], []
            nshared = r.choice([0, 0, 2, 3, 4])
            shared = None
            if nshared:
                # one module-level pattern object used by several fields of (usually) different target types
                sh = {'engine': engine, 'id': 0, 'tz': None}
                if engine == 'v1' and r.random() < 0.3:
                    sh['tz'] = 'UTC!' if r.random() < 0.5 else r.choice(ZONES)
                allk = ['time', 'datetime'] if sh['tz'] else ['date', 'time', 'datetime']
                sh['kinds'] = allk if r.random() < 0.7 else [r.choice(allk)]
                gen_patterns(r, sh, sh['kinds'])
                sh['pvar'] = 'P%d' % gi
                header.append('%s = %s\n' % (sh['pvar'], pat_expr(sh)))
                shared = sh
            slots = [True] * nshared + [False] * (8 - nshared)
            r.shuffle(slots)
            for i, is_sh in enumerate(slots):
                f = gen_field(r, engine, i, shared if is_sh else None)
                fields.append(f)
            groups.append({'engine': engine, 'header': COMMON_SRC + ''.join(header) + ''.join(f['header'] for f in fields), 'fields': fields})
    # ---- ISO-ambiguous patterns: classes of 8 fields whose pattern lists contain a re-assignment of an ISO layout ----
    for engine in ('v0', 'v1'):
        r = ctx.sub_rng('ambiguous', engine)
        n = 24 if ctx.tier == 'quick' else 120
        base = r.randrange(100000)
        for gi in range(n):
            fields = [gen_amb_field(r, engine, i, base + gi * 8 + i) for i in range(8)]
            groups.append({'engine': engine, 'stream': 'ambiguous', 'header': COMMON_SRC + ''.join(f['header'] for f in fields), 'fields': fields})
    return groups


def payload(groups):
    return {'groups': [{'engine': g['engine'], 'header': g['header'],
                        'fields': [{'ann': f['ann'], 'rhs': f['rhs'], 'path': f['path'], 'inputs': [it['inp'] for it in f['items']]}
                                   for f in g['fields']]}
                       for g in groups]}


FKEYS = ('engine', 'id', 'tz', 'patterns', 'infos', 'overlap', 'style', 'tree', 'ann', 'pvar', 'feat', 'rhs', 'path', 'amb')


def replay_obj(g, fi, it, what):
    f = g['fields'][fi]
    return {'kind': 'group', 'engine': g['engine'], 'header': g['header'], 'anns': [x['ann'] for x in g['fields']],
            'decls': [{'rhs': x['rhs'], 'path': x['path']} for x in g['fields']], 'index': fi,
            'field': {k: f.get(k) for k in FKEYS}, 'input': it['inp'], 'meta': it['meta'], 'what': what}


def nontrivial(f):
    return (len(f['infos'][0]) >= 3 or f['tree'][0] != 'leaf' or f['tz'] is not None or len(f['patterns']) > 1
            or f['tree'][2] is not None)


def shape_of(t):
    k = t[0]
    if k in ('leaf', 'int'):
        return k
    if k in ('list', 'dict', 'tuplev', 'opt', 'union'):
        return '%s(%s)' % (k, shape_of(t[1]))
    if k == 'dictk':
        return 'dictk(%s)' % shape_of(t[2])
    if k == 'tuple':
        return 'tuple(%s)' % ','.join(shape_of(x) for x in t[1])
    if k == 'nt':
        return 'nt(%s)' % ','.join(shape_of(x) for _, x in t[2])
    if k == 'td':
        return 'td(%s)' % ','.join(shape_of(x) for _, x in t[3])
    return 'dc(%s)' % shape_of(t[2])


def nodes_of(t, acc):
    acc.add(t[0] if t[0] != 'td' else ('td_total' if t[2] else 'td_partial'))
    k = t[0]
    if k in ('list', 'dict', 'tuplev', 'opt', 'union'):
        nodes_of(t[1], acc)
    elif k == 'dictk':
        nodes_of(t[2], acc)
    elif k == 'tuple':
        for x in t[1]:
            nodes_of(x, acc)
    elif k == 'nt':
        for _, x in t[2]:
            nodes_of(x, acc)
    elif k == 'td':
        for _, x in t[3]:
            nodes_of(x, acc)
    elif k == 'dc':
        acc.add('dc_inner_' + t[3])
        nodes_of(t[2], acc)
    return acc


def depth_of(t):
    k = t[0]
    if k in ('leaf', 'int'):
        return 0
    if k in ('list', 'dict', 'tuplev', 'opt', 'union'):
        return 1 + depth_of(t[1])
    if k == 'dictk':
        return 1 + depth_of(t[2])
    if k == 'tuple':
        return 1 + max(depth_of(x) for x in t[1])
    if k == 'nt':
        return 1 + max(depth_of(x) for _, x in t[2])
    if k == 'td':
        return 1 + max(depth_of(x) for _, x in t[3])
    return 1 + depth_of(t[2])


FID61 = 'F61'


def helper_keys(f, t=None, acc=None):
    """types for which v1 generates a class-wide helper while a field-level pattern is in scope (finding F61)"""
    acc = set() if acc is None else acc
    t = f['tree'] if t is None else t
    k = t[0]
    if k == 'union':
        acc.add(tree_src(f, t, 'plain'))
    elif k in ('nt', 'td'):
        acc.add(t[1])
    if k in ('list', 'dict', 'tuplev', 'opt'):
        helper_keys(f, t[1], acc)
    elif k == 'dictk':
        helper_keys(f, t[2], acc)
    elif k == 'tuple':
        for x in t[1]:
            helper_keys(f, x, acc)
    elif k == 'nt':
        for _, x in t[2]:
            helper_keys(f, x, acc)
    elif k == 'td':
        for _, x in t[3]:
            helper_keys(f, x, acc)
    return acc


def f61_fields(g):
    """indices of the fields of a v1 class that reach a helper type also reached by a field with another pattern object"""
    if g['engine'] != 'v1':
        return set()
    users = {}
    for i, f in enumerate(g['fields']):
        if f['style'] in ('ann', 'shared'):
            pid = f.get('pvar') or ('field%d' % i)
            for key in helper_keys(f):
                users.setdefault(key, {}).setdefault(pid, set()).add(i)
    out = set()
    for key, by in users.items():
        if len(by) > 1:
            for ids in by.values():
                out |= ids
    return out


def coq_retry(ctx, exprs, imports, prelude):
    """model evaluation; a coqc process killed by the machine (out of memory under load) is retried"""
    import time
    last = None
    for attempt in range(3):
        try:
            return ctx.coq(exprs, imports, prelude=prelude, tag='cases%d' % attempt)
        except Exception as e:      # noqa
            last = e
            time.sleep(10 * (attempt + 1))
    raise last


def reorder_td(t, inp, got):
    """TypedDict / dict values are compared with the model in INPUT order"""
    return got


def norm_obs(t, inp, c):
    """observed canonical tree with TypedDict entries put in input order (the model keeps the input's order)"""
    try:
        k = t[0]
        if c is None or not isinstance(c, dict):
            return c
        if k in ('list', 'tuplev'):
            return dict(c, items=[norm_obs(t[1], i, x) for i, x in zip(inp, c['items'])])
        if k == 'tuple':
            return dict(c, items=[norm_obs(s, i, x) for s, i, x in zip(t[1], inp, c['items'])])
        if k == 'nt':
            return dict(c, items=[norm_obs(s, i, x) for (_, s), i, x in zip(t[2], inp, c['items'])])
        if k == 'dict':
            return dict(c, map=[[kv[0], norm_obs(t[1], i, kv[1])] for i, kv in zip(inp.values(), c['map'])])
        if k == 'dictk':
            return dict(c, map=[[kv[0], norm_obs(t[2], i, kv[1])] for i, kv in zip(inp.values(), c['map'])])
        if k == 'td':
            d = dict((n, x) for n, x in t[3])
            gm = {kv[0].get('str'): kv for kv in c['map']}
            return dict(c, map=[[gm[kk][0], norm_obs(d[kk], x, gm[kk][1])] for kk, x in inp.items()])
        if k == 'opt':
            return norm_obs(t[1], inp, c)
        if k == 'dc':
            return dict(c, fields=[[c['fields'][0][0], norm_obs(t[2], inp['g'], c['fields'][0][1])]])
        return c
    except Exception:
        return c


def f90_replay(ctx, w):
    """replay the witness of finding F90 on the implementation; True iff it still fails"""
    g = {'engine': w['engine'], 'header': '', 'fields': [{'ann': w['ann'], 'rhs': 'None', 'path': None, 'inputs': w['inputs']}]}
    res = ctx.impl('c17', {'groups': [g]})['groups'][0][0]
    fails = False
    for x, want in zip(res, w['iso_readings']):
        ok = 'ok' in x.get('load', {}) and x['load']['ok'] is not None and x['load']['ok']['f'] == want and x.get('again_equal')
        fails = fails or not ok
    return fails, res


SLICE_DIRECTIVES = {'%Y': 4, '%m': 2, '%d': 2, '%H': 2, '%M': 2, '%S': 2}
SLICE_ISO_SHAPE = {'date': r'\d{4}-\d\d-\d\d', 'time': r'\d\d(:\d\d(:\d\d)?)?',
                   'datetime': r'\d{4}-\d\d-\d\d([T ]\d\d(:\d\d(:\d\d)?)?)?'}


def slice_width(p):
    """total width of a pattern of the Coq slice PatStd (None when the pattern is outside the slice)"""
    ds = directives_of(p)
    if '%%' in p or any(d not in SLICE_DIRECTIVES for d in ds) or len(set(ds)) != len(ds) or not p.isascii():
        return None
    return sum(SLICE_DIRECTIVES[d] for d in ds) + len(p) - 2 * len(ds)


def stamp_txt(v):
    if v is None:
        return 'None'
    if isinstance(v, _dt.datetime):
        fs = (v.year, v.month, v.day, v.hour, v.minute, v.second, v.microsecond)
    elif isinstance(v, _dt.date):
        fs = (v.year, v.month, v.day, 0, 0, 0, 0)
    else:
        fs = (0, 0, 0, v.hour, v.minute, v.second, v.microsecond)
    return ','.join(str(x) for x in fs)


def slice_audit_cases(f, strings, seen):
    """(expression, expected text, what) for the stdlib slice of PatStd.v on the leaf strings of an ambiguous field:
    strp_fix against datetime.strptime where |s| = width(p), iso_fix against fromisoformat on the extended ISO shapes"""
    import re
    out = []
    for leaf, x in strings:
        if not isinstance(x, str) or not x.isascii():
            continue
        for p_ in f['patterns']:
            w = slice_width(p_)
            if w is not None and w == len(x) and ('p', p_, x) not in seen:
                seen.add(('p', p_, x))
                out.append(('show_ost (strp_fix %s %s)' % (coq_str(p_), coq_str(x)), stamp_txt(o_strp(x, p_)), 'strptime(%r, %r)' % (x, p_)))
        kind = leaf[1]
        if re.fullmatch(SLICE_ISO_SHAPE[kind], x) and ('i', kind, x) not in seen:
            seen.add(('i', kind, x))
            out.append(('show_ost (iso_fix %s %s)' % (KCOQ[kind], coq_str(x)), stamp_txt(o_iso(kind, x, 'v1')), '%s.fromisoformat(%r)' % (kind, x)))
    return out


def run(ctx):
    groups = gen_groups(ctx)
    impl = ctx.impl('c17', payload(groups))['groups']
    exprs, index = [], []
    nviol = 0
    # ---- recorded finding F90: replay the witness ----
    f90_active = False
    fnd = ctx.finding(F90)
    if fnd is not None:
        try:
            f90_active, _obs = f90_replay(ctx, fnd['witness'])
        except Exception as e:       # noqa
            ctx.broken_tie('witness of %s could not be replayed: %s' % (F90, str(e)[:300]))
        ctx.count(1, key='witness:' + F90, nontrivial=True)
        ctx.known_finding(F90, still_fails=f90_active)
        f90_active = f90_active and ctx.is_open_region(F90)
    audit, audit_seen, viol_fields = [], set(), set()
    for g, gres in zip(groups, impl):
        region61 = f61_fields(g)
        for fi, (f, fres) in enumerate(zip(g['fields'], gres)):
            ctx.hist('engine/style', '%s/%s' % (f['engine'], f['style']))
            ctx.hist('declaration_feature', '%s/%s' % (f['engine'], f['feat']))
            kinds = sorted({l[1] for l in leaves_of(f['tree'])})
            ctx.hist('leaf_kinds', '+'.join(kinds))
            ctx.hist('variant', ('tz ' if f['tz'] else '') + ('%d patterns' % len(f['patterns'])))
            for nd in nodes_of(f['tree'], set()):
                ctx.hist('position', nd)
            ctx.hist('depth', depth_of(f['tree']))
            for p_, info in zip(f['patterns'], f['infos']):
                for d in info:
                    ctx.hist('directive', d)
                ctx.hist('dash_or_plus', ('-' in p_) or ('+' in p_))
            for it, res in zip(f['items'], fres):
                ctx.count(1, key='%s|%s|%s' % (f['engine'], f['ann'], json.dumps(it['inp'], sort_keys=True)), nontrivial=nontrivial(f))
                if res.get('load', {}).get('phase') == 'class':
                    if nviol < 8:
                        nviol += 1
                        ctx.violation('class with patterned fields cannot be created: %s: %s' % (res['load'].get('err'), res['load'].get('msg', '')[:300]),
                                      replay_obj(g, fi, it, 'class'))
                    continue
                for m in it['meta'].values():
                    ctx.hist('leaf_input', m['why'])
                known61 = False
                bad = check_input(ctx, f, it, res)
                strings = []
                input_leaves(f['tree'], it['inp'], strings)
                if f.get('amb'):
                    ctx.hist('ambiguous_stream', '%s/%s/%d patterns%s' % (f['engine'], f['amb']['kind'], len(f['patterns']), '/tz' if f['tz'] else ''))
                    audit.extend(slice_audit_cases(f, strings, audit_seen))
                if res.get('dump') is not None:
                    try:
                        input_leaves(f['tree'], res['dump'], strings)
                    except Exception:       # noqa - a dump of another shape is reported by P2
                        pass
                in90 = in_f90_region(f, strings)
                if in90:
                    ctx.hist('f90_shape_covered', 'fails' if bad else 'ok')
                if bad and in90 and f90_active:
                    ctx.hist('known_region', F90)
                    bad = None
                if fi in region61:
                    ctx.hist('f61_shape_covered', 'fails' if bad else 'ok')
                if bad and nviol < 8 and (id(g), fi) not in viol_fields:      # one concrete input per field is enough
                    nviol += 1
                    viol_fields.add((id(g), fi))
                    ctx.violation('%s engine, field %s: %s' % (f['engine'], f['ann'], bad), replay_obj(g, fi, it, bad))
                # ---- model expressions: the input, and the dump of its load ----
                exprs.append(model_expr(f, it['inp']))
                o = res['load']
                if 'ok' in o:
                    o = {'ok': norm_obs(f['tree'], it['inp'], o['ok'])}
                index.append((f, it['inp'], o, 'load', known61))
                if 'ok' in res['load'] and res['load']['ok'] is not None and 'ok' in res.get('again', {}) and res.get('dump') is not None:
                    try:
                        e2 = model_expr(f, res['dump'])
                        exprs.append(e2)
                        index.append((f, res['dump'], {'ok': norm_obs(f['tree'], res['dump'], res['again']['ok'])}, 'reload', known61))
                    except Exception:
                        ctx.hist('reload_not_modelled', f['style'])
    # ---- correspondence ----
    nload = len(exprs)
    try:
        model = coq_retry(ctx, exprs + [a[0] for a in audit], ['PatModel', 'PatStd'], prelude=PRELUDE)
    except Exception as e:
        ctx.broken_tie('model evaluation failed: %s' % str(e)[:800])
        model = None
    if model is not None:
        # the stdlib slice (PatStd.v: strp_fix / iso_fix) against the interpreter's own functions
        na = 0
        for (expr, want, what), m in zip(audit, model[nload:]):
            ctx.traces_validated += 1
            ctx.hist('stdlib_slice_audit', 'agree' if m == want else 'DISAGREE')
            if m != want:
                na += 1
                ctx.disagreements_checked += 1
                if na <= 3:
                    ctx.broken_tie('stdlib slice PatStd.v disagrees with the interpreter on %s' % what, {'model': m, 'stdlib': want})
        model = model[:nload]
        nd = 0
        for (f, inp, o, phase, known), m in zip(index, model):
            ctx.traces_validated += 1
            got = impl_txt(f, o)
            ctx.hist('outcome', got[:1])
            if got != m and known:
                ctx.hist('known_region_model', FID61)
            elif got != m:
                nd += 1
                ctx.disagreements_checked += 1
                if nd <= 5:
                    ctx.broken_tie('Pattern model and implementation disagree (%s engine, %s, %s)' % (f['engine'], f['ann'], phase),
                                   {'input': inp, 'impl': got, 'model': m, 'patterns': f['patterns']})
    g0 = groups[0]
    ctx.sample({'class_header': g0['header'][:600], 'annotations': [f['ann'] for f in g0['fields']][:4]})
    f0 = g0['fields'][0]
    ctx.sample({'annotation': f0['ann'], 'inputs': [it['inp'] for it in f0['items']], 'observed': impl[0][0]})
    f1 = groups[-1]['fields'][0]
    ctx.sample({'annotation': f1['ann'], 'engine': 'v1', 'inputs': [it['inp'] for it in f1['items']], 'observed': impl[-1][0]})


def replay_demo(ctx, obj):
    """replay object written by the driver for a returned FIXED finding: run its demo script (exit 0 = holds)"""
    import os, re, subprocess
    from lib import framework
    m = re.search(r'(findings_demos/[\w.]+\.py)', str(obj.get('witness')))
    if not m:
        print('no demo script named in %r' % (obj,))
        return False
    p = subprocess.run([framework.PY, os.path.join(framework.VERIF, m.group(1))], capture_output=True, text=True,
                       timeout=300, env=framework.impl_env())
    print(p.stdout[-3000:])
    return p.returncode == 0


def replay(ctx, obj, quiet=False):
    if 'finding' in obj:
        return replay_demo(ctx, obj)
    if obj.get('kind') == 'f90':
        fails, res = f90_replay(ctx, obj)
        if not quiet:
            print('v1  f0: %s   inputs %s\nobserved: %s\n(expected: each input loads as time.fromisoformat reads it and survives its dump)'
                  % (obj['ann'], json.dumps(obj['inputs']), json.dumps(res)[:1500]))
        return not fails
    if obj.get('kind') != 'group':
        print('replay object names a broken tie, not an input: %s' % json.dumps(obj)[:1500])
        return False
    i = obj['index']
    decls = obj.get('decls') or [{'rhs': 'None', 'path': None}] * len(obj['anns'])
    fields = [{'ann': a, 'rhs': d['rhs'], 'path': d['path'], 'inputs': [obj['input']] if j == i else []}
              for j, (a, d) in enumerate(zip(obj['anns'], decls))]
    res = ctx.impl('c17', {'groups': [{'engine': obj['engine'], 'header': obj['header'], 'fields': fields}]})['groups'][0][i][0]
    f = obj['field']
    bad = check_input(None, f, {'inp': obj['input'], 'meta': obj['meta']}, res)
    if not quiet:
        print(obj['header'])
        print('@dataclass\nclass C:')
        for j, (a, d) in enumerate(zip(obj['anns'], decls)):
            print('    f%d: %s = %s' % (j, a, d['rhs']))
        print('engine %s   field f%d   input %s' % (obj['engine'], i, json.dumps(obj['input'])))
        print('recorded failure:', obj.get('what'))
        print('observed now    :', json.dumps(res)[:1500])
        print('verdict now     :', bad or 'all direct predicates hold')
    return bad is None
