"""C17 — patterned dates/times parse their pattern, accept ISO and survive their dump.

Theorems: coq/props/C17.v (model coq/model/PatModel.v: decision trees of the default
engine's generated `pattern_to_dt` and of v1's `load_to_pattern`, with fromisoformat /
strptime as parameters).  Harness: patterns from a grammar of strptime directives that
determine the target's fields (incl. %z, %I/%p, %y, %j, %b/%B, literal text, '-', '+',
'Z', '%%'), values over 1900-2100 incl. subclasses, DatePattern / TimePattern /
DateTimePattern / Pattern (default engine) and the v1 naive / Aware / UTC variants with one
or several patterns, alone and inside List / Dict annotations.
Direct predicates on the implementation, for every generated case:
  P1 load(v.strftime(p)) == truncate_p(v) (+tz), as the annotated class (ISO reading allowed
     only if the string is also valid ISO),     P2 load(dump(load(s))) == load(s),
  P3 load(v.isoformat()) == v,                  P4 junk -> ParseError naming the patterns,
  P6 several patterns -> first matching in listed order,   P7 element-wise in containers.
Correspondence: model vs implementation on the decision outcomes, the answers of the real
strptime / fromisoformat being passed to the model as oracle tables.
"""
import datetime as _dt, json, zoneinfo
from lib.coqrun import coq_str, coq_list

META = {
    'id': 'C17',
    'title': 'Patterned dates/times parse their pattern, accept ISO and survive their dump',
    'level': 'proof',
    'technique': 'Coq proof (case analysis on the two generated decision trees, induction on the pattern list / container) on a '
                 'hand-written Gallina model with fromisoformat/strptime as parameters + differential correspondence with oracle '
                 'tables + direct predicates on generated patterns and values',
    'design_ref': 'DESIGN.md section 4 C17',
    'theorems': ['C17_pattern', 'C17_pattern_dash_time', 'C17_pattern_v1', 'C17_first_match_v1', 'C17_tz_attached',
                 'C17_iso_precedence', 'C17_iso_precedence_v1', 'C17_iso', 'C17_iso_v1', 'C17_dump_load', 'C17_dump_load_v1',
                 'C17_reject_v1', 'C17_reject', 'C17_elementwise', 'C17_elementwise_error'],
    'tables': [],
    'level_text': ('Theorems proved in Coq for ALL patterns, strings, values, classes and time zones about an executable model of the '
                   'two generated decision trees (default engine and v1): order of the ISO / strptime attempts, first matching '
                   'pattern, tz attachment, class, rejection, dump/load, element-wise containers. strptime / strftime / '
                   'fromisoformat are parameters whose laws are premises; the model is re-validated against the implementation '
                   'on every run with the real functions\' answers, and the property is tested directly.'),
    'level_note': ('Trusted: Coq kernel; the hand-written model; the oracle premises (strptime inverts strftime at the pattern\'s '
                   'precision, fromisoformat inverts isoformat) audited by sampling on every run; the harness.'),
    'rule': ('per engine: classes of 8 patterned fields; per field 1 value formatted with the (each) pattern, its ISO form, the ISO '
             'form of an unrelated value, 2 junk strings, and for containers a mixed list/dict. Non-trivial = pattern with >= 3 '
             'directives or a subclass / tz variant / container / several patterns; distinct = distinct (engine, annotation, input).'),
    'trusted_base': ['model coq/model/PatModel.v: decision trees only; stdlib parsing/formatting are oracle parameters',
                     'oracle tables computed with the interpreter\'s own datetime.strptime / fromisoformat'],
    'assumptions': ['inputs are str (numbers / date objects take the timestamp path, outside the property)',
                    'years 1900-2100 (1969-2068 with %y); C locale for %b %B %p',
                    'each Pattern object annotates one field (a shared instance is mutated with the field type: modelled-not-verified)'],
}

ZONES = ['Europe/London', 'Asia/Tokyo', 'America/New_York', 'UTC', 'Australia/Adelaide']
OFFSETS = [0, 19800, -28800, 3600, 34200, -12600]
BASE = {'date': _dt.date, 'time': _dt.time, 'datetime': _dt.datetime}
SUB = {'date': 'MyDate', 'time': 'MyTime', 'datetime': 'MyDT'}


# --------------------------------------------------------------------------- pattern grammar
FIXED2 = {'%m', '%d', '%H', '%M', '%S', '%y', '%I', '%Y'}
SEPS = ['/', '.', ' ', ':', ',', '-', '-', '+', 'T', '_', ' at ', ' on ', '(', ')', '%%', '|', '~', 'h', 'Z', ' - ']


def gen_pattern(r, kind, want_tz=False, force_dash=None):
    """returns (pattern, info) - info = set of directives present"""
    parts = []
    info = set()

    def date_parts():
        y = r.choice(['%Y', '%Y', '%y'])
        if r.random() < 0.15:
            ps = [y, '%j']
        else:
            ps = [y, r.choice(['%m', '%m', '%b', '%B']), '%d']
        r.shuffle(ps)
        return ps

    def time_parts():
        ps = ['%H'] if r.random() < 0.65 else ['%I', '%p']
        ps.append('%M')
        if r.random() < 0.6:
            ps.append('%S')
            if r.random() < 0.35:
                ps.append('%f')
        if r.random() < 0.3:
            r.shuffle(ps)
            if '%f' in ps:      # keep the fraction right after something non-numeric-greedy: put it last
                ps.remove('%f'); ps.append('%f')
        return ps
    if kind == 'date':
        parts = date_parts()
        if r.random() < 0.15:
            parts += time_parts()
    elif kind == 'time':
        parts = time_parts()
        if r.random() < 0.12:
            parts = date_parts() + parts
    else:
        a, b = date_parts(), time_parts()
        parts = a + b if r.random() < 0.8 else b + a
    if want_tz:
        parts.append('%z')
    info = set(parts)
    seps = list(SEPS)
    if force_dash is True:
        seps = ['-', '+', ' - ', '-', '+']
    elif force_dash is False:
        seps = [s for s in SEPS if '-' not in s and '+' not in s]
    out = r.choice(['', '', '', 'on ', '[', 'day '])
    if force_dash is False:
        out = out.replace('-', '')
    for i, d in enumerate(parts):
        out += d
        if i + 1 < len(parts):
            nxt = parts[i + 1]
            s = r.choice(seps)
            if r.random() < 0.18 and d in FIXED2 and nxt in FIXED2 and d != '%Y' or (r.random() < 0.1 and d == '%Y' and nxt in FIXED2):
                s = '' if force_dash is not True else '-'
            if d == '%z' and (s == '' or s[0] in ':.0123456789'):
                s = ' '
            if nxt == '%f' and d == '%S':
                s = r.choice(['.', ',', '']) if force_dash is not True else '-'
            if d in ('%b', '%B', '%p') and s[:1].isalpha():
                s = ' ' + s
            if nxt in ('%b', '%B', '%p') and s[-1:].isalpha():
                s = s + ' '
            out += s
    out += r.choice(['', '', '', ']', ' h', '.'])
    if force_dash is True and '-' not in out and '+' not in out:
        out += '-'
    return out, info


def swap_variant(p):
    for a, b in (('%d', '%m'), ('%M', '%S'), ('%H', '%M')):
        if a in p and b in p:
            return p.replace(a, '\0').replace(b, a).replace('\0', b)
    return None


def gen_value(r, info, with_tz):
    y = r.randint(1969, 2068) if '%y' in info else r.randint(1900, 2100)
    m = r.randint(1, 12)
    d = r.randint(1, [31, 29 if (y % 4 == 0 and (y % 100 != 0 or y % 400 == 0)) else 28, 31, 30, 31, 30, 31, 31, 30, 31, 30, 31][m - 1])
    h, mi, s = r.randint(0, 23), r.randint(0, 59), r.randint(0, 59)
    us = r.choice([0, 0, r.randint(0, 999999), r.choice([1, 10, 450000, 999999])])
    tz = _dt.timezone(_dt.timedelta(seconds=r.choice(OFFSETS))) if with_tz else None
    return _dt.datetime(y, m, d, h, mi, s, us, tzinfo=tz)


def truncate(v, info):
    """independent reference: the value at the pattern's precision (components the pattern does not
    determine take strptime's documented defaults 1900-01-01 00:00:00, no tz)"""
    has_date = '%j' in info or '%d' in info
    return _dt.datetime(v.year if ('%Y' in info or '%y' in info) else 1900,
                        v.month if has_date else 1, v.day if has_date else 1,
                        v.hour if ('%H' in info or '%I' in info) else 0, v.minute if '%M' in info else 0,
                        v.second if '%S' in info else 0, v.microsecond if '%f' in info else 0,
                        tzinfo=v.tzinfo if '%z' in info else None)


def to_target(full, kind, tzname):
    """property text: date / time / datetime at the annotation's kind; declared tz attached for Aware / UTC"""
    tz = zoneinfo.ZoneInfo(tzname) if tzname else None
    if kind == 'date':
        return full.date()
    if kind == 'time':
        return full.time().replace(tzinfo=tz) if tz else full.time()
    return full.replace(tzinfo=tz) if tz else full


def canon_py(v, cls_name):
    """same canonical form as the runner, for a stdlib value expected to be of class cls_name"""
    if isinstance(v, _dt.datetime):
        f, t = [v.year, v.month, v.day, v.hour, v.minute, v.second, v.microsecond, v.fold], v.tzinfo
    elif isinstance(v, _dt.date):
        f, t = [v.year, v.month, v.day, 0, 0, 0, 0, 0], None
    else:
        f, t = [0, 0, 0, v.hour, v.minute, v.second, v.microsecond, v.fold], v.tzinfo
    if t is None:
        tz = None
    elif isinstance(t, zoneinfo.ZoneInfo):
        tz = ['zone', t.key]
    else:
        tz = ['off', int(t.utcoffset(None).total_seconds())]
    return {'t': cls_name, 'f': f, 'tz': tz}


def same_instant(a, b):
    """canonical forms equal, where a fixed offset and a zone are compared through Python equality upstream;
    here: identical class, fields and tz descriptor"""
    return a == b


# --------------------------------------------------------------------------- stdlib oracles
def o_strp(s, p):
    try:
        return _dt.datetime.strptime(s, p)
    except (ValueError, TypeError):
        return None
    except Exception:       # re.error etc. for odd patterns: treated as no match by the code as well
        return None


def o_iso(kind, s, engine):
    """the target class's fromisoformat, as the engine calls it"""
    if not isinstance(s, str):
        return None
    if engine == 'v0' and kind != 'date':
        s = s.replace('Z', '+00:00', 1)
    try:
        return BASE[kind].fromisoformat(s)
    except (ValueError, TypeError):
        return None


# --------------------------------------------------------------------------- case generation
def ann_src(engine, kind, cls, tzname, patterns, container):
    """annotation source text"""
    base = {'date': 'date', 'time': 'time', 'datetime': 'datetime'}[kind]
    tname = cls or base
    plist = ', '.join(repr(p) for p in patterns)
    if engine == 'v0':
        if container is None and cls is None:
            return '%sPattern[%s]' % ({'date': 'Date', 'time': 'Time', 'datetime': 'DateTime'}[kind], plist)
        inner = {'list': 'List[%s]', 'dict': 'Dict[str, %s]', None: '%s', 'opt': 'Optional[%s]'}[container] % tname
        return 'Annotated[%s, Pattern(%s)]' % (inner, plist)
    pref = '' if tzname is None else ('UTC' if tzname == 'UTC!' else 'Aware')
    tzarg = '' if pref != 'Aware' else repr(tzname) + ', '
    if container is None and cls is None:
        return '%s%sPattern[%s%s]' % (pref, {'date': 'Date', 'time': 'Time', 'datetime': 'DateTime'}[kind], tzarg, plist)
    inner = {'list': 'List[%s]', 'dict': 'Dict[str, %s]', None: '%s', 'opt': 'Optional[%s]'}[container] % tname
    return 'Annotated[%s, %sPattern[%s%s]]' % (inner, pref, tzarg, plist)


JUNK = ['zzz', 'not a date', '12/34/5678', '99:99', '2022-13-45', '25-61', 'T', '+', '--', 'Jan', '12 PM', '0', ' ']


def gen_field(r, engine):
    kind = r.choice(['date', 'time', 'datetime'])
    cls = SUB[kind] if r.random() < 0.3 else None
    tzname = None
    if engine == 'v1' and kind != 'date' and r.random() < 0.45:
        tzname = 'UTC!' if r.random() < 0.4 else r.choice(ZONES)
    container = r.choice([None, None, None, None, 'list', 'dict']) if True else None
    npat = 1 if engine == 'v0' else r.choice([1, 1, 2, 3])
    force = None
    if kind == 'time':
        force = r.choice([True, False, None])
    pats, infos = [], []
    want_tz = kind != 'date' and r.random() < 0.3
    overlap = False
    for _ in range(npat):
        for _try in range(20):
            p, info = gen_pattern(r, kind, want_tz=want_tz, force_dash=force)
            if p not in pats:
                break
        pats.append(p)
        infos.append(info)
        if len(pats) < npat and r.random() < 0.5:
            # an overlapping pattern: same text with two directives swapped, so that one string can match
            # both (exercises "first matching pattern in listed order")
            q = swap_variant(p)
            if q is not None and q not in pats:
                pats.append(q)
                infos.append(set(info))
                overlap = True
        if len(pats) >= npat:
            break
    f = {'engine': engine, 'kind': kind, 'cls': cls, 'tz': tzname, 'patterns': pats, 'infos': [sorted(i) for i in infos],
         'container': container}
    f['ann'] = ann_src(engine, kind, cls, tzname, pats, container)
    # inputs (strings), each with its purpose
    items = []
    for j, (p, info) in enumerate(zip(pats, infos)):
        v = gen_value(r, info, with_tz='%z' in info)
        if overlap:          # components small enough to be read either way
            v = v.replace(day=min(v.day, 12), minute=v.minute % 24, second=v.second % 24)
        items.append({'why': 'fmt', 'j': j, 'v': v.isoformat(), 's': v.strftime(p)})
    # ISO form of a value of the target kind (declared tz for Aware/UTC; naive or fixed offset otherwise)
    v = gen_value(r, set(), with_tz=(tzname is None and kind != 'date' and r.random() < 0.3))
    tzo = zoneinfo.ZoneInfo('UTC' if tzname == 'UTC!' else tzname) if tzname else None
    tv = v.date() if kind == 'date' else (v.timetz() if kind == 'time' else v)
    if tzo is not None:
        tv = tv.replace(tzinfo=tzo)
    items.append({'why': 'iso', 's': tv.isoformat(), 'v': tv.isoformat()})
    for _ in range(2):
        items.append({'why': 'junk', 's': r.choice(JUNK)})
    f['items'] = items
    return f


def tz_of(f):
    return None if f['tz'] is None else ('UTC' if f['tz'] == 'UTC!' else f['tz'])


def inputs_of(f):
    """what is sent to the runner for the field: scalars, or one container per scalar + one mixed container"""
    ss = [it['s'] for it in f['items']]
    if f['container'] is None:
        return ss
    good = [it['s'] for it in f['items'] if it['why'] != 'junk']
    if f['container'] == 'list':
        return [[s] for s in ss] + [good]
    return [{'k': s} for s in ss] + [{('k%d' % i): s for i, s in enumerate(good)}]


# --------------------------------------------------------------------------- expectations (direct predicates)
def cls_name(f):
    return f['cls'] or f['kind']


def pattern_reading(f, s):
    """first pattern (listed order) that parses s -> value at the target kind (+tz), else None"""
    for p in f['patterns']:
        d = o_strp(s, p)
        if d is not None:
            return to_target(d, f['kind'], tz_of(f))
    return None


def iso_reading(f, s):
    d = o_iso(f['kind'], s, f['engine'])
    if d is None:
        return None
    tz = tz_of(f)
    return d.replace(tzinfo=zoneinfo.ZoneInfo(tz)) if tz else d


def dash_time(f):
    return f['kind'] == 'time' and any('-' in p or '+' in p for p in f['patterns'])


def in_f26_region(f, s):
    return (f['engine'] == 'v0' and dash_time(f) and isinstance(s, str)
            and pattern_reading(f, s) is None and iso_reading(f, s) is None)


def check_scalar(ctx, f, it, res):
    """direct predicates for one scalar input; returns None or a description of the failure"""
    s, why = it['s'], it['why']
    pr, ir = pattern_reading(f, s), iso_reading(f, s)
    load = res['load']
    cn = cls_name(f)
    if why == 'fmt':
        info = set(f['infos'][it['j']])
        v = _dt.datetime.fromisoformat(it['v'])
        want = to_target(truncate(v, info), f['kind'], tz_of(f))
        # audit of the oracle premise strptime(strftime(v, p), p) == truncate_p(v)
        d = o_strp(s, f['patterns'][it['j']])
        if d is None or to_target(d, f['kind'], tz_of(f)) != want or \
                canon_py(to_target(d, f['kind'], tz_of(f)), cn) != canon_py(want, cn):
            ctx.hist('premise_audit', 'strptime_not_inverse')
            return None
        ctx.hist('premise_audit', 'strptime_inverse_ok')
        first = pattern_reading(f, s)          # an earlier listed pattern may also parse the string (P6)
        accept = [canon_py(first, cn)]
        if ir is not None:
            accept.append(canon_py(ir, cn))      # documented exception: the string is also valid ISO
        if 'ok' not in load:
            return 'P1: %r formatted with %r rejected: %s' % (it['v'], f['patterns'][it['j']], load.get('err'))
        if load['ok'] not in accept:
            return 'P1/P6: load(%r) = %r, expected %r%s' % (s, load['ok'], accept[0], ' (or the ISO reading %r)' % accept[1] if ir is not None else '')
    elif why == 'iso':
        tv = BASE[f['kind']].fromisoformat(it['v'])
        tz = tz_of(f)
        if tz:
            tv = tv.replace(tzinfo=zoneinfo.ZoneInfo(tz))
        if ir is None or canon_py(ir, cn) != canon_py(tv, cn):
            ctx.hist('premise_audit', 'fromisoformat_not_inverse')
            return None
        ctx.hist('premise_audit', 'fromisoformat_inverse_ok')
        accept = [canon_py(tv, cn)]
        if pr is not None and dash_time(f):
            accept.append(canon_py(pr, cn))
        if 'ok' not in load:
            return 'P3: ISO string %r rejected: %s' % (s, load.get('err'))
        if load['ok'] not in accept:
            return 'P3: load(%r) = %r, expected %r' % (s, load['ok'], accept[0])
    else:
        if pr is None and ir is None:
            if not load.get('parse_error'):
                return 'P4: junk %r not rejected with ParseError: %r' % (s, load)
            missing = [p for p in f['patterns'] if p not in load.get('msg', '') and repr(p)[1:-1] not in load.get('msg', '')]
            if missing:
                return 'P4: ParseError for %r does not name the pattern(s) %r: %s' % (s, missing, load.get('msg', '')[:200])
        else:
            accept = [canon_py(x, cn) for x in (pr, ir) if x is not None]
            if 'ok' not in load or load['ok'] not in accept:
                return 'string %r: load = %r, expected one of %r' % (s, load, accept)
    # P2: the dump loads back to an equal value
    if 'ok' in load and load['ok'] is not None:
        if 'again' not in res or 'ok' not in res['again']:
            return 'P2: dump %r of load(%r) does not load: %r' % (res.get('dump'), s, res.get('again'))
        if not res.get('again_equal'):
            return 'P2: load(dump(load(%r))) = %r differs from load = %r (dump %r)' % (s, res['again']['ok'], load['ok'], res.get('dump'))
        if not isinstance(res.get('dump'), str):
            return 'dump of a patterned field is not an ISO string: %r' % (res.get('dump'),)
    return None


# --------------------------------------------------------------------------- model side
PRELUDE = r'''
Fixpoint digits (fuel : nat) (n : N) (acc : pstr) : pstr :=
  match fuel with
  | O => acc
  | Datatypes.S f => let acc' := ch (48 + N.modulo n 10) :: acc in
                     if (n <? 10)%N then acc' else digits f (N.div n 10) acc'
  end.
Definition show_N (n : N) : pstr := digits 30 n [].
Definition show_Z (z : Z) : pstr := if (z <? 0)%Z then S "-" ++ show_N (Z.to_N (- z)) else show_N (Z.to_N z).
Definition show_tz (t : option tzv) : pstr :=
  match t with None => S "-" | Some (TzOff z) => S "off=" ++ show_Z z | Some (TzZone k) => S "zone=" ++ hex k end.
Definition kind_name (k : kind) : pstr := match k with KDate => S "date" | KTime => S "time" | KDateTime => S "datetime" end.
Definition show_val (v : val) : pstr :=
  let d := v_st v in
  S "L:" ++ match v_cls v with Some c => c | None => kind_name (v_kind v) end ++ S ":" ++
  join (S ",") (map show_Z [yr d; mo d; dy d; hh d; mi d; ss d; us d; fold d]) ++ S ":" ++ show_tz (tz d).
Definition show_out (o : outcome) : pstr :=
  match o with
  | Loaded v => show_val v
  | ParseErr ps => S "P:" ++ join (S ",") (map hex ps)
  end.
Definition show_elems (r : list val + outcome) : pstr :=
  match r with inl vs => S "[" ++ join (S ";") (map show_val vs) ++ S "]" | inr e => show_out e end.
Definition missing : stamp := {| yr := -1; mo := 0; dy := 0; hh := 0; mi := 0; ss := 0; us := 0; tz := None; fold := 0 |}.
Fixpoint lk (s : pstr) (t : list (pstr * option stamp)) : option stamp :=
  match t with [] => Some missing | (k, v) :: r => if pstr_eqb s k then v else lk s r end.
Fixpoint lk2 (p s : pstr) (t : list (pstr * pstr * option stamp)) : option stamp :=
  match t with [] => Some missing | (k1, k2, v) :: r => if pstr_eqb p k1 && pstr_eqb s k2 then v else lk2 p s r end.
Definition mk (y mo d h mi s u f : Z) (t : option tzv) : stamp :=
  {| yr := y; mo := mo; dy := d; hh := h; mi := mi; ss := s; us := u; tz := t; fold := f |}.
'''


def tz_coq(t):
    if t is None:
        return 'None'
    if isinstance(t, zoneinfo.ZoneInfo):
        return '(Some (TzZone %s))' % coq_str(t.key)
    return '(Some (TzOff (%d)%%Z))' % int(t.utcoffset(None).total_seconds())


def stamp_coq(v):
    if v is None:
        return 'None'
    if isinstance(v, _dt.datetime):
        f, t = (v.year, v.month, v.day, v.hour, v.minute, v.second, v.microsecond, v.fold), v.tzinfo
    elif isinstance(v, _dt.date):
        f, t = (v.year, v.month, v.day, 0, 0, 0, 0, 0), None
    else:
        f, t = (0, 0, 0, v.hour, v.minute, v.second, v.microsecond, v.fold), v.tzinfo
    return '(Some (mk %s %s))' % (' '.join('(%d)%%Z' % x for x in f), tz_coq(t))


def model_expr(f, strings, container):
    """Gallina expression for loading `strings` (one scalar, or the elements of one container)"""
    eng, kind = f['engine'], f['kind']
    iso_t, strp_t, seen = [], [], set()
    for s in strings:
        keys = {s}
        if eng == 'v0' and kind != 'date':
            keys.add(s.replace('Z', '+00:00', 1))
        for k in keys:
            if k not in seen:
                seen.add(k)
                d = None
                try:
                    d = BASE[kind].fromisoformat(k)
                except (ValueError, TypeError):
                    pass
                iso_t.append('(%s, %s)' % (coq_str(k), stamp_coq(d)))
        for p in f['patterns']:
            strp_t.append('(%s, %s, %s)' % (coq_str(p), coq_str(s), stamp_coq(o_strp(s, p))))
    k = {'date': 'KDate', 'time': 'KTime', 'datetime': 'KDateTime'}[kind]
    cls = 'None' if f['cls'] is None else '(Some %s)' % coq_str(f['cls'])
    iso = '(fun _ s => lk s %s)' % coq_list(iso_t)
    strp = '(fun p s => lk2 p s %s)' % coq_list(strp_t)
    if eng == 'v0':
        fn = '(load0 %s %s %s %s %s)' % (iso, strp, k, cls, coq_str(f['patterns'][0]))
    else:
        tz = tz_of(f)
        tzo = 'None' if tz is None else '(Some (TzZone %s))' % coq_str(tz)
        fn = '(load1 %s %s %s %s %s %s)' % (iso, strp, k, cls, tzo, coq_list([coq_str(p) for p in f['patterns']]))
    if container is None:
        return 'show_out (%s %s)' % (fn, coq_str(strings[0]))
    return 'show_elems (load_elems %s %s)' % (fn, coq_list([coq_str(s) for s in strings]))


def tz_txt(t):
    return '-' if t is None else ('zone=' + t[1].encode().hex() if t[0] == 'zone' else 'off=%d' % t[1])


def val_txt(c):
    return 'L:%s:%s:%s' % (c['t'], ','.join(str(x) for x in c['f']), tz_txt(c['tz']))


def impl_txt(f, o, container):
    """the implementation's outcome in the model's output format"""
    if 'ok' in o:
        v = o['ok']
        if v is None:
            return 'N'
        if container is None:
            return val_txt(v) if 't' in v else 'X:' + json.dumps(v)
        xs = v.get('list') if 'list' in v else [x[1] for x in v.get('dict', [])]
        if any(x is not None and 't' not in x for x in xs):
            return 'X:' + json.dumps(v)
        return '[' + ';'.join('N' if x is None else val_txt(x) for x in xs) + ']'
    if o.get('parse_error'):
        return 'P:' + ','.join(p.encode().hex() for p in f['patterns'])
    if o['err'] == 'AttributeError':
        return 'A'
    return 'E:' + o['err']


def elems(inp):
    return [inp] if isinstance(inp, str) else (list(inp) if isinstance(inp, list) else list(inp.values()))


# --------------------------------------------------------------------------- run
def gen_groups(ctx):
    groups = []
    for engine in ('v0', 'v1'):
        r = ctx.sub_rng('fields', engine)
        n = 30 if ctx.tier == 'quick' else 300
        for _ in range(n):
            groups.append({'engine': engine, 'fields': [gen_field(r, engine) for _ in range(8)]})
    return groups


def payload(groups):
    return {'groups': [{'engine': g['engine'], 'fields': [{'ann': f['ann'], 'inputs': inputs_of(f)} for f in g['fields']]}
                       for g in groups]}


def replay_obj(f, inp, what):
    return {'kind': 'field', 'field': {k: f[k] for k in ('engine', 'kind', 'cls', 'tz', 'patterns', 'infos', 'container', 'ann')},
            'input': inp, 'what': what}


def nontrivial(f):
    return (len(f['infos'][0]) >= 3 or f['cls'] is not None or f['tz'] is not None or f['container'] is not None
            or len(f['patterns']) > 1)



def coq_retry(ctx, exprs, imports, prelude):
    """model evaluation; a coqc process killed by the machine (out of memory under load) is retried"""
    import time
    last = None
    for attempt in range(3):
        try:
            return ctx.coq(exprs, imports, prelude=prelude, tag='cases%d' % attempt)
        except Exception as e:      # noqa
            last = e
            time.sleep(10 * (attempt + 1))
    raise last


def run(ctx):
    groups = gen_groups(ctx)
    impl = ctx.impl('c17', payload(groups))['groups']

    exprs, index = [], []          # model expressions and where they belong
    nviol = 0
    for g, gres in zip(groups, impl):
        for f, fres in zip(g['fields'], gres):
            inputs = inputs_of(f)
            ctx.hist('engine/kind', '%s/%s' % (f['engine'], f['kind']))
            ctx.hist('variant', ('subclass ' if f['cls'] else '') + ('tz ' if f['tz'] else '') + (f['container'] or 'scalar')
                     + (' %d patterns' % len(f['patterns']) if len(f['patterns']) > 1 else ''))
            for p_, info in zip(f['patterns'], f['infos']):
                for d in info:
                    ctx.hist('directive', d)
                ctx.hist('dash_or_plus', ('-' in p_) or ('+' in p_))
            for i, (inp, res) in enumerate(zip(inputs, fres)):
                ctx.count(1, key='%s|%s|%s' % (f['engine'], f['ann'], json.dumps(inp, sort_keys=True)), nontrivial=nontrivial(f))
                if res.get('load', {}).get('phase') == 'class':
                    ctx.violation('class with patterned field cannot be created: %s' % res['load'].get('msg', '')[:200],
                                  replay_obj(f, inp, 'class'))
                    continue
                ss = elems(inp)
                # ---- direct predicates ----
                bad = None
                if f['container'] is None:
                    it = f['items'][i]
                    ctx.hist('input', it['why'])
                    bad = check_scalar(ctx, f, it, res)
                    region = in_f26_region(f, inp)
                else:
                    region = any(in_f26_region(f, s) for s in ss)
                    bad = check_container(ctx, f, inp, ss, res)
                if region:
                    ctx.hist('f26_shape_covered', f['container'] or 'scalar')
                if bad:
                    if nviol < 8:
                        nviol += 1
                        ctx.violation('%s engine, %s: %s' % (f['engine'], f['ann'], bad), replay_obj(f, inp, bad))
                # ---- model expressions: the input, and the dump of its load ----
                exprs.append(model_expr(f, ss, f['container']))
                index.append((f, inp, res['load'], 'load'))
                if 'ok' in res['load'] and res['load']['ok'] is not None and 'again' in res and res.get('dump') is not None:
                    try:
                        ds = elems(res['dump'])
                        if all(isinstance(x, str) for x in ds):
                            exprs.append(model_expr(f, ds, f['container']))
                            index.append((f, res['dump'], res['again'], 'reload'))
                    except Exception:
                        pass
    # ---- correspondence ----
    try:
        model = coq_retry(ctx, exprs, ['PatModel'], prelude=PRELUDE)
    except Exception as e:
        ctx.broken_tie('model evaluation failed: %s' % str(e)[:800])
        model = None
    if model is not None:
        nd = 0
        for (f, inp, o, phase), m in zip(index, model):
            ctx.traces_validated += 1
            got = impl_txt(f, o, f['container'])
            ctx.hist('outcome', got[:1])
            if got != m:
                nd += 1
                ctx.disagreements_checked += 1
                if nd <= 5:
                    ctx.broken_tie('Pattern model and implementation disagree (%s engine, %s, %s)' % (f['engine'], f['ann'], phase),
                                   {'input': inp, 'impl': got, 'model': m, 'patterns': f['patterns']})
    g0 = groups[0]['fields'][0]
    ctx.sample({'annotation': g0['ann'], 'inputs': inputs_of(g0), 'observed': impl[0][0]})
    g1 = groups[-1]['fields'][0]
    ctx.sample({'annotation': g1['ann'], 'engine': 'v1', 'inputs': inputs_of(g1), 'observed': impl[-1][0]})


def check_container(ctx, f, inp, ss, res):
    """P7: element-wise; one bad element rejects the whole container"""
    cn = cls_name(f)
    exp = []
    for s in ss:
        pr, ir = pattern_reading(f, s), iso_reading(f, s)
        acc = [canon_py(x, cn) for x in (pr, ir) if x is not None]
        exp.append(acc)
    load = res['load']
    if any(not a for a in exp):
        if not load.get('parse_error'):
            return 'P7/P4: container with a junk element %r not rejected with ParseError: %r' % (inp, load)
        return None
    if 'ok' not in load:
        return 'P7: container %r rejected: %r' % (inp, load)
    v = load['ok']
    xs = v.get('list') if 'list' in v else ([x[1] for x in v.get('dict', [])] if 'dict' in v else None)
    if xs is None or len(xs) != len(ss) or any(x not in a for x, a in zip(xs, exp)):
        return 'P7: container %r loaded as %r, expected element-wise %r' % (inp, v, [a[0] for a in exp])
    if 'dict' in v and [x[0] for x in v['dict']] != list(inp):
        return 'P7: dict keys changed: %r' % (v,)
    if not res.get('again_equal'):
        return 'P2: load(dump(load(%r))) differs (dump %r, again %r)' % (inp, res.get('dump'), res.get('again'))
    return None



def replay_demo(ctx, obj):
    """replay object written by the driver for a returned FIXED finding: run its demo script (exit 0 = holds)"""
    import os, re, subprocess
    from lib import framework
    m = re.search(r'(findings_demos/[\w.]+\.py)', str(obj.get('witness')))
    if not m:
        print('no demo script named in %r' % (obj,))
        return False
    p = subprocess.run([framework.PY, os.path.join(framework.VERIF, m.group(1))], capture_output=True, text=True,
                       timeout=300, env=framework.impl_env())
    print(p.stdout[-3000:])
    return p.returncode == 0


def replay(ctx, obj, quiet=False):
    if 'finding' in obj:
        return replay_demo(ctx, obj)
    if obj.get('kind') != 'field':
        print('replay object names a broken tie, not an input: %s' % json.dumps(obj)[:1500])
        return False
    f = obj['field']
    res = ctx.impl('c17', {'groups': [{'engine': f['engine'], 'fields': [{'ann': f['ann'], 'inputs': [obj['input']]}]}]})['groups'][0][0][0]
    ss = elems(obj['input'])
    good = all(pattern_reading(f, s) is not None or iso_reading(f, s) is not None for s in ss)
    if not quiet:
        print('engine %s   f: %s   input %r' % (f['engine'], f['ann'], obj['input']))
        print('recorded failure:', obj.get('what'))
        print('observed now    :', json.dumps(res)[:1200])
    load = res['load']
    if not good:
        return bool(load.get('parse_error')) and all(p in load.get('msg', '') for p in f['patterns'])
    if 'ok' not in load:
        return False
    cn = cls_name(f)
    if f['container'] is None:
        acc = [canon_py(x, cn) for x in (pattern_reading(f, ss[0]), iso_reading(f, ss[0])) if x is not None]
        return load['ok'] in acc and bool(res.get('again_equal'))
    return check_container(ctx, f, obj['input'], ss, res) is None
