"""C13 — tagged unions dispatch on the tag alone.

Theorems: coq/props/C13.v (model coq/model/TagUnion.v).  Every configuration
(family, tagging, tag key, Union argument order, container position, engine,
dump-first or load-first) runs in its own fresh interpreter
(harness/impl/c13.py -> c13_one.py), because auto-tag assignment writes the
members' Meta.  Direct predicates on every case: type(load(dump(k))) is K and
== k, the dump carries exactly K's fields plus K's tag under the tag key,
unknown tags raise ParseError listing the valid tags, no tag raises ParseError,
the tag key is neither reported unknown nor captured.  The Coq model is run on
the same documents and compared (correspondence).
"""
import json, itertools
from lib.coqrun import coq_str, coq_list

META = {
    'id': 'C13',
    'title': 'Tagged unions dispatch on the tag alone',
    'level': 'proof',
    'technique': 'Coq proof (tag -> member lookup under an injectivity hypothesis, Permutation invariance, induction over container '
                 'positions) on a hand-written Gallina model of UnionParser / v1 load_to_union / tag emission + per-configuration '
                 'differential correspondence with the implementation in fresh interpreters',
    'design_ref': 'DESIGN.md section 4 C13',
    'theorems': ['C13_dispatch_v0', 'C13_dispatch_v1', 'C13_order_irrelevant_v0', 'C13_order_irrelevant_v1', 'C13_unknown_tag',
                 'C13_no_tag', 'C13_scalars_do_not_capture_dicts', 'C13_tag_not_unknown', 'C13_equal_names_refuted',
                 'C13_equal_names_v1_refuted', 'C13_tag_key_before_first_dump_refuted', 'C13_member_auto_tag_refuted',
                 'C13_cont_dispatch_v1', 'C13_cont_dispatch_v0_partial', 'C13_cont_dict_member_captures_v0', 'C13_cont_dict_member_refuted',
                 'C13_cont_values_v0', 'C13_cont_values_v1', 'C13_cont_order_irrelevant_v0', 'C13_cont_order_irrelevant_v1',
                 'C13_partial_fields', 'C13_defaults_filled', 'C13_multi_union_dispatch', 'C13_multi_union_error_is_local'],
    'tables': [],
    'level_text': ('Theorems proved in Coq for ALL families (any number of members, any field sets, scalar members and None mixed in), '
                   'all injective tag assignments (explicit / auto / mixed), all tag-key strings that are not a field, all Union argument '
                   'orders (Permutation) and all positions inside Optional/list/dict/tuple containers at any depth, for both engines: a '
                   'dumped member instance loads back as the same class with the same fields; unknown tag -> ParseError with the valid '
                   'tags; no tag -> ParseError; the tag key is neither reported unknown nor captured. The forced hypotheses are shown '
                   'necessary by refutation theorems whose witnesses fail on the implementation: equal __name__s (F9, open) and, new, '
                   'auto-assigned tag + first load before any dump (F23, open). Container-typed Union members (list[s], dict[str, s], tuple) beside the '
                   'dataclasses are modelled for both engines (TagUnionCont.v) and the theorems hold for ANY number of them anywhere among the arguments: '
                   'v1 reads the tag first, so they never capture a dumped member (C13_cont_dispatch_v1); default engine: proved on the safe region '
                   '"no dict-typed member" (_partial) and refuted otherwise - a dict-typed member takes EVERY dict whatever the argument order '
                   '(C13_cont_dict_member_captures_v0, finding F96, open); list / dict values of a container member are never mistaken for a dataclass; '
                   'Permutation invariance with container members; a tagged document with ANY subset of the fields is handed to the tagged class and '
                   'its constructor rule (defaults / MissingFields) applies (C13_partial_fields, C13_defaults_filled); several distinct Unions in one '
                   'annotation are independent positions, each dispatching with its own tag table (C13_multi_union_dispatch, _error_is_local). '
                   'The model is re-validated against the implementation on every run.'),
    'level_note': ('Trusted: Coq kernel + vm_compute; the hand-written model coq/model/TagUnion.v (field values travel unchanged: field-level '
                   'coercions are C01/C04; element conversions of container-typed Union members for values that are not of the declared '
                   'element type, and the v1 tuple loader, are oracles (Section variables coerce / tuple_v1: every theorem holds for all of them; the '
                   'correspondence compares only oracle-free documents); at a Union with container members a JDict is a plain dict); the harness.'),
    'rule': ('families of 2-4 dataclasses over a 4-field pool with identical / nested / overlapping field sets; tags auto / explicit / mixed, '
             'explicit tags and tag keys drawn from a pool with quotes, backslashes, spaces, newline, non-ASCII; scalar members (int, str, '
             'bool, float, None) mixed in; Union argument order: all permutations of <= 4 arguments in thorough, sampled in quick; positions '
             'direct/Optional/list/dict/tuple/variadic tuple/list[dict]/Optional[list]; engines default and v1; dump-then-load and load-first '
             '(documents built by the harness); tag assignment = full product {explicit, none} x {member auto flag} x {container auto flag}; histories: '
             'members dumped / loaded alone (both orders) before the container is first used; documents as dict / OrderedDict / defaultdict / user subclass; '
             'a stream of RICH members (path fields, aliases, defaults/factories, skip rules, init=False, nested dataclasses/containers, CatchAll, inheritance '
             'between members; direct predicates only); a stream with 1-3 DISTINCT tagged Unions (same / different sizes, disjoint / overlapping member '
             'sets) at the slots of a Tuple (bare, list element, dict value) that is one field, a dict value or a list element of one field, or in '
             'separate fields of one class: every member of every Union at its position round-trips, a tag of ANOTHER Union is rejected with the '
             'valid tags of that position\'s Union; a stream of families with 1-3 container-typed members (List[int|str], Dict[str, int|str], '
             'Tuple[int, int], Tuple[int, ...]) at random places among the arguments, with a value of every container member, untagged lists / dicts '
             '(empty, wrong element type, nested) and tagged documents that omit the defaulted fields; plus a small stream of families with equal __name__s (region F9). distinct = distinct '
             'configuration JSON; every configuration has >= 2 look-alike members, so every one is non-trivial.'),
    'trusted_base': ['model coq/model/TagUnion.v transcribes UnionParser.__call__/__post_init__, v1 load_to_union and the member loaders\' '
                     'unknown-key handling (validated by the correspondence run)',
                     'model coq/model/TagUnionCont.v transcribes the position of container parsers in UnionParser.parsers (scanned by exact type before '
                     'the tag is read) and v1 load_to_union\'s type_checks / try-loads in argument order after the tag branch (validated by the '
                     'correspondence run on the container-member stream)'],
    'assumptions': ['tags_injective: no two members carry the same explicit-or-auto tag (forced: tag -> loader map); v1: distinct __name__s (F9)',
                    'the tag key is not a field of a member and is configured on the class containing the Union (members do not set another one)',
                    'every member carries a tag: explicit Meta.tag, or auto_assign_tags on the container and/or in the member\'s own Meta (full product; the member-only case is region F62)',
                    'input documents are dict instances of any subclass (dict, OrderedDict, defaultdict without factory, user subclass)',
                    'scalar Union members are int/str/bool/float/None; container members are list[s] / dict[str, s] / tuple with scalar elements',
                    'fresh interpreter per configuration'],
}

F9_ID = 'F9-C13-equal-names'
F23_ID = 'F23-auto-tag-key-unknown-before-first-dump'
F62_ID = 'F62-member-level-auto-tag-not-dumped'
F63_ID = 'F63-member-own-tag-key-not-read'
F96_ID = 'F96-c13-dict-member-captures-tagged-dicts'

FIELD_POOL = [('a', 'int', None), ('b', 'str', None), ('d', 'List[int]', None), ('c', 'int', '3')]   # the defaulted field last
FIELD_SETS = {   # relation -> list of field-index sets per member (cut to family size)
    'identical': [[0, 1], [0, 1], [0, 1], [0, 1]],
    'identical1': [[0], [0], [0], [0]],
    'nested': [[0], [0, 1], [0, 1, 2], [0, 1, 2, 3]],
    'overlap': [[0, 1], [1, 2], [0, 2], [0, 3]],
    'mixed': [[0, 1, 3], [0, 1, 3], [0, 1], [1]],
}
ODD = ["t'q", 't"q', 'a\\b', 'sp ace', 'new\nline', 'café', "'", '\\', 'x' * 3, 'Type', '{0}', '%s', '__tag__2']
SCALARS = {'int': 5, 'str': 'txt', 'bool': True, 'float': 1.5}
POSITIONS = ['direct', 'opt', 'list', 'dict', 'tuple', 'vtuple', 'listdict', 'optlist']
POS_COQ = {'direct': 'PHere', 'opt': '(POpt PHere)', 'list': '(PList PHere)', 'dict': '(PDict PHere)', 'tuple': '(PTuple PHere)',
           'vtuple': '(PVTuple PHere)', 'listdict': '(PList (PDict PHere))', 'optlist': '(POpt (PList PHere))'}
POS_FMT = {'direct': '%s', 'opt': '%s', 'list': 'L[%s]', 'dict': 'D{6b:%s}', 'tuple': 'T[%s,S(i1)]', 'vtuple': 'T[%s]',
           'listdict': 'L[D{6b:%s}]', 'optlist': 'L[%s]'}
WRAP = {'direct': lambda x: x, 'opt': lambda x: x, 'list': lambda x: [x], 'dict': lambda x: {'k': x}, 'tuple': lambda x: [x, 1],
        'vtuple': lambda x: [x], 'listdict': lambda x: [{'k': x}], 'optlist': lambda x: [x]}


def container_auto(cfg):
    c = cfg['container']
    return bool(c.get('auto_assign_tags')) and not c.get('no_meta') and c.get('recursive') is not False


def expected_tag(cfg, i):
    m = cfg['members'][i]
    if m.get('tag'):
        return m['tag']
    return m['pyname'] if (container_auto(cfg) or m.get('own_auto')) else None


def tag_key(cfg):
    """the key the Union READS: the container's tag_key when its Meta cascades (exists, recursive not False), else the default.
    A holder class between container and Union never changes it (only the root's config cascades)."""
    c = cfg['container']
    if c.get('no_meta') or c.get('recursive') is False:
        return '__tag__'
    return c.get('tag_key') or '__tag__'


def writer_key(cfg, i):
    """the key member i's dump function WRITES its tag under: its own Meta's tag_key, else what cascades from the root."""
    return cfg['members'][i].get('own_tag_key') or tag_key(cfg)


def values_for(m, rng):
    v = {}
    for f, t, d in m['fields']:
        v[f] = {'int': rng.randrange(-9, 10), 'str': rng.choice(['', 'x', 'K0', "q'\"\\", 'true']),
                'List[int]': [rng.randrange(0, 10) for _ in range(rng.choice([0, 1, 3]))]}[t]
    return v


def gen_family(rng, equal_names):
    """Members with the full product {explicit tag, none} x {member-level auto_assign_tags on, off} x
    {container auto_assign_tags on, off}, restricted to members that carry a tag at all."""
    n = rng.choice([2, 2, 3, 3, 4])
    rel = rng.choice(sorted(FIELD_SETS))
    sets = FIELD_SETS[rel][:n]
    rng.shuffle(sets)
    root_auto = rng.random() < 0.5
    pool = rng.sample(ODD, n) if rng.random() < 0.5 else ['t%d' % i for i in range(n)]
    members = []
    for i in range(n):
        explicit = rng.random() < 0.5
        own_auto = rng.random() < 0.35
        if not explicit and not root_auto and not own_auto:
            if rng.random() < 0.5:
                explicit = True
            else:
                own_auto = True
        style = rng.choice(['inner', 'plain'])
        name = 'K%d' % i
        if equal_names and i < 2:
            name, style = 'Dup', 'plain'
        members.append({'pyname': name, 'style': style, 'fields': [list(FIELD_POOL[j]) for j in sorted(sets[i])],
                        'tag': pool[i] if explicit else None, 'catchall': rng.random() < 0.35, 'own_auto': own_auto})
    n_expl = sum(1 for m in members if m['tag'] is not None)
    mode = 'explicit' if n_expl == n else ('auto' if n_expl == 0 else 'mixed')
    return members, mode, rel, root_auto


def gen_config(rng, engine, mode, equal_names=False, order_idx=None):
    members, tmode, rel, auto = gen_family(rng, equal_names)
    n = len(members)
    scalars = [s for s in ['int', 'str', 'bool', 'float', 'None'] if rng.random() < 0.3]
    if n + len(scalars) > 5:
        scalars = scalars[:5 - n]
    args = list(range(n)) + scalars
    rng.shuffle(args)
    tk = rng.choice([None, None, 'type', 'kind'] + ODD)
    fields = {f for m in members for f, _, _ in m['fields']}
    if tk is not None and (tk in fields or tk.lower() in fields):
        tk = 'type'
    cfg = {'engine': engine, 'mode': mode, 'members': members, 'order': args, 'relation': rel, 'tagging': tmode,
           'doc_type': rng.choice(['dict', 'dict', 'OrderedDict', 'defaultdict', 'subclass']),
           'history': rng.choice(['none', 'none', 'alone_dump', 'alone_load', 'alone_dump_load', 'alone_load_dump']),
           'container': {'tag_key': tk, 'auto_assign_tags': auto, 'position': rng.choice(POSITIONS),
                         'unknown': rng.choice([None, None, 'raise'])}}
    hist = []
    for i in rng.sample(range(n), rng.choice([1, n])):       # one member, or every member, used on its own first
        vals = values_for(members[i], rng)
        for kind in {'none': [], 'alone_dump': ['alone_dump'], 'alone_load': ['alone_load'],
                     'alone_dump_load': ['alone_dump', 'alone_load'], 'alone_load_dump': ['alone_load', 'alone_dump']}[cfg['history']]:
            hist.append({'op': kind, 'member': i, 'values': vals, 'doc': vals})
    cfg['ops'] = hist + gen_ops(cfg, rng)
    return cfg


# ---- container-typed Union members (list[...], dict[str, ...], tuple[...]) beside the tagged dataclasses ----------------
CONT_KINDS = {'List[int]': ('list', 'int'), 'List[str]': ('list', 'str'), 'Dict[str, int]': ('dict', 'int'),
              'Dict[str, str]': ('dict', 'str'), 'Tuple[int, int]': ('tuple', 'int'), 'Tuple[int, ...]': ('tuple', 'int')}
CONT_COQ = {'List[int]': 'CList SInt', 'List[str]': 'CList SStr', 'Dict[str, int]': 'CDict SInt', 'Dict[str, str]': 'CDict SStr',
            'Tuple[int, int]': 'CTuple', 'Tuple[int, ...]': 'CTuple'}
SCALAR_NAMES = ('int', 'str', 'bool', 'float')


def cont_members(cfg, base=None):
    return [a for a in cfg['order'] if a in CONT_KINDS and (base is None or CONT_KINDS[a][0] == base)]


def cont_value(kind, rng):
    base, el = CONT_KINDS[kind]
    n = rng.choice([0, 1, 2, 3])
    elems = [rng.randrange(-9, 10) if el == 'int' else rng.choice(['x', 'yy', 'K0', 'zq']) for _ in range(n)]
    if base == 'dict':
        return {'k%d' % j: e for j, e in enumerate(elems)}
    return elems


def gen_cont_config(rng, engine):
    """A family as in the main stream with 1-3 container members at random places among the Union arguments; documents are
    plain dicts (the default engine's exact-type test `type(o) is dict` is part of what is modelled)."""
    cfg = gen_config(rng, engine, rng.choice(['roundtrip', 'roundtrip', 'loadfirst']))
    kinds = sorted(CONT_KINDS)
    if engine == 'v0' and rng.random() < 0.6:
        kinds = [k for k in kinds if not k.startswith('Dict')]          # most default-engine families in the safe region
    conts = rng.sample(kinds, rng.choice([1, 1, 2, 3]))
    order = [a for a in cfg['order'] if isinstance(a, int)] + [a for a in cfg['order'] if not isinstance(a, int)][:2] + conts
    rng.shuffle(order)
    cfg['order'] = order
    cfg['cont'] = True
    cfg['doc_type'] = 'dict'
    cfg['history'] = 'none'
    cfg['ops'] = gen_ops(cfg, rng)
    tk = tag_key(cfg)
    for kind in conts:                                                # a value of every container member
        cfg['ops'].append({'op': 'load', 'doc': cont_value(kind, rng), 'expect': 'cont', 'kind': kind})
    for doc in rng.sample([[], {}, {'k': 1}, {'k': 'x'}, ['zq'], [1, 2], ['x', 'yy'], [[1]], [{'a': 1}], {'k': [1]}], 4):
        cfg['ops'].append({'op': 'load', 'doc': doc, 'expect': 'untagged'})
    return cfg


def plain_str(e):
    """a string no int() accepts (so the element conversion to int fails in every engine: no oracle needed)"""
    if not isinstance(e, str) or not any(ch.isalpha() and ch.isascii() for ch in e):
        return False
    if e.strip().lower() in ('true', 'false', 'nan', 'inf', 'infinity', 'none', 'null'):
        return False
    try:
        float(e)
        return False
    except ValueError:
        return True


def oracle_free(cfg, doc):
    """True iff the model needs no `coerce` / `tuple_v1` oracle value to decide this document (the harness supplies none)."""
    eng = cfg['engine']
    tagged = isinstance(doc, dict) and tag_key(cfg) in doc
    if eng == 'v1' and tagged:
        return True                                   # tag branch first
    if eng == 'v1' and (cont_members(cfg, 'tuple') or any(a in SCALAR_NAMES for a in cfg['order'])):
        return False
    for kind in cont_members(cfg):
        base, el = CONT_KINDS[kind]
        if base == 'tuple':
            continue
        if base == 'list':
            if isinstance(doc, list):
                elems = doc
            elif eng == 'v1' and isinstance(doc, dict):
                elems = list(doc)
            elif eng == 'v1' and isinstance(doc, str):
                elems = list(doc)
            else:
                continue
        else:
            if not isinstance(doc, dict):
                continue
            elems = list(doc.values())
        for e in elems:
            if type(e).__name__ == el:
                continue
            if el == 'int' and plain_str(e):
                continue                              # int('zq') raises in every engine (as_int([]) is 0: containers need the oracle)
            return False
    return True


def in_region_F96(cfg):
    """default engine and a member whose base type is dict: that member takes every dict, tagged or not."""
    return cfg['engine'] == 'v0' and bool(cont_members(cfg, 'dict'))


def first_exact(cfg, base, elems):
    """elements are exactly of the element type of the FIRST container member with that base type"""
    ms = cont_members(cfg, base)
    return bool(ms) and all(type(e).__name__ == CONT_KINDS[ms[0]][1] for e in elems)


def check_untagged_cont(cfg, op, r):
    """Documented outcome for a list / an untagged dict at a Union with container members (independent reference):
    never a dataclass member; a value whose elements have exactly the declared type goes to the first container member of
    its kind unchanged (v1: unless a member that iterates its input - list / tuple - could take it first); with no
    untagged alternative of that shape at all: ParseError."""
    doc, eng = op['doc'], cfg['engine']
    if r.get('loaded_member') is not None:
        return ('untagged value %r was loaded as dataclass member %r' % (doc, r['loaded_member']), None)
    scal = [a for a in cfg['order'] if a in SCALAR_NAMES]
    lists, dicts, tuples = cont_members(cfg, 'list'), cont_members(cfg, 'dict'), cont_members(cfg, 'tuple')

    def same():
        try:
            return 'err' not in r and show_jv_py(uncanon(r['loaded'])) == show_jv_py(doc)
        except (ValueError, TypeError):
            return False
    if isinstance(doc, list):
        if first_exact(cfg, 'list', doc) and (eng == 'v0' or not tuples) and not same():
            return ('list value %r of the first list member came back as %r' % (doc, r.get('loaded') if 'err' not in r else r['err']), None)
        if not lists and (eng == 'v0' or (not tuples and not any(s in ('str', 'bool') for s in scal))) and r.get('err') != 'ParseError':
            return ('list %r with no list-typed alternative: got %s, expected ParseError' % (doc, r.get('err') or 'a value'), None)
    elif isinstance(doc, dict):
        if first_exact(cfg, 'dict', list(doc.values())) and (eng == 'v0' or (not lists and not tuples)) and not same():
            return ('dict value %r of the first dict member came back as %r' % (doc, r.get('loaded') if 'err' not in r else r['err']), None)
        if not dicts and (eng == 'v0' or (not lists and not tuples and not any(s in ('str', 'bool') for s in scal))) and r.get('err') != 'ParseError':
            return ('untagged dict %r with no dict-typed alternative: got %s, expected ParseError' % (doc, r.get('err') or 'a value'), None)
    return None


# ---- several DISTINCT tagged Unions inside one field annotation / in several fields of one class ------------------------
MULTI_SLOTS = ['%s', 'List[%s]', 'Dict[str, %s]']
MULTI_LAYOUTS = ['tuple', 'tuple', 'dict_tuple', 'list_tuple', 'fields']


def gen_multi_config(rng, engine):
    """1-3 Unions (same / different sizes, disjoint / overlapping member sets) at tuple slots, each slot bare, a list element or
    a dict value; the tuple is the field, a dict value or a list element of ONE field - or every slot is its own field."""
    n_un = rng.choice([1, 2, 2, 3, 3])
    sizes = [rng.choice([2, 2, 3]) for _ in range(n_un)]
    if rng.random() < 0.5:
        sizes = [sizes[0]] * n_un                                  # same size
    rel = rng.choice(['disjoint', 'overlap', 'overlap'])
    if rel == 'disjoint':
        n = sum(sizes)
        ids = list(range(n)); rng.shuffle(ids)
        unions, k = [], 0
        for sz in sizes:
            unions.append(ids[k:k + sz]); k += sz
    else:
        n = rng.choice([3, 4, 5])
        unions = [rng.sample(range(n), sz) for sz in sizes]
        n = max(max(u) for u in unions) + 1
    auto = rng.random() < 0.6
    pool = rng.sample(ODD, n) if rng.random() < 0.3 else ['t%d' % i for i in range(n)]
    fields = [list(FIELD_POOL[0])] + ([list(FIELD_POOL[1])] if rng.random() < 0.5 else [])
    members = []
    for i in range(n):
        explicit = (not auto) or rng.random() < 0.4
        members.append({'pyname': 'K%d' % i, 'style': rng.choice(['inner', 'plain']), 'fields': fields,
                        'tag': pool[i] if explicit else None, 'catchall': False, 'own_auto': False})
    tk = rng.choice([None, None, 'type', 'kind'] + ODD)
    layout = rng.choice(MULTI_LAYOUTS)
    cfg = {'engine': engine, 'multi': True, 'mode': 'roundtrip', 'members': members, 'unions': unions,
           'slots': [rng.choice(MULTI_SLOTS) for _ in unions], 'layout': layout, 'order': sorted({j for u in unions for j in u}),
           'relation': 'multi-' + rel, 'tagging': 'auto' if auto else 'explicit', 'doc_type': 'dict', 'history': 'none',
           'container': {'tag_key': tk, 'auto_assign_tags': auto, 'position': 'multi-' + layout, 'unknown': None}}
    tkey = tag_key(cfg)
    tags = [expected_tag(cfg, i) for i in range(n)]
    ops = []
    base = [u[0] for u in unions]
    for pos, u in enumerate(unions):
        for j in u:                                               # every member of every Union at its position
            choice = list(base); choice[pos] = j
            ops.append({'op': 'mrt', 'choice': choice, 'values': [values_for(members[x], rng) for x in choice]})
        own = {tags[j] for j in u}
        foreign = [t for t in tags if t not in own]               # valid in ANOTHER Union of the class, not in this one
        for t in (rng.sample(foreign, 1) if foreign else []) + ['nope']:
            if t in own:
                continue
            ops.append({'op': 'mtag', 'choice': list(base), 'values': [values_for(members[x], rng) for x in base],
                        'pos': pos, 'tag': t, 'tag_key': tkey})
    cfg['ops'] = ops
    return cfg


def check_op_multi(cfg, op, r):
    tk = tag_key(cfg)
    if op['op'] == 'mrt':
        if 'err' in r:
            return ('dump/load with members %r at the Union positions raised %s: %s' % (op['choice'], r['err'], (r.get('msg') or '')[:200]), None)
        for pos, j in enumerate(op['choice']):
            d = uncanon(r['dumped'][pos])
            if not isinstance(d, dict) or d.get(tk) != expected_tag(cfg, j):
                return ('position %d: dump of a K%d instance is %r, expected tag %r under %r' % (pos, j, d, expected_tag(cfg, j), tk), None)
            if r['loaded_members'][pos] != j:
                return ('position %d (Union %r): type(load(dump(k))) is member %r, expected member %d'
                        % (pos, cfg['unions'][pos], r['loaded_members'][pos], j), None)
            if not r['equal'][pos]:
                return ('position %d: load(dump(k)) != k' % pos, None)
        return None
    if r.get('err') != 'ParseError':
        return ('position %d: tag %r is not assigned in Union %r: got %s, expected ParseError'
                % (op['pos'], op['tag'], cfg['unions'][op['pos']], r.get('err') or 'a value'), None)
    want = sorted({expected_tag(cfg, j) for j in cfg['unions'][op['pos']]})
    if r.get('valid_tags') != want:
        return ('position %d: ParseError lists valid tags %r, expected those of THAT Union %r' % (op['pos'], r.get('valid_tags'), want), None)
    return None


# ---- rich members: the declaration styles of the other properties, crossed with the tag modes ----------------------
RICH_POOL = [   # name, type, kind, value generator, default source (for the 'default' style)
    ('a', 'int', 'plain', lambda r: r.randrange(-9, 10), '3'),
    ('b', 'str', 'plain', lambda r: r.choice(['', 'x', "q'\"\\", 'K0']), "'dflt'"),
    ('d', 'List[int]', 'plain', lambda r: [r.randrange(0, 10) for _ in range(r.choice([0, 2]))], 'field(default_factory=list)'),
    ('m', 'Dict[str, int]', 'plain', lambda r: {'k%d' % i: i for i in range(r.choice([0, 2]))}, 'field(default_factory=dict)'),
    ('o', 'Optional[int]', 'plain', lambda r: r.choice([None, 4]), 'None'),
    ('n', 'Inner', 'inner', lambda r: {'x': r.randrange(0, 10), 'y': r.choice(['y', 'z'])}, 'field(default_factory=Inner)'),
    ('l', 'List[Inner]', 'innerlist', lambda r: [{'x': i, 'y': 'w'} for i in range(r.choice([0, 1, 2]))], 'field(default_factory=list)'),
]


def rich_field(rng, engine, spec, force_default):
    """(declaration line, has_default) for one field in a random declaration style."""
    name, typ, kind, _, dflt = spec
    style = rng.choice(['plain', 'plain', 'default', 'path', 'path', 'alias', 'skip'])
    if style == 'skip' and typ != 'int':
        style = 'plain'
    has_default = force_default or style in ('default', 'skip') or rng.random() < 0.3
    if style in ('plain', 'default'):
        return '%s: %s%s' % (name, typ, ' = ' + dflt if has_default else ''), has_default
    factory = dflt.startswith('field(default_factory=')
    darg = ''
    if has_default:
        darg = ', default_factory=' + dflt[len('field(default_factory='):-1] if factory else ', default=' + dflt
    if style == 'skip':
        return '%s: %s = skip_if_field(EQ(0), default=0)' % (name, typ), True
    if engine == 'v1':
        fn = 'AliasPath' if style == 'path' else 'Alias'
        key = 'pp.%s' % name if style == 'path' else '%s_X' % name.upper()
        return '%s: %s = %s(%r%s)' % (name, typ, fn, key, darg), has_default
    if style == 'path':
        if rng.random() < 0.5 and not factory:
            return '%s: Annotated[%s, KeyPath(%r)]%s' % (name, typ, 'pp.%s' % name, ' = ' + dflt if has_default else ''), has_default
        return '%s: %s = path_field(%r%s)' % (name, typ, 'pp.%s' % name, darg), has_default
    if rng.random() < 0.5 and not factory:
        return '%s: Annotated[%s, json_key(%r, all=True)]%s' % (name, typ, '%s_X' % name.upper(), ' = ' + dflt if has_default else ''), has_default
    return '%s: %s = json_field(%r, all=True%s)' % (name, typ, '%s_X' % name.upper(), darg), has_default


def gen_rich_config(rng, engine):
    n = rng.choice([2, 3, 3, 4])
    root_auto = rng.random() < 0.5
    inherit = rng.random() < 0.25          # member 1 subclasses member 0 (plain dataclasses, auto tags from the container)
    if inherit:
        root_auto = True
    # where tag_key / auto_assign_tags are configured: container Meta that cascades / recursive=False / no Meta at all,
    # a holder class with its own Meta between container and Union, the members' own Meta
    level = 'cascade' if inherit else rng.choice(['cascade', 'cascade', 'nonrecursive', 'no_meta', 'holder', 'holder_nometa_container'])
    if engine == 'v1' and level in ('no_meta', 'holder_nometa_container'):
        level = 'nonrecursive'
    cascades = level in ('cascade', 'holder')
    if not cascades:
        eff_root_auto = False
    else:
        eff_root_auto = root_auto
    tagpool = rng.sample(ODD, n) if rng.random() < 0.4 else ['t%d' % i for i in range(n)]
    identical = rng.random() < 0.5
    base_specs = rng.sample(RICH_POOL, rng.choice([2, 3, 4]))
    members = []
    for i in range(n):
        specs = base_specs if identical else rng.sample(RICH_POOL, rng.choice([0, 1, 2, 3, 4]))
        specs = sorted(specs, key=lambda sp: [x[0] for x in RICH_POOL].index(sp[0]))
        member_shape = 'any' if (identical or inherit) else rng.choice(['any', 'any', 'empty', 'catchall_only', 'defaults_only', 'noinit_only'])
        if member_shape in ('empty', 'catchall_only', 'noinit_only'):
            specs = []
        child = inherit and i == 1
        if child:
            specs = [sp for sp in RICH_POOL if sp[0] not in {x for x in members[0]['_names']}][:2]
        lines, kinds = [], {}
        decl = [rich_field(rng, engine, sp, force_default=child or member_shape == 'defaults_only') for sp in specs]
        order = sorted(range(len(specs)), key=lambda j: decl[j][1])      # fields without default first
        for j in order:
            lines.append(decl[j][0])
            kinds[specs[j][0]] = specs[j][2]
        if not lines:
            lines = ['pass']
        explicit = rng.random() < 0.5 and not (inherit and i < 2)
        own_auto = rng.random() < 0.25 and not (inherit and i < 2)
        if not explicit and not eff_root_auto and not own_auto:
            explicit = True
        m = {'pyname': 'K%d' % i, '_shape': member_shape, 'style': 'plain' if (inherit and i < 2) else rng.choice(['inner', 'plain']),
             'body': lines, 'kinds': kinds, '_names': [sp[0] for sp in specs] + (members[0]['_names'] if child else []),
             '_specs': [sp[0] for sp in specs] + (members[0]['_specs'] if child else []),
             'tag': tagpool[i] if explicit else None, 'own_auto': own_auto,
             # default engine: a CatchAll field also captures the root key of a path field (C10's business): not combined
             'catchall': (member_shape == 'catchall_only') or ((not inherit) and rng.random() < 0.25
                                                               and not (engine == 'v0' and any('pp.' in ln for ln in lines))),
             'fields': []}
        if rng.random() < 0.15 and not inherit:
            m['own_tag_key'] = rng.choice(['mk', 'kind', '__tag__'])       # the member's own Meta sets a tag key
        if child:
            m['base'] = 0
            m['kinds'] = dict(members[0]['kinds'], **kinds)
        members.append(m)
    unknown = rng.choice([None, None, 'raise'])
    if unknown is None and not inherit:
        for m in members:
            # an init=False field is dumped but not an init argument: only where its key may be ignored on load
            if not m['catchall'] and (rng.random() < 0.2 or m.get('_shape') == 'noinit_only'):
                m['body'] = [ln for ln in m['body'] if ln != 'pass'] + ['z: int = field(default=9, init=False)']
                m['kinds']['z'] = 'noinit'
                m['_specs'] = m['_specs'] + ['z']
    scalars = [sc for sc in ['int', 'str', 'None'] if rng.random() < 0.25]
    args = list(range(n)) + scalars
    rng.shuffle(args)
    tk = rng.choice([None, 'type', 'kind'] + ODD)
    container = {'tag_key': tk, 'auto_assign_tags': root_auto, 'position': rng.choice(POSITIONS + ['nt', 'td', 'ntlist', 'nt', 'td']),
                 'unknown': unknown}
    if level == 'nonrecursive':
        container['recursive'] = False
    if level in ('no_meta', 'holder_nometa_container'):
        container['no_meta'] = True
        container['unknown'] = None
    if level in ('holder', 'holder_nometa_container'):
        container['holder'] = {'tag_key': rng.choice([None, 'hk', 'kind']), 'list': rng.random() < 0.5, 'meta': rng.random() < 0.5}
    for m in members:
        m.pop('_shape', None)
    cfg = {'engine': engine, 'mode': 'roundtrip', 'rich': True, 'members': members, 'order': args, 'level': level,
           'relation': 'rich-identical' if identical else 'rich-mixed',
           'tagging': 'explicit' if all(m['tag'] for m in members) else ('auto' if not any(m['tag'] for m in members) else 'mixed'),
           'doc_type': rng.choice(['dict', 'dict', 'OrderedDict', 'subclass']),
           'history': rng.choice(['none', 'none', 'alone_dump', 'alone_dump_load']),
           'container': container}
    ops = []
    byname = {sp[0]: sp for sp in RICH_POOL}
    allvals = []
    for i, m in enumerate(members):
        vals = {nm: (9 if nm == 'z' else byname[nm][3](rng)) for nm in m['_specs']}
        allvals.append(vals)
    hist_kinds = {'none': [], 'alone_dump': ['alone_dump'], 'alone_dump_load': ['alone_dump', 'alone_load']}[cfg['history']]
    for kd in hist_kinds:
        i = rng.randrange(n)
        ops.append({'op': kd, 'member': i, 'values': allvals[i], 'doc': allvals[i]})
    for i in range(n):
        ops.append({'op': 'roundtrip', 'member': i, 'values': allvals[i]})
    tags = [expected_tag(cfg, i) for i in range(n)]
    t0 = tags[0] or 'x'
    for t in [x for x in ['nope', t0.lower() + '_', t0 + t0] if x not in tags][:2]:
        ops.append({'op': 'retag', 'member': 0, 'values': allvals[0], 'tag': t, 'tag_key': tag_key(cfg), 'expect': 'unknown_tag'})
    ops.append({'op': 'retag', 'member': 0, 'values': allvals[0], 'tag': None, 'tag_key': tag_key(cfg), 'expect': 'no_tag'})

    if n > 1 and tags[1]:
        # K0's dump relabelled with K1's tag must be handled by K1's loader (or rejected by it), never silently stay K0
        ops.append({'op': 'retag', 'member': 0, 'values': allvals[0], 'tag': tags[1], 'tag_key': tag_key(cfg), 'expect': 'other_member', 'other': 1})
    for o_ in ops:
        if o_['op'] == 'retag':
            o_['cur_tag'] = tags[0]
            o_['tag_keys'] = sorted({tag_key(cfg), writer_key(cfg, 0), '__tag__'})
    for m in members:
        m.pop('_names', None); m.pop('_specs', None)
    cfg['ops'] = ops
    return cfg


def gen_ops(cfg, rng):
    ops = []
    members = cfg['members']
    tags = [expected_tag(cfg, i) for i in range(len(members))]
    tk = tag_key(cfg)
    for i, m in enumerate(members):
        vals = values_for(m, rng)
        if cfg['mode'] == 'roundtrip':
            ops.append({'op': 'roundtrip', 'member': i, 'values': vals})
        else:
            doc = dict(vals)
            if tags[i] is not None:
                doc[tk] = tags[i]
            ops.append({'op': 'load', 'doc': doc, 'expect_member': i, 'expect_fields': vals})
        dfl = {f: int(d) for f, _, d in m['fields'] if d is not None}
        if dfl and tags[i] is not None:
            # a document that omits the defaulted fields: the tag alone selects K, K's defaults fill in
            doc = {f: v for f, v in vals.items() if f not in dfl}
            doc[tk] = tags[i]
            ops.append({'op': 'load', 'doc': doc, 'expect_member': i, 'expect_fields': dict({f: v for f, v in vals.items() if f not in dfl}, **dfl)})
    if cfg['mode'] == 'roundtrip':
        for s in cfg['order']:
            if isinstance(s, str) and s in SCALARS:
                ops.append({'op': 'scalar', 'value': SCALARS[s]})
    base = dict(values_for(members[0], rng))
    t0 = rng.choice([t for t in tags if t] or ['x'])
    near = [t0.lower(), t0.upper(), t0.swapcase(), t0[:-1], t0 + t0, t0 + ' ', ' ' + t0, t0.lower() + '_']
    unknown = [t for t in ['K9', 'nope', '', 'Dup2'] if t not in tags]
    near = [t for t in dict.fromkeys(near) if t not in tags]
    for t in rng.sample(unknown, min(1, len(unknown))) + rng.sample(near, min(2, len(near))):
        ops.append({'op': 'load', 'doc': dict(base, **{tk: t}), 'expect': 'unknown_tag'})
    ops.append({'op': 'load', 'doc': dict(base), 'expect': 'no_tag'})
    return ops


def gen_configs(ctx):
    quick = ctx.tier == 'quick'
    rng = ctx.sub_rng('cfg')
    cfgs = []
    n_main = 420 if quick else 3000
    for i in range(n_main):
        cfgs.append(gen_config(rng, rng.choice(['v0', 'v1']), rng.choice(['roundtrip', 'roundtrip', 'loadfirst'])))
    # all argument orders of one family (<= 4 arguments), same family / values / engine
    for _ in range(4 if quick else 25):
        base = gen_config(rng, rng.choice(['v0', 'v1']), 'roundtrip')
        args = base['order'][:4] if len(base['order']) > 4 else base['order']
        if not all(i in args for i in range(len(base['members']))):
            continue
        perms = list(itertools.permutations(args))
        if quick:
            perms = rng.sample(perms, min(6, len(perms)))
        for p in perms:
            c = json.loads(json.dumps(base))
            c['order'] = list(p)
            c['ops'] = [o for o in c['ops'] if not (o['op'] == 'scalar' and type(o['value']).__name__ not in p)]
            cfgs.append(c)
    # rich members: paths, aliases, defaults / factories, skip rules, nested dataclasses and containers, inheritance
    for _ in range(160 if quick else 1500):
        cfgs.append(gen_rich_config(rng, rng.choice(['v0', 'v1'])))
    # container-typed members (list / dict / tuple) beside the dataclasses
    for _ in range(150 if quick else 1200):
        cfgs.append(gen_cont_config(rng, rng.choice(['v0', 'v1'])))
    # several distinct tagged Unions in one field annotation / in several fields of one class
    for _ in range(110 if quick else 900):
        cfgs.append(gen_multi_config(rng, rng.choice(['v0', 'v1', 'v1'])))
    # region F9: equal __name__s
    for _ in range(30 if quick else 200):
        cfgs.append(gen_config(rng, rng.choice(['v0', 'v1']), rng.choice(['roundtrip', 'loadfirst']), equal_names=True))
    seen, out = set(), []
    for c in cfgs:
        k = json.dumps(c, sort_keys=True)
        if k not in seen:
            seen.add(k); out.append(c)
    return out


# --------------------------------------------------------------------------------------
# regions
def shares_name(cfg, i):
    n = cfg['members'][i]['pyname']
    return [j for j, m in enumerate(cfg['members']) if j != i and m['pyname'] == n]


def in_region_F9(cfg, i):
    """member i shares __name__ with another member and (both tags are auto-assigned, or the engine is v1)."""
    others = shares_name(cfg, i)
    if not others:
        return False
    if cfg['engine'] == 'v1':
        return True
    return cfg['members'][i].get('tag') is None and any(cfg['members'][j].get('tag') is None for j in others)


def any_F9(cfg):
    return any(in_region_F9(cfg, i) for i in range(len(cfg['members'])))


def pre_assigned(cfg):
    """auto tags are assigned before the member loaders of the container are generated: only when the container
    itself has auto_assign_tags and was dumped before its first load."""
    # (a Union inside a NESTED class: the dump-side pass caches that class's field parsers - built before the tags were
    #  assigned - so dumping first does not help there)
    return cfg['mode'] == 'roundtrip' and container_auto(cfg) and not cfg['container'].get('holder')


def in_region_F23(cfg, i):
    m = cfg['members'][i]
    return (cfg['engine'] == 'v0' and m.get('tag') is None and not pre_assigned(cfg)
            and (bool(m.get('catchall')) or cfg['container'].get('unknown') == 'raise'))


def in_region_F62(cfg, i):
    """the member's tag comes only from its OWN auto_assign_tags: the dumper emits no tag (unless the container's
    Union parser was built before the member's dump function)."""
    m = cfg['members'][i]
    return (m.get('tag') is None and bool(m.get('own_auto')) and not container_auto(cfg)
            and cfg['mode'] == 'roundtrip')


def in_region_F63(cfg, i):
    """the member's own Meta sets a tag_key different from the one the Union reads."""
    return writer_key(cfg, i) != tag_key(cfg)


# --------------------------------------------------------------------------------------
# direct predicates
def canon_val(v):
    if isinstance(v, bool):
        return {'bool': v}
    if isinstance(v, int):
        return {'int': str(v)}
    if isinstance(v, str):
        return {'str': v}
    if isinstance(v, list):
        return {'list': [canon_val(x) for x in v]}
    raise ValueError(v)


def check_op_rich(cfg, op, r):
    """Direct predicates for members declared with paths / aliases / defaults / skip rules / nested classes /
    inheritance: the tag is written at the top level of the member's dump under the tag key, the dump loads back as
    the same class and an equal instance; a relabelled dump never stays the original class."""
    tk = tag_key(cfg)
    if op['op'] in ('alone_dump', 'alone_load'):
        return None
    i = op['member']
    if op['op'] == 'roundtrip':
        tag = expected_tag(cfg, i)
        d = r.get('dumped', {}).get('dict') if isinstance(r.get('dumped'), dict) else None
        if d is None:
            return ('dump of a K%d instance raised %s: %s' % (i, r.get('err'), (r.get('msg') or '')[:160]), i)
        top = {k['str']: v for k, v in d}
        wk = writer_key(cfg, i)
        if top.get(wk) != {'str': tag}:
            return ('dump of a K%d instance has %r under the tag key %r, expected %r (keys %r)' % (i, top.get(wk), wk, tag, sorted(top)), i)
        if 'err' in r:
            return ('load(dump(k)) of a K%d instance raised %s: %s' % (i, r['err'], (r.get('msg') or '')[:160]), i)
        if r['loaded_member'] != i:
            return ('type(load(dump(k))) is member %r, expected member %d' % (r['loaded_member'], i), i)
        if not r['equal']:
            return ('load(dump(k)) != k: %r' % (r['loaded'],), i)
        return None
    if op['op'] == 'retag':
        if op['expect'] == 'unknown_tag':
            if r.get('err') != 'ParseError':
                return ('unknown tag %r: got %s, expected ParseError' % (op['tag'], r.get('err') or 'a value'), 0)
            want = sorted({t for t in (expected_tag(cfg, j) for j in range(len(cfg['members']))) if t})
            if r.get('valid_tags') != want:
                return ('unknown tag: ParseError lists valid tags %r, expected %r' % (r.get('valid_tags'), want), 0)
            return None
        if op['expect'] == 'no_tag':
            scal = [x for x in cfg['order'] if isinstance(x, str)]
            if cfg['engine'] == 'v1' and any(x in ('str', 'bool') for x in scal):
                return None
            if r.get('err') != 'ParseError':
                return ('no tag: got %s, expected ParseError' % (r.get('err') or 'a value %r' % (r.get('loaded'),)), 0)
            return None
        if op['expect'] == 'other_member':
            # dispatch depends on the tag alone: the other member's loader runs (it may accept or reject the fields)
            if 'err' not in r and r.get('loaded_member') != op['other']:
                return ('K0 dump relabelled %r loaded as member %r, expected member %d or a load error' % (op['tag'], r.get('loaded_member'), op['other']), 0)
            return None
    return None


def check_op(cfg, op, r):
    """None if the property holds for this operation, else (description, member index or None)."""
    tk = tag_key(cfg)
    if cfg.get('rich'):
        return check_op_rich(cfg, op, r)
    if cfg.get('multi'):
        return check_op_multi(cfg, op, r)
    if op['op'] == 'roundtrip':
        i = op['member']
        if 'err' in r:
            return ('dump/load of a K%d instance raised %s: %s' % (i, r['err'], (r.get('msg') or '')[:160]), i)
        tag = expected_tag(cfg, i)
        exp = [[{'str': f}, canon_val(op['values'][f])] for f, _, _ in cfg['members'][i]['fields']]
        if tag is not None:
            exp.append([{'str': tk}, {'str': tag}])
        got = r['dumped'].get('dict')
        if got != exp:
            return ('dump of a K%d instance is %r, expected its fields plus {%r: %r}' % (i, got, tk, tag), i)
        if r['loaded_member'] != i:
            return ('type(load(dump(k))) is member %r, expected member %d' % (r['loaded_member'], i), i)
        if not r['equal']:
            return ('load(dump(k)) != k: %r' % (r['loaded'],), i)
        return None
    if op['op'] in ('alone_dump', 'alone_load'):
        return None            # an earlier use of the member class on its own: no C13 predicate, only history
    if op['op'] == 'scalar':
        if (cfg.get('cont') and cfg['engine'] == 'v1' and isinstance(op['value'], str)
                and any(a in CONT_KINDS and CONT_KINDS[a][0] != 'dict' for a in cfg['order'][:cfg['order'].index('str')])):
            return None        # v1: a list / tuple member BEFORE `str` iterates the string (untagged alternatives are tried in order)
        if 'err' in r or not r.get('equal'):
            return ('scalar member value %r does not survive dump/load: %r' % (op['value'], r), None)
        return None
    if 'expect_member' in op:
        i = op['expect_member']
        if expected_tag(cfg, i) is None:       # untagged member (explicit family without auto tags never generates this)
            return None
        if 'err' in r:
            return ('loading a document tagged %r raised %s: %s' % (op['doc'].get(tk), r['err'], (r.get('msg') or '')[:160]), i)
        if r['loaded_member'] != i:
            return ('document tagged %r loaded as member %r, expected member %d' % (op['doc'].get(tk), r['loaded_member'], i), i)
        fv = r['loaded']['fields']
        for f, v in op['expect_fields'].items():
            if fv.get(f) != canon_val(v):
                return ('field %s loaded as %r, expected %r' % (f, fv.get(f), v), i)
        if 'extra' in fv and fv['extra'] is not None:
            return ('CatchAll captured %r (the tag key must not be captured)' % (fv['extra'],), i)
        return None
    if op.get('expect') == 'unknown_tag':
        if r.get('err') != 'ParseError':
            return ('unknown tag %r: got %s, expected ParseError' % (op['doc'].get(tk), r.get('err') or 'a value'), None)
        want = sorted({t for t in (expected_tag(cfg, i) for i in range(len(cfg['members']))) if t})
        if r.get('valid_tags') != want:
            return ('unknown tag: ParseError lists valid tags %r, expected %r' % (r.get('valid_tags'), want), None)
        if not r.get('renders'):
            return ('unknown tag: ParseError does not render', None)
        return None
    if cfg.get('cont') and op.get('expect') in ('no_tag', 'cont', 'untagged'):
        return check_untagged_cont(cfg, op, r)
    if op.get('expect') == 'no_tag':
        scal = [s for s in cfg['order'] if isinstance(s, str)]
        if cfg['engine'] == 'v1' and any(s in ('str', 'bool') for s in scal):
            return None        # v1: str()/bool() accept a dict: an untagged alternative matches
        if r.get('err') != 'ParseError':
            return ('no tag: got %s, expected ParseError' % (r.get('err') or 'a value %r' % (r.get('loaded'),)), None)
        return None
    return None


# --------------------------------------------------------------------------------------
# Coq side
def coq_jv(v):
    if v is None:
        return 'JNull'
    if isinstance(v, bool):
        return '(JBool %s)' % ('true' if v else 'false')
    if isinstance(v, int):
        return '(JInt (%d)%%Z)' % v
    if isinstance(v, float):
        return '(JFloat 1%Z)'
    if isinstance(v, str):
        return '(JStr %s)' % coq_str(v)
    if isinstance(v, list):
        return '(JList %s)' % coq_list([coq_jv(x) for x in v])
    if isinstance(v, dict):
        return '(JDict %s)' % coq_list(['(%s, %s)' % (coq_str(k), coq_jv(x)) for k, x in v.items()])
    raise ValueError(v)


def coq_member(cfg, i):
    m = cfg['members'][i]
    dfl = coq_list(['(%s, %s)' % (coq_str(f), coq_jv(int(d))) for f, _, d in m['fields'] if d is not None])
    return ('{| m_cid := %d%%N; m_name := %s; m_tag := %s; m_auto := %s; m_fields := %s; m_defaults := %s; m_catchall := %s; m_raise := %s |}'
            % (i, coq_str(m['pyname']), 'None' if m.get('tag') is None else '(Some %s)' % coq_str(m['tag']),
               'true' if m.get('own_auto') else 'false', coq_list([coq_str(f) for f, _, _ in m['fields']]), dfl, 'true' if m.get('catchall') else 'false',
               'true' if cfg['container'].get('unknown') == 'raise' else 'false'))


def coq_args(cfg):
    out = []
    for a in cfg['order']:
        if isinstance(a, int):
            out.append('(AData %s)' % coq_member(cfg, a))
        elif a == 'None':
            out.append('ANone')
        else:
            out.append('(AScalar %s)' % {'int': 'SInt', 'str': 'SStr', 'bool': 'SBool', 'float': 'SFloat'}[a])
    return coq_list(out)


def coq_conf(cfg):
    return '{| u_tag_key := %s; u_auto := %s |}' % (coq_str(tag_key(cfg)), 'true' if cfg['container'].get('auto_assign_tags') else 'false')


def show_jv_py(v):
    if v is None:
        return 'null'
    if isinstance(v, bool):
        return 'true' if v else 'false'
    if isinstance(v, int):
        return 'i' + ('-' if v < 0 else '') + str(abs(v))
    if isinstance(v, float):
        return 'f1'
    if isinstance(v, str):
        return 's' + v.encode().hex()
    if isinstance(v, list):
        return '[' + ','.join(show_jv_py(x) for x in v) + ']'
    return '{' + ','.join(k.encode().hex() + ':' + show_jv_py(x) for k, x in v.items()) + '}'


def uncanon(c):
    if c is None:
        return None
    (k, v), = [(k, v) for k, v in c.items() if k in ('bool', 'int', 'str', 'list', 'dict', 'float')][:1] or [(None, None)]
    if k == 'bool':
        return v
    if k == 'int':
        return int(v)
    if k == 'str':
        return v
    if k == 'float':
        return 1.5
    if k == 'list':
        return [uncanon(x) for x in v]
    if k == 'dict':
        return {a['str']: uncanon(b) for a, b in v}
    raise ValueError(c)


def impl_show(cfg, r, scalar=None):
    """impl outcome in the format of TagUnion.show_res (for the wrapped position)."""
    pos = cfg['container']['position']
    if 'err' in r:
        if r['err'] == 'ParseError':
            if r.get('valid_tags') is not None:
                return 'err:ParseError:tags=' + ','.join(t.encode().hex() for t in r['valid_tags'])
            return 'err:ParseError:nomatch'
        return 'err:' + r['err']
    if r.get('loaded_member') is not None:
        fv = r['loaded']['fields']
        vals = ','.join(k.encode().hex() + ':' + show_jv_py(uncanon(v)) for k, v in fv.items() if k != 'extra')
        extra = ''
        if fv.get('extra') is not None:
            extra = ','.join(k.encode().hex() + ':' + show_jv_py(v) for k, v in uncanon(fv['extra']).items())
        return 'ok:' + POS_FMT[pos] % ('I%d(%s;%s)' % (r['loaded_member'], vals, extra))
    if r.get('loaded') is None:
        return 'ok:' + (POS_FMT[pos] % 'None')
    return 'ok:' + POS_FMT[pos] % ('S(%s)' % show_jv_py(uncanon(r['loaded'])))


def norm_model(s):
    """model string with the valid tags sorted (the implementation's list is compared as a set) and error payloads dropped."""
    if s.startswith('err:ParseError:tags='):
        tags = [t for t in s[len('err:ParseError:tags='):].split(',')]
        return 'err:ParseError:tags=' + ','.join(sorted(tags, key=lambda h: bytes.fromhex(h).decode('utf-8', 'replace')))
    if s in ('err:elem', 'err:ValueError'):
        return 'err:elem'      # default engine: the element conversion of a container member raised (ValueError / TypeError)
    if s.startswith('err:UnknownKeysError') or s.startswith('err:MissingFields'):
        return s.split(':')[0] + ':' + s.split(':')[1]
    return s


def model_exprs(cfg, res, n):
    """(prelude, [(op index, kind, Gallina expression)]) for the operations the model covers; the family is
    defined once in the prelude (constants suffixed with n)."""
    out = []
    pre_lines = ['Definition c_%d : uconf := %s.' % (n, coq_conf(cfg))]
    for i in range(len(cfg['members'])):
        pre_lines.append('Definition m_%d_%d : member := %s.' % (n, i, coq_member(cfg, i)))
    args = []
    cont = bool(cfg.get('cont'))
    for a in cfg['order']:
        if isinstance(a, int):
            x = 'AData m_%d_%d' % (n, a)
        elif a == 'None':
            x = 'ANone'
        elif a in CONT_KINDS:
            args.append('CCont (%s)' % CONT_COQ[a])
            continue
        else:
            x = 'AScalar %s' % {'int': 'SInt', 'str': 'SStr', 'bool': 'SBool', 'float': 'SFloat'}[a]
        args.append('CArg (%s)' % x if cont else x)
    pre_lines.append('Definition a_%d : list %s := %s.' % (n, 'carg' if cont else 'arg', coq_list(args)))
    c, pos = 'c_%d' % n, POS_COQ[cfg['container']['position']]
    pre = 'true' if pre_assigned(cfg) else 'false'
    built = False        # has the container's Union parser been built (an earlier load through the container)?
    if cont:
        loader = ('(load_union_c_v0 no_coerce %s %s a_%d)' % (c, pre, n) if cfg['engine'] == 'v0'
                  else '(load_union_c_v1 no_coerce no_tuple %s a_%d)' % (c, n))
    elif cfg['engine'] == 'v0':
        loader = '(load_union_v0 %s %s a_%d)' % (c, pre, n)
    else:
        loader = '(load_union_v1 no_coerce %s a_%d)' % (c, n)
    for k, (op, r) in enumerate(zip(cfg['ops'], res['ops'])):
        if op['op'] == 'roundtrip':
            if 'dumped' not in r:
                built = True
                continue
            i = op['member']
            vals = coq_list(['(%s, %s)' % (coq_str(f), coq_jv(op['values'][f])) for f, _, _ in cfg['members'][i]['fields']])
            out.append((k, 'dump', 'show_jv (dump_lv %s %s (LInst m_%d_%d %s []))' % (c, 'true' if built else 'false', n, i, vals)))
            nested = uncanon(r['dumped'])
            doc = WRAP[cfg['container']['position']](nested)
            v1_coerces = cfg['engine'] == 'v1' and any(isinstance(a, str) and a != 'None' for a in cfg['order'])
            if cont and not oracle_free(cfg, nested):
                pass
            elif not (v1_coerces and tag_key(cfg) not in nested):     # untagged + v1 scalar loaders: oracle not supplied
                out.append((k, 'load', 'show_res (load_pos %s %s %s)' % (loader, pos, coq_jv(doc))))
            built = True
        elif op['op'] == 'scalar':
            built = True
        elif op['op'] == 'load':
            built = True
            if op.get('expect') == 'no_tag' and cfg['engine'] == 'v1' and any(s in ('str', 'bool', 'float', 'int') for s in cfg['order'] if isinstance(s, str)):
                continue      # v1 coercions of the scalar loaders are an oracle the harness does not supply
            if cont and not oracle_free(cfg, op['doc']):
                continue      # element conversions of values that are not of the declared type: oracle not supplied
            doc = WRAP[cfg['container']['position']](op['doc'])
            out.append((k, 'load', 'show_res (load_pos %s %s %s)' % (loader, pos, coq_jv(doc))))
    return '\n'.join(pre_lines), out


def eval_model(ctx, cfgs, results, limit):
    """Run the model on (at most `limit`) configurations; chunks of <= 200 expressions, each chunk one coqc
    process with the chunk's families in its prelude.  Returns (plan, outputs) or raises."""
    import concurrent.futures as cf
    chunks, cur_pre, cur_plan, cur_exprs = [], [], [], []
    for ci, (cfg, res) in enumerate(zip(cfgs, results)):
        if ci >= limit:
            break
        if res.get('setup') or cfg.get('rich') or cfg.get('multi'):
            continue          # rich members: direct predicates only (the model's members have plain fields)
        pre, items = model_exprs(cfg, res, ci)
        if cur_exprs and len(cur_exprs) + len(items) > 200:
            chunks.append((cur_pre, cur_plan, cur_exprs)); cur_pre, cur_plan, cur_exprs = [], [], []
        cur_pre.append(pre)
        for k, kind, e in items:
            cur_plan.append((ci, k, kind)); cur_exprs.append(e)
    if cur_exprs:
        chunks.append((cur_pre, cur_plan, cur_exprs))

    def one(j):
        pre, plan, exprs = chunks[j]
        return ctx.coq(exprs, ['PyStr', 'TagUnion', 'TagUnionCont'], prelude='\n'.join(pre), tag='cases_%d' % j)
    plan_all, out_all = [], []
    with cf.ThreadPoolExecutor(max_workers=8 if ctx.tier == 'quick' else 14) as ex:
        for j, out in enumerate(ex.map(one, range(len(chunks)))):
            plan_all.extend(chunks[j][1]); out_all.extend(out)
    return plan_all, out_all


# --------------------------------------------------------------------------------------
def run_configs(ctx, cfgs):
    return ctx.impl('c13', {'configs': cfgs, 'jobs': 14}, timeout=1500)['results']


def witness_fails(ctx, cfg):
    res = run_configs(ctx, [cfg])[0]
    if res.get('setup') or 'runner_error' in res:
        return 'setup failed: %r' % (res.get('setup') or res.get('runner_error'),)
    for op, r in zip(cfg['ops'], res['ops']):
        bad = check_op(cfg, op, r)
        if bad:
            return bad[0]
    return None


def op_regions(cfg, op):
    i = op.get('member', op.get('expect_member'))
    out = set()
    if (i is not None and in_region_F9(cfg, i)) or (i is None and any_F9(cfg)):
        out.add(F9_ID)
    if (i is not None and in_region_F23(cfg, i)) or (F9_ID in out and any(in_region_F23(cfg, j) for j in range(len(cfg['members'])))):
        out.add(F23_ID)      # under F9 the loader of another member of the same name is the one that runs
    if i is not None and in_region_F62(cfg, i):
        out.add(F62_ID)
    if cfg.get('cont') and in_region_F96(cfg) and isinstance(op.get('doc', {}), dict):
        out.add(F96_ID)
    return out


def run(ctx):
    resolved = set()
    for f in ctx.findings():
        w = f.get('witness')
        if not isinstance(w, dict) or 'cfg' not in w or f['id'] not in (F9_ID, F23_ID, F62_ID, F63_ID, F96_ID):
            continue
        cfg = dict(w['cfg']); cfg.setdefault('mode', 'loadfirst' if cfg['ops'][0]['op'] == 'load' else 'roundtrip')
        bad = witness_fails(ctx, cfg)
        ctx.count(1, key='witness:' + f['id'])
        if bad is None:
            resolved.add(f['id'])      # repaired: the faithful model no longer applies inside that region
        ctx.known_finding(f['id'], still_fails=bad is not None,
                          what='%s [observed: %s]' % (f['what'][:300], (bad or 'property holds')[:160].replace('\n', ' ')))

    cfgs = gen_configs(ctx)
    results = run_configs(ctx, cfgs)

    # ---- model ----
    for res in results:
        if 'runner_error' in res:
            raise RuntimeError('c13 runner failed: %s' % res['runner_error'])
    model = plan = None
    try:
        plan, model = eval_model(ctx, cfgs, results, limit=10 ** 9 if ctx.tier == 'quick' else 1500)
    except Exception as e:  # noqa
        ctx.broken_tie('model evaluation failed: %s' % str(e)[:600])

    n_ties = 0
    for ci, (cfg, res) in enumerate(zip(cfgs, results)):
        key = json.dumps(cfg, sort_keys=True)
        ctx.count(1, key=key, nontrivial=True)
        ctx.hist('engine/mode', '%s/%s' % (cfg['engine'], cfg['mode']))
        ctx.hist('members', len(cfg['members']))
        if cfg.get('rich'):
            ctx.hist('rich_config_level', cfg.get('level'))
            for m_ in cfg['members']:
                for line in m_.get('body', []):
                    for kw_ in ('KeyPath', 'path_field', 'AliasPath', 'Alias(', 'json_key', 'json_field', 'skip_if_field', 'default_factory', 'Inner', 'init=False'):
                        if kw_ in line:
                            ctx.hist('rich_declarations', kw_.rstrip('('))
                if m_.get('base') is not None:
                    ctx.hist('rich_declarations', 'inherits member')
        if cfg.get('multi'):
            ctx.hist('unions in one class', '%s/%d unions/sizes %s/%s' % (cfg['layout'], len(cfg['unions']),
                                                                       'same' if len({len(u) for u in cfg['unions']}) == 1 else 'different', cfg['relation']))
        ctx.hist('relation', cfg['relation'])
        ctx.hist('tagging', cfg['tagging'])
        ctx.hist('position', cfg['container']['position'])
        ctx.hist('scalars', len([a for a in cfg['order'] if isinstance(a, str) and a not in CONT_KINDS]))
        for a_ in cont_members(cfg):
            ctx.hist('container members', '%s/%s' % (cfg['engine'], a_))
        ctx.hist('history', cfg['history'])
        ctx.hist('doc_type', cfg['doc_type'])
        for m_ in cfg['members']:
            ctx.hist('tag x member auto x container auto', '%s/%s/%s' % ('explicit' if m_.get('tag') else 'none', bool(m_.get('own_auto')),
                                                                        bool(cfg['container'].get('auto_assign_tags'))))
        ctx.hist('tag_key', 'default' if cfg['container']['tag_key'] is None else ('odd' if cfg['container']['tag_key'] in ODD else 'plain'))
        if res.get('setup'):
            # class definition / Meta binding must not fail for a well-formed family
            ctx.violation('defining the family failed: %s %s' % (res['setup']['err'], res['setup'].get('msg')), {'kind': 'config', 'cfg': cfg})
            continue
        for op, r in zip(cfg['ops'], res['ops']):
            ctx.count(1)
            bad = check_op(cfg, op, r)
            if not bad:
                continue
            what, i = bad
            if i is not None and in_region_F9(cfg, i) and ctx.is_open_region(F9_ID):
                ctx.hist('known_region', F9_ID)
            elif i is not None and in_region_F23(cfg, i) and ctx.is_open_region(F23_ID):
                ctx.hist('known_region', F23_ID)
            elif i is not None and in_region_F62(cfg, i) and op['op'] == 'roundtrip' and ctx.is_open_region(F62_ID):
                ctx.hist('known_region', F62_ID)
            elif i is not None and in_region_F63(cfg, i) and ctx.is_open_region(F63_ID):
                ctx.hist('known_region', F63_ID)
            elif (cfg.get('cont') and in_region_F96(cfg) and ctx.is_open_region(F96_ID)
                  and (op['op'] == 'roundtrip' or 'expect_member' in op or op.get('expect') == 'unknown_tag')):
                ctx.hist('known_region', F96_ID)
            elif i is None and any_F9(cfg) and op.get('expect') == 'unknown_tag' and ctx.is_open_region(F9_ID):
                ctx.hist('known_region', F9_ID)
            else:
                ctx.violation('%s engine, %s, position %s: %s' % (cfg['engine'], cfg['mode'], cfg['container']['position'], what),
                              {'kind': 'config', 'cfg': dict(cfg, ops=[op])})
    # ---- correspondence ----
    if model is not None:
        for (ci, k, kind), m in zip(plan, model):
            cfg, r = cfgs[ci], results[ci]['ops'][k]
            if resolved & op_regions(cfg, cfg['ops'][k]):
                ctx.hist('model_comparison_skipped_resolved_finding', sorted(resolved & op_regions(cfg, cfg['ops'][k]))[0])
                continue
            ctx.traces_validated += 1
            if kind == 'dump':
                got = show_jv_py(uncanon(r['dumped']))
                same = (got == m)
            else:
                got = impl_show(cfg, r)
                same = (norm_model(got) == norm_model(m)) or (m == 'err:elem' and got in ('err:ValueError', 'err:TypeError'))
            if not same:
                n_ties += 1
                ctx.disagreements_checked += 1
                if n_ties <= 5:
                    ctx.broken_tie('TagUnion model and implementation disagree (%s)' % kind,
                                   {'cfg': dict(cfg, ops=[cfg['ops'][k]]), 'impl': got, 'model': m})
    for c, r in list(zip(cfgs, results))[:3]:
        ctx.sample({'config': {k: v for k, v in c.items() if k != 'ops'}, 'ops': c['ops'][:2],
                    'impl_outcomes': [{k: v for k, v in x.items() if k != 'msg'} for x in r.get('ops', [])][:2]})
    ctx.notes.append('each of the %d configurations ran in its own interpreter' % len(cfgs))


def replay(ctx, obj):
    if 'cfg' in obj:
        cfg = dict(obj['cfg']); cfg.setdefault('mode', 'loadfirst' if cfg['ops'][0]['op'] == 'load' else 'roundtrip')
        res = run_configs(ctx, [cfg])[0]
        print(res.get('source', ''))
        if res.get('setup'):
            print('setup failed: %r' % (res['setup'],))
            return False
        ok = True
        for op, r in zip(cfg['ops'], res['ops']):
            bad = check_op(cfg, op, r)
            print('%s -> %s' % (json.dumps(op)[:200], bad[0] if bad else 'property holds'))
            ok = ok and not bad
        return ok
    print('replay object names a broken tie, not an input: %s' % json.dumps(obj)[:1500])
    return False
