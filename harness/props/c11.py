"""C11 — dump omits exactly the fields selected by skip rules, exclude and dump=False.

Theorems: coq/props/C11.v (model coq/model/SkipModel.v).
Correspondence (tie C), all against the implementation in a fresh interpreter:
  * sem:    Python's ==, !=, <, <=, >, >=, is, is not, truthiness and Condition.evaluate
            on pairs of pool values  vs  SkipModel.evaluate;  hashability, is_builtin,
            truthiness, and ast.parse(repr(v)) vs SkipModel.repr_expr per value;
  * source: the source of every generated cls_asdict (verification hook H1) parsed with
            `ast`  vs  SkipModel.gen_prog, and the closure names vs gen_closure;
  * keys:   the outcome of every to_dict/asdict call  vs  SkipModel.cls_asdict.
Direct predicate (every call of every generated case): key list == independent
reference selection computed with Python's operator module (Condition.evaluate is
itself compared with the operator module); kept values encoded like in a twin class
without any skip configuration.
"""
import json, math, itertools, os, sys
from lib.coqrun import coq_str, coq_list

sys.path.insert(0, os.path.join(os.path.dirname(os.path.dirname(os.path.abspath(__file__))), 'impl'))
from c11_ast import float_me, cname, bin_   # noqa: E402  (pure helpers, no library import)


F85 = 'F85-v1-skip-init-false'
F85_OPEN = [False]          # set in run(): is the finding listed as open?


def f85_field(c, f):
    """v1 engine: Alias(skip=True) on a field declared init=False (region of finding F85-v1-skip-init-false)"""
    return bool(c['meta'].get('v1')) and not f['dump'] and f.get('dump_via') in ('v1_field', 'v1_annotated') \
        and f.get('init') is False


def model_dumped(c, f):
    """does the CURRENT implementation dump this field at all? (faithful model: while that finding is open, the
    skip=True of an init=False field is ignored)"""
    return f['dump'] or (F85_OPEN[0] and f85_field(c, f))


META = {
    'id': 'C11',
    'title': 'Dump omits exactly the fields selected by skip rules, exclude and dump=False',
    'level': 'proof',
    'technique': ('Coq proof (induction over the field list of the generated `_skip_i` program; structural induction over '
                  'comparison values for the inlined repr) on a hand-written Gallina model + differential correspondence '
                  'with the implementation (operator semantics, generated source and closure binding via hook H1, dump '
                  'outcomes); `_locals` of a whole class as a threaded state with a freshness invariant; tie T for the tail '
                  'of get_skip_if_condition'),
    'design_ref': 'DESIGN.md section 4 C11',
    'theorems': ['C11_cond_ops_table', 'C11_cond_ops_complete', 'C11_cond_compiled', 'C11_cond_compiled_in_context',
                 'C11_inlined_denoted', 'C11_closure_region', 'C11_cond_text_context_free', 'C11_keys',
                 'C11_keys_bookkeeping', 'C11_always_compiles', 'C11_ref_select_spec',
                 'C11_locals_own_value', 'C11_locals_source_binder', 'C11_binder_source_tie', 'C11_locals_generator', 'C11_keys_locals',
                 'C11_keys_identity', 'C11_evaluate_id_decided', 'C11_dedup_by_eq_refuted'],
    'tables': ['CondOps'],
    'level_text': ('Proved in Coq for ALL classes (any number of distinct fields, each with/without dump key, default, own '
                   'condition), all Meta settings, all instances, all exclude arguments and all skip_defaults arguments: the '
                   'generated cls_asdict (modelled as the statement list the generator emits, run by an interpreter) appends '
                   'exactly the reference selection computed with Condition.evaluate; for every operator of the table read '
                   'from models.py and EVERY comparison value (hashable or not, finite or not, opaque objects included) the '
                   'compiled text evaluates like Condition.evaluate and always compiles (model of the code after the F6 and '
                   'F20 repairs).  The closure environment of a whole class: `_locals` is a dict threaded through the generator '
                   '(Meta.skip_if, Meta.skip_defaults_if, then per field default and own condition); for EVERY class and every '
                   'sound binder each name the generated text mentions denotes the very object its condition was built with '
                   '(content and identity; freshness invariant by induction over the field list); the source\'s binder is '
                   'sound and is what the translated tail of get_skip_if_condition means; with identified objects IS/IS_NOT '
                   'select exactly the fields holding the condition\'s own object (no Unspecified outcome); a generator that '
                   'de-duplicates closure values by == is refuted (IS(0) vs IS(0.0); two equal tuples).'),
    'level_note': ('Trusted: Coq kernel + vm_compute; the hand-written model (values: None/bool/int/float as m*2^e, nan, inf, '
                   '-0.0/str/tuple/list/dict/opaque tokens; Python comparison semantics; the generator transcribed from '
                   'dumpers.py/environ/dumpers.py); the step text -> AST of repr(v) (validated against ast.parse on every run); '
                   'the harness. `is` between a literal and a non-singleton object is modelled as Unspecified (never reached '
                   'by a generated function: non-singletons under is/is not are closure-bound, C11_keys_identity). The recognizer '
                   'binder_of_src (which statement lists after the early returns of get_skip_if_condition mean bind_own) and '
                   'the AST translator CondOps.py are trusted.'),
    'rule': ('sem: pool of ~85 values (all types incl. nan, +-inf, -0.0, quotes, nested, unhashable tuples, Enum/objects/classes/'
             'builtin functions) + random values; pairs sampled (quick) or exhaustive (thorough) x 10 operators. '
             'cond: single-field classes over operator x value x placement (skip_if_field, Annotated, Meta.skip_if, '
             'Meta.skip_defaults_if) x wizard (JSONWizard, plain dataclass + DumpMeta, EnvWizard) with instances holding the very '
             'object, an equal copy, and other values. cls: random classes of 1-6 fields x ALL subsets E (+ None, + a foreign '
             'name) x s in {unset, True, False} x 2 instances, with dataclass declaration features (init=False with default / '
             'default_factory / assigned in __post_init__, kw_only or positional, repr/compare=False, fields inherited from a base '
             'dataclass, ClassVar, InitVar, frozen, slots, default_factory returning the same or a new object, values omitted from '
             'the constructor, values equal to the default but of another type 1/1.0/True, 0/-0.0/False). decl: classes built '
             'around those features x 3 skip_defaults settings. shared: ONE Condition object reused by 4 classes at different '
             'field positions / as Meta.skip_if / Meta.skip_defaults_if, dumped in sequence in one interpreter. former_f20: every '
             'former F6/F20 value shape. alias: classes with 2-4 conditions whose values are pairwise == but distinct objects '
             '(0/0.0/False/-0.0/Decimal(0), equal tuples/lists/dicts/strings built separately, always-equal objects, one cached '
             'object under two conditions) over skip_if_field / Annotated / Meta.skip_if / Meta.skip_defaults_if x 3 wizards, '
             'identity operators dominating, instances where every field holds the very object of condition j + mixed ones; '
             'number/names/binding of the `_skip_*` locals compared with SkipLocals.gen_locals and the documented scheme. history: nested dataclass without rules + enclosing class with Meta rules, '
             'orders enclosing>nested>enclosing and nested>enclosing>nested in one interpreter, every observation checked with '
             'the rules applying there (own / own / cascaded). A case is one to_dict call; non-trivial when the class has a '
             'condition or a default and >= 2 fields or a non-empty E; distinct = distinct (class, instance, E, s).'),
    'trusted_base': ['model coq/model/SkipModel.v + SkipLocals.v; nested shared nan objects inside containers are outside the '
                     'model (generators never share them); Decimal and objects with a custom __eq__ are outside the value model '
                     '(direct predicate + source/locals ties only)',
                     'interpretation: with Meta.skip_defaults_if set, the condition replaces the equality-with-default test '
                     '(README: "Skip fields with default values matching a specific condition")'],
    'assumptions': ['field names are distinct (dataclass invariant, hypothesis NoDup of C11_keys)'],

}

OPS = ['==', '!=', '<', '<=', '>', '>=', 'is', 'is not', '+', '!']
COQ_OP = {'==': 'OpEq', '!=': 'OpNe', '<': 'OpLt', '<=': 'OpLe', '>': 'OpGt', '>=': 'OpGe', 'is': 'OpIs',
          'is not': 'OpIsNot', '+': 'OpTruthy', '!': 'OpFalsy'}
TOKK = {'enum': 'KEnum', 'user': 'KUser', 'bareobj': 'KBareObj', 'type': 'KType', 'fn': 'KBuiltinFn'}


# ------------------------------------------------------------------ descriptors
class Tok:
    def __init__(self, k, i):
        self.k, self.i = k, i


def D(x):
    """python literal (with Tok) -> value descriptor"""
    if x is None:
        return {'t': 'none'}
    if x is Ellipsis:
        return {'t': 'ell'}
    if isinstance(x, bool):
        return {'t': 'bool', 'v': x}
    if isinstance(x, int):
        return {'t': 'int', 'v': str(x)}
    if isinstance(x, float):
        if math.isnan(x):
            return {'t': 'float', 'v': 'nan'}
        if math.isinf(x):
            return {'t': 'float', 'v': 'inf' if x > 0 else '-inf'}
        return {'t': 'float', 'v': x.hex()}
    if isinstance(x, str):
        return {'t': 'str', 'v': x}
    if isinstance(x, tuple):
        return {'t': 'tuple', 'v': [D(y) for y in x]}
    if isinstance(x, list):
        return {'t': 'list', 'v': [D(y) for y in x]}
    if isinstance(x, dict):
        return {'t': 'dict', 'v': [[D(k), D(v)] for k, v in x.items()]}
    if isinstance(x, Tok):
        return {'t': 'tok', 'k': x.k, 'id': x.i}
    raise TypeError(x)


nan, inf = float('nan'), float('inf')
POOL_PY = [
    None, Ellipsis, True, False,
    0, 1, -1, 2, 5, -7, 256, 257, 10 ** 10, 10 ** 10, -10 ** 20,
    0.0, -0.0, 1.0, 1.5, 1.5, -2.5, 0.1, 1e300, -1e-300, nan, nan, inf, -inf,
    '', 'a', 'b', 'ab', 'ab', "it's", 'say "hi"', 'a\\b\n', 'é', '\'"', 'None',
    (), (1,), (1, 2), (1, 2), (1, 'a'), (2, 'b'), (1.0, 2), ((1, 2), 3), (None, True), (-1, -0.5, 'x\''),
    (1, [2]), ([],), (nan,), (-inf, 1), (Tok('enum', 0),), (1, Tok('bareobj', 0)),
    [], [1], [1], [1, 2], ['a'], [[1]], [1.0, 2], [None], [-3, (1,)],
    {}, {'a': 1}, {1: 'x'}, {True: 'x'}, {'a': [1]}, {'a': 1, 'b': 2}, {'b': 2, 'a': 1}, {(1, 2): None},
    Tok('enum', 0), Tok('enum', 1), Tok('enum', 3), Tok('user', 0), Tok('user', 1), Tok('bareobj', 0), Tok('bareobj', 1),
    Tok('type', 0), Tok('type', 1), Tok('fn', 0), Tok('fn', 1),
]
POOL = [D(x) for x in POOL_PY]


def d_singleton(d):
    return d['t'] in ('none', 'ell', 'bool')


def d_hashable(d):
    if d['t'] in ('list', 'dict'):
        return False
    if d['t'] == 'tuple':
        return all(d_hashable(x) for x in d['v'])
    return True


def d_nonfinite(d):
    return d['t'] == 'float' and d['v'] in ('nan', 'inf', '-inf')


def d_inlined(d):
    """transcription of the documented is_builtin rule (after the F6 repair); since the F20 repair
    this is necessary but not sufficient for a value to be inlined, see d_spliced"""
    if d_singleton(d):
        return True
    if not d_hashable(d) or d_nonfinite(d):
        return False
    return not (d['t'] in ('inst', 'dec', 'eqall') or (d['t'] == 'tok' and d['k'] in ('enum', 'user')))


def d_outside(d):
    """values outside the Coq value model: decimal.Decimal, objects whose __eq__ is always True
    (they take part in the direct predicate and in the source / binding ties only)"""
    if d['t'] in ('dec', 'eqall'):
        return True
    if d['t'] in ('tuple', 'list'):
        return any(d_outside(x) for x in d['v'])
    if d['t'] == 'dict':
        return any(d_outside(k) or d_outside(v) for k, v in d['v'])
    return False


def d_has_tok(d):
    if d['t'] in ('tok', 'inst', 'dec', 'eqall'):
        return True
    if d['t'] in ('tuple', 'list'):
        return any(d_has_tok(x) for x in d['v'])
    if d['t'] == 'dict':
        return any(d_has_tok(k) or d_has_tok(v) for k, v in d['v'])
    return False


def d_has_nonfinite(d):
    if d_nonfinite(d):
        return True
    if d['t'] in ('tuple', 'list'):
        return any(d_has_nonfinite(x) for x in d['v'])
    if d['t'] == 'dict':
        return any(d_has_nonfinite(k) or d_has_nonfinite(v) for k, v in d['v'])
    return False


def d_nested_nan(d):
    """a container holding a nan somewhere (its `==` depends on whether the nan OBJECT is shared)"""
    if d['t'] in ('tuple', 'list'):
        return any(x == {'t': 'float', 'v': 'nan'} or d_nested_nan(x) for x in d['v'])
    if d['t'] == 'dict':
        return any(x == {'t': 'float', 'v': 'nan'} or d_nested_nan(x) for kv in d['v'] for x in kv)
    return False


def d_spliced(op, d):
    """is repr(val) spliced into the generated source? (rule of get_skip_if_condition after the F20 repair)"""
    return d_inlined(d) and (d_singleton(d) or (op not in ('is', 'is not') and d['t'] in ('int', 'str', 'float')))


def cond_f20a(c):
    """FORMER F20 shape (kept in the generators as regression anchors): passes is_builtin although
    repr(val) does not denote val: 'syntax' | 'name' | None"""
    if c is None or c['op'] in ('+', '!'):
        return None
    d = c['val']['d']
    if not d_inlined(d):
        return None
    if d_has_tok(d):
        return 'syntax'
    if d_has_nonfinite(d):
        return 'name'
    return None


def cond_f20b(c):
    """FORMER F20 shape: identity test against a non-singleton builtin value"""
    if c is None or c['op'] not in ('is', 'is not'):
        return False
    d = c['val']['d']
    return d_inlined(d) and not d_singleton(d) and d['t'] != 'tok'


# ------------------------------------------------------------------ Coq printers
def cz(n):
    return '(%d)%%Z' % n


def cv(d):
    t = d['t']
    if t == 'none':
        return 'VNone'
    if t == 'ell':
        return 'VEllipsis'
    if t == 'bool':
        return '(VBool %s)' % ('true' if d['v'] else 'false')
    if t == 'int':
        return '(VInt %s)' % cz(int(d['v']))
    if t == 'float':
        v = d['v']
        if v == 'nan':
            return '(VFloat FNan)'
        if v in ('inf', '-inf'):
            return '(VFloat (FInf %s))' % ('true' if v[0] == '-' else 'false')
        x = float.fromhex(v)
        if x == 0 and math.copysign(1.0, x) < 0:
            return '(VFloat FNegZero)'
        m, e = float_me(x)
        return '(VFloat (FFin %s %s))' % (cz(m), cz(e))
    if t == 'str':
        return '(VStr %s)' % coq_str(d['v'])
    if t in ('tuple', 'list'):
        return '(%s %s)' % ('VTuple' if t == 'tuple' else 'VList', coq_list([cv(x) for x in d['v']]))
    if t == 'dict':
        return '(VDict %s)' % coq_list(['(%s, %s)' % (cv(k), cv(v)) for k, v in d['v']])
    if t == 'tok':
        return '(VTok %s %s)' % (TOKK[d['k']], cz(d['id']))
    if t == 'inst':          # instance of the nested dataclass (eq=False): an object with identity
        return '(VTok KUser %s)' % cz(1000 + d['i'])
    if t in ('dec', 'eqall'):  # outside the value model; for the GENERATOR they are objects of a non-builtin class
        return '(VTok KUser %s)' % cz(2000 + d.get('id', 0))
    raise ValueError(t)


def clv(lv, ids):
    d = lv['d']
    if d_singleton(d) or d['t'] in ('tok', 'inst'):
        return '(LV None %s)' % cv(d)
    if d['t'] in ('dec', 'eqall'):       # a token per OBJECT (generator view only, see d_outside)
        return '(LV None (VTok KUser %s))' % cz(3000 + ids[str(lv['l'])])
    return '(LV (Some %s) %s)' % (cz(ids[str(lv['l'])]), cv(d))


def ccond(c, ids):
    if c is None:
        return 'None'
    val = '(LV None VNone)' if c['op'] in ('+', '!') else clv(c['val'], ids)
    return '(Some (Cond %s %s))' % (COQ_OP[c['op']], val)


def cmeta(m, ids):
    return '(CM %s %s %s)' % ('true' if m.get('skip_defaults') else 'false', ccond(m.get('skip_if'), ids),
                              ccond(m.get('skip_defaults_if'), ids))


def cfields(c, inst, ids):
    out = []
    for f, lv in zip(c['fields'], inst):
        out.append('(FD %s %s %s %s %s)' % (
            coq_str(f['name']), ('(Some %s)' % coq_str(f['key'])) if model_dumped(c, f) else 'None',
            ('(Some %s)' % clv(f['default'], ids)) if f['default'] is not None else 'None',
            ccond(f.get('cond'), ids), clv(lv, ids)))
    return coq_list(out)


def cE(E):
    return 'None' if E is None else '(Some %s)' % coq_list([coq_str(x) for x in E])


CS = {None: 'SUnset', True: 'STrue', False: 'SFalse'}

PRELUDE = '''
Definition show_calls (m : cmeta) (fs : list fdesc) (Es : list (option (list pstr))) (ss : list sarg) : pstr :=
  join (S "|") (flat_map (fun E => map (fun s => show_keys (cls_asdict m fs E s)) ss) Es).
Definition show_clo (l : list (name * lval)) : pstr := join (S ",") (map (fun p => show_expr (ELocal (fst p))) l).
Definition show_gen (m : cmeta) (fs : list fdesc) : pstr :=
  show_prog (fst (gen_st bind_own m fs)) ++ S "#" ++ show_clo (gen_locals bind_own m fs) ++ S "#" ++
  (if cls_safe m fs then S "safe" else S "unsafe") ++ S "#" ++
  show_locals (filter (fun p => skip_prefixed (fst p)) (gen_locals bind_own m fs)) ++ S "#" ++
  (if own_valueb bind_own m fs then S "own" else S "shared").
Definition show_sem (a b : lval) : pstr :=
  join (S ",") (map (fun op => show_rbool (evaluate (Cond op b) a)) all_cops).
Definition show_val (v : value) : pstr :=
  (if hashable v then S "H" else S "h") ++ (if is_builtin v then S "B" else S "b") ++
  (if truthy v then S "T" else S "t") ++ S ":" ++ show_expr (repr_expr v).
'''


# ------------------------------------------------------------------ generators
NAMES = ['fa', 'fb', 'fc', 'fd', 'fe', 'ff', 'my_val', 'other_fld', 'xx', 'some_long_name']


def ref_key(name, wizard):
    """documented default key: camelCase for JSONWizard / asdict, the name itself for EnvWizard"""
    if wizard == 'env':
        return name
    ws = name.split('_')
    return ws[0] + ''.join(w[0].upper() + w[1:] for w in ws[1:])


def gen_value(r, depth=0):
    """random value descriptor beyond the fixed pool"""
    k = r.random()
    if k < 0.25:
        return D(r.choice([r.randint(-3, 3), r.randint(-10 ** 6, 10 ** 6), r.randint(-2 ** 70, 2 ** 70)]))
    if k < 0.45:
        return D(r.choice([r.uniform(-3, 3), float(r.randint(-4, 4)), r.uniform(-1, 1) * 10 ** r.randint(-30, 30),
                           r.randint(-8, 8) / 4]))
    if k < 0.6:
        return D(''.join(r.choice('ab\'"\\ \néZ0') for _ in range(r.choice([0, 1, 2, 3, 5]))))
    if k < 0.66:
        return D(r.choice([None, True, False]))
    if depth >= 2:
        return D(r.randint(0, 3))
    n = r.choice([0, 1, 2, 3])
    items = [gen_value(r, depth + 1) for _ in range(n)]
    if any(d_has_nonfinite(x) for x in items):      # never share / nest nan by accident
        items = [x for x in items if not d_has_nonfinite(x)]
    if k < 0.8:
        return {'t': 'tuple', 'v': items}
    if k < 0.92:
        return {'t': 'list', 'v': items}
    keys = []
    for x in items:
        if d_hashable(x) and not d_has_nonfinite(x) and all(json.dumps(x) != json.dumps(y) for y in keys):
            keys.append(x)
    # keys must be pairwise unequal in Python (1 == True == 1.0): keep one numeric key at most
    out, seen_num = [], False
    for kx in keys:
        if kx['t'] in ('bool', 'int', 'float'):
            if seen_num:
                continue
            seen_num = True
        out.append([kx, gen_value(r, depth + 1)])
    return {'t': 'dict', 'v': out}


class Labels:
    def __init__(self):
        self.n = 0

    def new(self, d):
        self.n += 1
        return {'l': self.n, 'd': d}


CLOSURE_BIAS = [False]


def pick_val(r, f20_ok):
    """comparison value for a condition: mostly clean, sometimes inside the F20 region"""
    while True:
        d = r.choice(POOL) if r.random() < 0.8 else gen_value(r)
        if CLOSURE_BIAS[0] and d_inlined(d) and r.random() < 0.85:
            continue                      # this class prefers values bound through closure variables
        c = {'op': '==', 'val': {'l': 0, 'd': d}}
        return d


def gen_cond(r, L, f20_ok=False, ops=None):
    op = r.choice(ops or OPS)
    if op in ('+', '!'):
        return {'op': op, 'val': None, 'wrap': r.random() < 0.5}
    d = pick_val(r, f20_ok)
    if op in ('<', '<=', '>', '>=') and r.random() < 0.7:      # mostly orderable values for the ordering operators
        while d['t'] not in ('bool', 'int', 'float', 'str', 'tuple', 'list'):
            d = pick_val(r, f20_ok)
    c = {'op': op, 'val': L.new(d), 'wrap': r.random() < 0.5}
    return c


def comparable_value(r, d):
    """a value that Python can order against d (same kind), or None"""
    t = d['t']
    if t in ('bool', 'int', 'float'):
        return D(r.choice([0, 1, -1, 5, 256, 257, 2.5, -0.0, 0.1, 1e300, inf, -inf, nan, True, False, 10 ** 10, -7, -10 ** 20]))
    if t == 'str':
        return D(r.choice(['', 'a', 'ab', 'b', '\u00e9', "it's", 'Z', 'a\\b']))
    if t in ('tuple', 'list'):
        items = list(d['v'])
        u = r.random()
        if items and u < 0.3:
            items = items[:-1]
        elif u < 0.5:
            items = items + [D(r.choice([0, 1, 'a']))]
        elif items:
            last = comparable_value(r, items[-1])
            if last is not None and not d_has_nonfinite(last):
                items = items[:-1] + [last]
        return {'t': t, 'v': items}
    return None


def ordering_anchor(conds):
    for k in conds:
        if k is not None and k['op'] in ('<', '<=', '>', '>=') and k['val'] is not None:
            return k['val']['d']
    return None


def related_values(r, L, anchors, n):
    """n located values: the very anchor objects, equal copies, then other values"""
    out = []
    for a in anchors:
        out.append(a)                       # same object (same label)
        out.append(L.new(a['d']))           # equal copy
    while len(out) < n + 2 * len(anchors):
        out.append(L.new(r.choice(POOL) if r.random() < 0.75 else gen_value(r)))
    return out


def cond_cases(ctx):
    """single-field classes: operator x value x placement x wizard"""
    r = ctx.sub_rng('cond')
    cases = []
    n = 150 if ctx.tier == 'quick' else 1500
    combos = [(op, i) for op in OPS[:8] for i in range(len(POOL))]
    r.shuffle(combos)
    combos = (combos * 3)[:n] + [(op, None) for op in ('+', '!')] * 3
    for op, i in combos:
        L = Labels()
        if op in ('+', '!'):
            cond = {'op': op, 'val': None, 'wrap': r.random() < 0.5}
        else:
            d = POOL[i] if r.random() < 0.85 else gen_value(r)
            cond = {'op': op, 'val': L.new(d), 'wrap': r.random() < 0.5}
        place = r.choice(['field', 'annotated', 'meta_skip_if', 'meta_sdi'])
        wizard = r.choice(['json', 'json', 'json', 'plain', 'env'])
        name = r.choice(NAMES)
        anchors = [cond['val']] if cond['val'] is not None else []
        f = {'name': name, 'key': ref_key(name, wizard), 'dump': True, 'default': None, 'cond': None, 'place': None}
        meta = {}
        if place in ('field', 'annotated'):
            f['cond'], f['place'] = cond, place
            if r.random() < 0.4:
                f['default'] = L.new(r.choice(POOL))
        elif place == 'meta_skip_if':
            meta['skip_if'] = cond
        else:
            meta['skip_defaults_if'] = cond
            f['default'] = L.new(r.choice(POOL))
            anchors = anchors + [f['default']]
        vals = related_values(r, L, anchors, 3)
        oa = ordering_anchor([cond])
        if oa is not None:
            vals += [L.new(x) for x in (comparable_value(r, oa) for _ in range(4)) if x is not None]
        cases.append({'stream': 'cond', 'wizard': wizard, 'fields': [f], 'meta': meta,
                      'instances': [[v] for v in vals], 'Es': [None], 'ss': [None] if place != 'meta_sdi' else [None, False]})
    return cases


def decl_features(r, f):
    """dataclass declaration features of one field (not for EnvWizard)"""
    if r.random() < 0.22:
        f['init'] = False              # with default, with default_factory, or assigned in __post_init__ only
    if r.random() < 0.1:
        f['repr'] = False
    if r.random() < 0.1:
        f['compare'] = False


def class_shape(r, wizard, fields):
    """class-level declaration features; may reorder `fields` (in place) so that the class is legal"""
    if wizard == 'env':
        return {}
    shape = {'kw_only': r.random() < 0.6, 'frozen': r.random() < 0.15, 'slots': r.random() < 0.15,
             'classvar': r.random() < 0.25, 'initvar': r.random() < 0.25,
             'n_base': r.choice([0, 0, 0, 1, 2, 3]) if len(fields) > 1 else 0}
    shape['n_base'] = min(shape['n_base'], len(fields) - 1)
    if not shape['kw_only']:
        # positional constructor arguments: those without a default first
        fields.sort(key=lambda f: 1 if (f.get('init', True) and f['default'] is not None) else
                    (0 if f.get('init', True) else 2))
    return shape


def equal_variants(d):
    """values equal to d but of another type / another object: 1 / 1.0 / True, 0 / 0.0 / -0.0 / False"""
    if d['t'] in ('bool', 'int', 'float') and not d_nonfinite(d):
        x = {'bool': lambda: int(d['v']), 'int': lambda: int(d['v']), 'float': lambda: float.fromhex(d['v'])}[d['t']]()
        out = []
        if x == int(x) and abs(x) < 2 ** 53:
            out += [D(int(x)), D(float(x))]
            if x in (0, 1):
                out.append(D(bool(x)))
            if x == 0:
                out.append(D(-0.0))
        return [v for v in out if v != d]
    return []


def default_like(r, L, f):
    """an instance value related to the field's default: the default itself by omission (the field
    is not passed to the constructor), the very object, an equal copy, an equal value of another type"""
    d = f['default']
    u = r.random()
    ev = equal_variants(d['d'])
    if u < 0.35:
        return dict(L.new(d['d']), omit=True)
    if u < 0.55:
        return d
    if u < 0.75 or not ev:
        return L.new(d['d'])
    return L.new(r.choice(ev))


def decl_cases(ctx):
    """classes built around the declaration features: every defaulted field is init=False / inherited /
    default_factory ..., values equal to the default, all three skip_defaults settings"""
    r = ctx.sub_rng('decl')
    cases = []
    for ci in range(24 if ctx.tier == 'quick' else 200):
        L = Labels()
        wizard = r.choice(['json', 'json', 'plain'])
        k = r.choice([2, 3, 4])
        meta = {}
        mode = ci % 3
        if mode == 0:
            meta['skip_defaults'] = True
        elif mode == 1:
            meta['skip_defaults_if'] = gen_cond(r, L, True, ops=['==', '!=', 'is', '+', '!', '>='])
        fields = []
        for nm in r.sample(NAMES, k):
            f = {'name': nm, 'key': ref_key(nm, wizard), 'dump': True, 'default': None, 'cond': None, 'place': None}
            if r.random() < 0.8:
                f['default'] = L.new(r.choice(POOL) if r.random() < 0.8 else gen_value(r))
                dd = f['default']['d']
                f['factory'] = r.choice([False, True, 'fresh']) if not (d_has_tok(dd) or d_has_nonfinite(dd)) else False
            f['init'] = r.random() < 0.45
            if r.random() < 0.2:
                f['cond'] = gen_cond(r, L, True)
                f['place'] = r.choice(['field', 'annotated'])
            fields.append(f)
        shape = class_shape(r, wizard, fields)
        insts = []
        for _ in range(3):
            iv = []
            for f in fields:
                if f['default'] is not None and r.random() < 0.75:
                    iv.append(default_like(r, L, f))
                else:
                    anchors = [x for x in [(meta.get('skip_defaults_if') or {}).get('val')] if x is not None]
                    iv.append(r.choice(anchors) if anchors and r.random() < 0.4 else L.new(r.choice(POOL)))
            insts.append(iv)
        cases.append(dict(shape, **{'stream': 'decl', 'wizard': wizard, 'fields': fields, 'meta': meta, 'instances': insts,
                                    'Es': [None, [fields[0]['name']]], 'ss': [None, True, False]}))
    return cases


SHARED_CONDS = [('==', [0]), ('!=', {'a': 1}), ('is', Tok('user', 2)), ('<', nan), ('==', (1, 2)), ('>=', [1, 'a']),
                ('is not', 10 ** 10), ('==', 5), ('is', None)]


def shared_cases(ctx):
    """ONE Condition object (a module-level `SKIP = SkipIf(EQ([0]))`) reused by several classes at different
    field positions, as Meta.skip_if and as Meta.skip_defaults_if; the classes are dumped one after the
    other in one interpreter.  Other fields carry their own closure-bound conditions, so a stale
    variable name would denote another value."""
    r = ctx.sub_rng('shared')
    cases = []
    reps = 1 if ctx.tier == 'quick' else 6
    for t, (op, x) in enumerate(SHARED_CONDS * reps):
        key = 'sh%d' % t
        positions = [('field', 0), ('field', 2), ('meta_skip_if', None), ('field', 1), ('meta_sdi', None), ('field', 3)]
        r.shuffle(positions)
        for place, pos in positions[:4]:
            L = Labels()
            wizard = r.choice(['json', 'json', 'plain', 'env'])
            shared = {'op': op, 'val': L.new(D(x)), 'wrap': True, 'share': key}
            k = (pos + 1 if pos is not None else r.choice([1, 2, 3])) + r.choice([0, 1])
            meta = {}
            fields = []
            for i, nm in enumerate(r.sample(NAMES, k)):
                f = {'name': nm, 'key': ref_key(nm, wizard), 'dump': True, 'default': None, 'cond': None, 'place': None}
                if place == 'field' and i == pos:
                    f['cond'], f['place'] = shared, r.choice(['field', 'annotated'])
                elif r.random() < 0.7:
                    CLOSURE_BIAS[0] = True
                    f['cond'], f['place'] = gen_cond(r, L, True, ops=['==', '!=', 'is', 'is not']), r.choice(['field', 'annotated'])
                    CLOSURE_BIAS[0] = False
                if place == 'meta_sdi' or r.random() < 0.3:
                    f['default'] = L.new(r.choice(POOL))
                fields.append(f)
            if place == 'meta_skip_if':
                meta['skip_if'] = shared
            elif place == 'meta_sdi':
                meta['skip_defaults_if'] = shared
            insts = []
            for _ in range(3):
                iv = []
                for f in fields:
                    u = r.random()
                    own = (f['cond'] or {}).get('val')
                    if u < 0.3:
                        iv.append(shared['val'])
                    elif u < 0.5:
                        iv.append(L.new(shared['val']['d']))
                    elif own is not None and u < 0.75:
                        iv.append(own if r.random() < 0.5 else L.new(own['d']))
                    else:
                        iv.append(L.new(r.choice(POOL)))
                insts.append(iv)
            cases.append({'stream': 'shared', 'wizard': wizard, 'fields': fields, 'meta': meta, 'instances': insts,
                          'Es': [None], 'ss': [None]})
    return cases


def history_cases(ctx):
    """Nested dataclasses and two-step histories in one interpreter: an enclosing class whose Meta sets
    skip rules holds instances of a nested dataclass (directly or in a list) that declares none.
    Orders: enclosing -> nested alone -> enclosing, and nested alone -> enclosing -> nested alone."""
    r = ctx.sub_rng('history')
    out = []
    for hi in range(14 if ctx.tier == 'quick' else 120):
        L = Labels()
        # ---- the nested class: no Meta; defaults, possibly own per-field conditions
        iw = r.choice(['plain', 'plain', 'json'])
        ifields = []
        for nm in r.sample(NAMES, r.choice([2, 3, 4])):
            f = {'name': nm, 'key': ref_key(nm, 'json'), 'dump': True, 'default': None, 'cond': None, 'place': None}
            if r.random() < 0.8:
                f['default'] = L.new(r.choice([D(None), D(0), D(1), D(''), D('x'), D(1.5), D([]), D(False)] + POOL[:40]))
                f['factory'] = False
            if r.random() < 0.25:
                f['cond'] = gen_cond(r, L, True, ops=['==', '!=', 'is', '+', '!'])
                f['place'] = r.choice(['field', 'annotated'])
            ifields.append(f)
        iinsts = []
        for _ in range(3):
            iv = []
            for f in ifields:
                if f['default'] is not None and r.random() < 0.7:
                    iv.append(default_like(r, L, f))
                else:
                    iv.append(L.new(r.choice([D(None), D(0), D(2), D('y'), D([1])])))
            iinsts.append(iv)
        inner = {'stream': 'history', 'wizard': iw, 'eq': False, 'kw_only': True, 'fields': ifields, 'meta': {},
                 'instances': iinsts, 'Es': [None, [ifields[0]['name']]], 'ss': [None, True, False]}
        # ---- the enclosing class: Meta with skip rules (recursive by default)
        ow = r.choice(['json', 'json', 'plain'])
        meta = {}
        u = r.random()
        if u < 0.45:
            meta['skip_defaults'] = True
        if u > 0.35:
            meta[r.choice(['skip_if', 'skip_if', 'skip_defaults_if'])] = gen_cond(r, L, True, ops=['is', '==', '!', '+', '!='])
        ofields = []
        for nm in r.sample([n for n in NAMES if n not in [f['name'] for f in ifields]] + ['inner_a', 'inner_b'], r.choice([2, 3])):
            f = {'name': nm, 'key': ref_key(nm, 'json'), 'dump': True, 'default': None, 'cond': None, 'place': None}
            ofields.append(f)
        kinds = []
        for j, f in enumerate(ofields):
            if j == 0 or r.random() < 0.3:
                f['nested'] = r.choice(['direct', 'list'])
                if r.random() < 0.3:
                    f['default'] = L.new(D(None))
                    f['factory'] = False
            elif r.random() < 0.6:
                f['default'] = L.new(r.choice(POOL[:40]))
                f['factory'] = False
        oinsts = []
        for _ in range(2):
            iv = []
            for f in ofields:
                if f.get('nested') == 'direct':
                    iv.append(L.new({'t': 'inst', 'i': r.randrange(3)}))
                elif f.get('nested') == 'list':
                    iv.append(L.new({'t': 'list', 'v': [{'t': 'inst', 'i': k} for k in r.sample(range(3), r.choice([1, 2, 3]))]}))
                elif f['default'] is not None and r.random() < 0.6:
                    iv.append(default_like(r, L, f))
                else:
                    iv.append(L.new(r.choice(POOL[:40])))
            oinsts.append(iv)
        outer = {'stream': 'history', 'wizard': ow, 'kw_only': True, 'fields': ofields, 'meta': meta, 'instances': oinsts,
                 'Es': [None, [ofields[-1]['name']]], 'ss': [None, True, False]}
        order = ['outer', 'inner', 'outer'] if hi % 2 == 0 else ['inner', 'outer', 'inner']
        out.append({'inner': inner, 'outer': outer, 'order': order})
    return out


def history_pseudo_cases(ctx, hists, results):
    """flatten the observations of the histories into (case descriptor, runner output) pairs"""
    cases, outs = [], []
    for h, res in zip(hists, results):
        if 'steps' not in res:
            e = res.get('runner_err') or res.get('setup_err') or {}
            ctx.violation('history could not be set up: %s: %s' % (e.get('err'), e.get('msg')), {'kind': 'history', 'history': h})
            continue
        tag = '>'.join(h['order'])
        for pos, step in enumerate(h['order']):
            st = res['steps'][pos]
            if step == 'inner':
                cases.append(dict(h['inner'], stream='history', history=h, what='nested class alone, step %d of %s' % (pos + 1, tag)))
                outs.append({'ids': res['ids'], 'instances': st['instances'], 'class_source': res.get('class_source')})
            else:
                cases.append(dict(h['outer'], stream='history', history=h, what='enclosing class, step %d of %s' % (pos + 1, tag)))
                outs.append({'ids': res['ids'], 'instances': st['instances'], 'class_source': res.get('class_source')})
                ks = sorted(int(k) for k in st['nested'])
                if ks:
                    meta = {k: v for k, v in h['outer']['meta'].items() if k in ('skip_defaults', 'skip_if', 'skip_defaults_if')}
                    cases.append(dict(h['inner'], meta=meta, instances=[h['inner']['instances'][k] for k in ks], Es=[None],
                                      ss=[None], stream='history', history=h,
                                      what='nested instances inside the enclosing dump, step %d of %s' % (pos + 1, tag)))
                    outs.append({'ids': res['ids'], 'instances': [{'calls': [st['nested'][str(k)]]} for k in ks],
                                 'class_source': res.get('class_source')})
                if st['inconsistent']:
                    ctx.violation('the same nested instance is dumped differently within one history', {'kind': 'history', 'history': h})
    return cases, outs


def cls_cases(ctx):
    r = ctx.sub_rng('cls')
    cases = []
    n = 36 if ctx.tier == 'quick' else 320
    for ci in range(n):
        L = Labels()
        k = r.choice([1, 2, 3, 3, 4, 4, 5, 6]) if ci % 9 else 6
        wizard = r.choice(['json', 'json', 'json', 'json', 'plain', 'env'])
        f20_ok = True
        CLOSURE_BIAS[0] = r.random() < 0.25
        if CLOSURE_BIAS[0]:
            wizard = r.choice(['json', 'plain', 'env'])
        names = r.sample(NAMES, k)
        meta = {}
        if wizard == 'json' and r.random() < 0.22:
            meta['v1'] = True          # v1 engine: Alias(skip=True) declares a field that is never dumped
        if r.random() < 0.5:
            meta['skip_defaults'] = r.random() < 0.6
        if r.random() < 0.35:
            meta['skip_if'] = gen_cond(r, L, f20_ok)
        if r.random() < 0.3:
            meta['skip_defaults_if'] = gen_cond(r, L, f20_ok)
        fields = []
        for nm in names:
            f = {'name': nm, 'key': ref_key(nm, wizard), 'dump': True, 'default': None, 'cond': None, 'place': None}
            if wizard != 'env' and r.random() < (0.4 if meta.get('v1') else 0.12):
                f['dump'] = False
                f['dump_via'] = r.choice(['v1_field', 'v1_annotated'] if meta.get('v1') else ['field', 'annotated'])
            if r.random() < 0.6:
                f['default'] = L.new(r.choice(POOL) if r.random() < 0.8 else gen_value(r))
                dd = f['default']['d']
                f['factory'] = r.choice([False, False, True, 'fresh']) if not (d_has_tok(dd) or d_has_nonfinite(dd)) \
                    else r.random() < 0.3
            if wizard != 'env':
                decl_features(r, f)
            if r.random() < 0.5:
                f['cond'] = gen_cond(r, L, f20_ok)
                f['place'] = r.choice(['field', 'annotated'])
            # json_field() makes a positional (not kw_only) dataclass field: one without a default may not
            # follow one with a default
            if not f['dump'] and f.get('dump_via') == 'field' and f['default'] is None and \
                    any((not g['dump']) and g.get('dump_via') == 'field' and g['default'] is not None for g in fields):
                f['dump_via'] = 'annotated'
            if not f['dump'] and f.get('dump_via') == 'v1_field' and f['default'] is None:
                f['dump_via'] = 'v1_annotated'
            fields.append(f)
        shape = class_shape(r, wizard, fields)
        names = [f['name'] for f in fields]
        insts = []
        for _ in range(2):
            iv = []
            for f in fields:
                anchors = [x for x in [f['default'], (f['cond'] or {}).get('val'), (meta.get('skip_if') or {}).get('val'),
                                        (meta.get('skip_defaults_if') or {}).get('val')] if x is not None]
                u = r.random()
                if f['default'] is not None and r.random() < 0.3:
                    iv.append(default_like(r, L, f))
                    continue
                oa = ordering_anchor([f['cond'] if f['cond'] is not None else meta.get('skip_if'),
                                      meta.get('skip_defaults_if') if f['default'] is not None else None])
                cmpv = comparable_value(r, oa) if (oa is not None and r.random() < 0.85) else None
                if cmpv is not None and u > 0.3:
                    iv.append(L.new(cmpv))
                elif anchors and u < 0.35:
                    iv.append(r.choice(anchors))                      # the very object
                elif anchors and u < 0.55:
                    iv.append(L.new(r.choice(anchors)['d']))          # an equal copy
                else:
                    iv.append(L.new(r.choice(POOL) if r.random() < 0.8 else gen_value(r)))
            insts.append(iv)
        Es = [None] + [[nm for j, nm in enumerate(names) if mask >> j & 1] for mask in range(2 ** k)] + [[names[0], 'zz']]
        CLOSURE_BIAS[0] = False
        cases.append(dict(shape, **{'stream': 'cls', 'wizard': wizard, 'fields': fields, 'meta': meta, 'instances': insts,
                                    'Es': Es, 'ss': [None, True, False]}))
    return cases


class Dec:
    def __init__(self, v):
        self.v = v


class EqAllD:
    def __init__(self, i):
        self.i = i


def DX(x):
    """D() extended with the values outside the Coq model"""
    if isinstance(x, Dec):
        return {'t': 'dec', 'v': x.v}
    if isinstance(x, EqAllD):
        return {'t': 'eqall', 'id': x.i}
    return D(x)


# groups of values that are pairwise `==` (every located copy is built separately by the runner, so two
# labels are two objects unless CPython caches the value: small ints, (), '', one-character strings)
EQ_GROUPS = [
    [0, 0.0, False, -0.0, Dec('0'), 0, 0.0],
    [1, 1.0, True, Dec('1'), 1.0],
    [10 ** 10, 10 ** 10, 1e10, Dec('10000000000'), 10 ** 10],
    [257, 257, 257.0, 257],
    [1.5, 1.5, Dec('1.5'), 1.5],
    [-7, -7.0, -7, Dec('-7')],
    [(1, 2), (1, 2), (1.0, 2), (True, 2), (1, 2)],
    [((1, 2), 3), ((1, 2), 3), ((1.0, 2), 3.0)],
    [(), ()],
    [[1], [1], [1.0], [True], [1]],
    [[], []],
    [[[1], 'a'], [[1], 'a'], [[1.0], 'a']],
    [{'a': 1}, {'a': 1}, {'a': 1.0}, {'a': True}],
    [{}, {}],
    [{'a': 1, 'b': 2}, {'b': 2, 'a': 1}, {'a': 1, 'b': 2}],
    ['hello w', 'hello w', 'hello w'],
    ["it's", "it's", "it's"],
    ['', ''],
    [(1, [2]), (1, [2]), (1.0, [2])],
    [EqAllD(0), EqAllD(1), EqAllD(2), 5, 'x', (1, 2), None],
    [EqAllD(3), EqAllD(4), [1], 0.0, EqAllD(5)],
    [Tok('bareobj', 0), Tok('bareobj', 0)],          # identity-only equality: one object, two conditions
    [Tok('enum', 1), Tok('enum', 1)],
]


def alias_cases(ctx):
    """classes with 2..4 conditions whose comparison values are pairwise equal (`==`) but are DISTINCT
    objects (0 / 0.0 / False / Decimal(0), equal tuples / lists / dicts / strings built separately, objects
    whose __eq__ is always True), placed per field (skip_if_field, Annotated), in Meta.skip_if and in
    Meta.skip_defaults_if; instances hold THE VERY OBJECT of one of the conditions (all fields, then mixed),
    equal copies and other members of the group.  Identity operators dominate."""
    r = ctx.sub_rng('alias')
    cases = []
    n = 70 if ctx.tier == 'quick' else 600
    for ci in range(n):
        L = Labels()
        group = EQ_GROUPS[ci % len(EQ_GROUPS)] if ci < 2 * len(EQ_GROUPS) else r.choice(EQ_GROUPS)
        wizard = r.choice(['json', 'json', 'plain', 'env'])
        k = r.choice([2, 2, 3, 3, 4])
        ops_pool = ['is', 'is', 'is not', 'is not', 'is', '==', '!=', '<', '>='] if ci % 4 else ['is', 'is not']
        conds = []
        for j in range(k):
            x = group[j % len(group)] if ci < len(EQ_GROUPS) else r.choice(group)
            conds.append({'op': r.choice(ops_pool), 'val': L.new(DX(x)), 'wrap': r.random() < 0.5})
        places = []
        for j in range(k):
            u = r.random()
            if u < 0.22 and 'meta_skip_if' not in places:
                places.append('meta_skip_if')
            elif u < 0.4 and 'meta_sdi' not in places:
                places.append('meta_sdi')
            else:
                places.append(r.choice(['field', 'annotated']))
        meta = {}
        if r.random() < 0.25:
            meta['skip_defaults'] = r.random() < 0.5
        fields = []
        n_plain = r.choice([0, 1, 1, 2]) if ('meta_skip_if' in places or 'meta_sdi' in places) else r.choice([0, 0, 1])
        names = r.sample(NAMES, sum(1 for p_ in places if p_ in ('field', 'annotated')) + n_plain)
        slots = [(p_, c_) for p_, c_ in zip(places, conds) if p_ in ('field', 'annotated')] + [(None, None)] * n_plain
        r.shuffle(slots)
        for nm, (p_, c_) in zip(names, slots):
            f = {'name': nm, 'key': ref_key(nm, wizard), 'dump': True, 'default': None, 'cond': c_, 'place': p_}
            if 'meta_sdi' in places and r.random() < 0.7 or r.random() < 0.2:
                # the default: a member of the group (sometimes the very object of a condition), or unrelated
                u = r.random()
                if u < 0.3:
                    f['default'] = r.choice(conds)['val']
                elif u < 0.7:
                    f['default'] = L.new(DX(r.choice(group)))
                else:
                    f['default'] = L.new(D(r.choice([None, 0, 'x', 1.5])))
                f['factory'] = False
            fields.append(f)
        for p_, c_ in zip(places, conds):
            if p_ == 'meta_skip_if':
                meta['skip_if'] = c_
            elif p_ == 'meta_sdi':
                meta['skip_defaults_if'] = c_
        if not fields:
            continue
        insts = []
        for c_ in conds:                                    # every field holds the very object of condition c_
            insts.append([c_['val'] for _f in fields])
        for _ in range(2):
            iv = []
            for f in fields:
                u = r.random()
                if u < 0.5:
                    iv.append(r.choice(conds)['val'])                      # the very object of some condition
                elif u < 0.65:
                    iv.append(L.new(r.choice(conds)['val']['d']))          # an equal copy (another object)
                elif u < 0.85:
                    iv.append(L.new(DX(r.choice(group))))                  # another member of the ==-class
                elif f['default'] is not None and u < 0.92:
                    iv.append(f['default'])
                else:
                    iv.append(L.new(D(r.choice([None, 'zz', 3, (9,)]))))
            insts.append(iv)
        has_dflt = any(f['default'] is not None for f in fields)
        Es = [None] + ([[fields[0]['name']]] if r.random() < 0.4 else [])
        cases.append({'stream': 'alias', 'wizard': wizard, 'kw_only': True, 'fields': fields, 'meta': meta, 'instances': insts,
                      'Es': Es, 'ss': [None, True, False] if has_dflt else [None]})
    return cases


def expected_binding(c, ids):
    """the documented scheme, read off the class description: every closure-bound condition has its OWN
    local (`_skip_if_<i>` for the condition of field i, `_skip_value` for Meta.skip_if,
    `_skip_defaults_value` for Meta.skip_defaults_if) holding the condition's own object.
    Returns {name: canonical label}."""
    out = {}

    def bound(k):
        return k is not None and k['op'] not in ('+', '!') and not d_spliced(k['op'], k['val']['d'])
    for key, nm in (('skip_if', '_skip_value'), ('skip_defaults_if', '_skip_defaults_value')):
        k = c['meta'].get(key)
        if bound(k):
            out[nm] = ids[str(k['val']['l'])]
    for i, f in enumerate(c['fields']):
        if model_dumped(c, f) and bound(f.get('cond')):
            out['_skip_if_%d' % i] = ids[str(f['cond']['val']['l'])]
    return out


def finding_case(kind):
    """the witnesses of the former finding F20 (fixed), kept as ordinary cases"""
    L = Labels()
    if kind == 'syntax':
        v = L.new(D(Tok('bareobj', 0)))
        cond = {'op': 'is', 'val': v, 'wrap': True}
    elif kind == 'name':
        v = L.new(D((nan,)))
        cond = {'op': '==', 'val': v, 'wrap': True}
    else:
        v = L.new(D(10 ** 10))
        cond = {'op': 'is', 'val': v, 'wrap': True}
    f = {'name': 'fa', 'key': 'fa', 'dump': True, 'default': None, 'cond': cond, 'place': 'annotated'}
    other = L.new(D(1))
    return {'stream': 'former_f20', 'wizard': 'json', 'fields': [f], 'meta': {}, 'instances': [[v], [other]],
            'Es': [None], 'ss': [None]}


def former_f20_cases(ctx):
    """every former F20 value shape x operator x placement, deterministically present in every run"""
    r = ctx.sub_rng('former_f20')
    shapes = [Tok('bareobj', 0), Tok('type', 0), Tok('fn', 0), (Tok('enum', 0),), (1, Tok('bareobj', 1)), (nan,), (-inf, 1),
              (1, 2), ()]
    idents = [10 ** 10, 'hello world!', 1.5, (1, 2), 257, '']
    combos = [(op, x) for x in shapes for op in ('==', '!=', 'is', 'is not', '<')] + \
             [(op, x) for x in idents for op in ('is', 'is not')]
    cases = []
    for op, x in combos:
        L = Labels()
        cond = {'op': op, 'val': L.new(D(x)), 'wrap': True}
        place = r.choice(['field', 'annotated', 'meta_skip_if', 'meta_sdi'])
        wizard = r.choice(['json', 'json', 'plain', 'env'])
        f = {'name': 'fa', 'key': 'fa', 'dump': True, 'default': None, 'cond': None, 'place': None}
        meta = {}
        if place in ('field', 'annotated'):
            f['cond'], f['place'] = cond, place
        elif place == 'meta_skip_if':
            meta['skip_if'] = cond
        else:
            meta['skip_defaults_if'] = cond
            f['default'] = L.new(D(0))
        vals = [cond['val'], L.new(cond['val']['d']), L.new(D(1)), L.new(D(None))]
        cases.append({'stream': 'former_f20', 'wizard': wizard, 'fields': [f], 'meta': meta,
                      'instances': [[v] for v in vals], 'Es': [None], 'ss': [None]})
    return cases


# ------------------------------------------------------------------ evaluation of one case
def compiled_conds(c):
    """(where, cond) for every condition the generator compiles for this class"""
    out = []
    for f in c['fields']:
        if model_dumped(c, f) and f.get('cond') is not None:
            out.append((f['name'], f['cond']))
    if c['meta'].get('skip_if') is not None and any(model_dumped(c, f) and f.get('cond') is None for f in c['fields']):
        out.append(('@skip_if', c['meta']['skip_if']))
    if c['meta'].get('skip_defaults_if') is not None and any(f['default'] is not None for f in c['fields']):
        out.append(('@sdi', c['meta']['skip_defaults_if']))
    return out


def check_call(c, rec, call):
    """Direct predicate on one call. Returns None if it holds, else (description, region id | None)."""
    got, exp = call['got'], call['exp']
    if call['evaluate_mismatch']:
        return ('Condition.evaluate disagrees with the Python operator on %r' % (call['evaluate_mismatch'][:3],), None)
    lazy = exp['lazy'].get('keys', 'raises TypeError')
    if 'err' in got:
        if got['err'] == 'TypeError' and any('raise' in f['acc'] for f in exp['fields']):
            return None
        return ('dump raises %s: %s; reference selection: %r' % (got['err'], got.get('msg'), lazy), None)
    known = [f['key'] for f in exp['fields']]
    if any(k not in known for k in got['keys']) or len(set(got['keys'])) != len(got['keys']):
        return ('keys %r are not keys of the class %r' % (got['keys'], known), None)
    if got['keys'] != [k for k in known if k in got['keys']]:
        return ('keys %r not in field order %r' % (got['keys'], known), None)
    wrong = [f['key'] for f in exp['fields'] if ('keep' if f['key'] in got['keys'] else 'omit') not in f['acc']]
    if wrong:
        f22 = {f['key'] for f in c['fields'] if f85_field(c, f)}
        if set(wrong) <= f22 and all(k in got['keys'] for k in wrong):
            return ('keys %r, reference selection %r: v1 Alias(skip=True) ignored on init=False field(s) %r'
                    % (got['keys'], lazy, wrong), F85)
        return ('keys %r, reference selection %r (wrong: %r)' % (got['keys'], lazy, wrong), None)
    base = rec.get('baseline')
    if base is not None:
        by_key = {f['key']: f['name'] for f in c['fields']}
        for k in got['keys']:
            if got['vals'][k] != base[by_key[k]]:
                return ('kept field %r encoded as %r, usual encoding %r' % (k, got['vals'][k], base[by_key[k]]), None)
    return None


def case_outside(c):
    """does the class itself (comparison values, defaults) hold a value outside the Coq value model?"""
    for f in c['fields']:
        if f['default'] is not None and d_outside(f['default']['d']):
            return True
        if f.get('cond') is not None and f['cond']['val'] is not None and d_outside(f['cond']['val']['d']):
            return True
    for k in ('skip_if', 'skip_defaults_if'):
        if c['meta'].get(k) is not None and c['meta'][k]['val'] is not None and d_outside(c['meta'][k]['val']['d']):
            return True
    return False


def label_desc(c, lbl, ids):
    """descriptor of (some) located value of the case whose canonical label is lbl"""
    lvs = []
    for f in c['fields']:
        lvs += [f['default'], (f.get('cond') or {}).get('val')]
    for k in ('skip_if', 'skip_defaults_if'):
        lvs.append((c['meta'].get(k) or {}).get('val'))
    for iv in c['instances']:
        lvs += list(iv)
    for lv in lvs:
        if lv is not None and ids.get(str(lv['l'])) == lbl:
            return lv['d']
    return None


def shared_nan(c, inst, ids):
    """an instance value that IS (same object) a default / comparison value of the class and is a
    container holding nan: CPython's per-element identity shortcut makes it equal to itself, the
    model compares structurally (nan != nan) — outside the model's domain."""
    others = []
    for f in c['fields']:
        if f['default'] is not None:
            others.append(f['default'])
        if f.get('cond') is not None and f['cond']['val'] is not None:
            others.append(f['cond']['val'])
    for k in ('skip_if', 'skip_defaults_if'):
        if c['meta'].get(k) is not None and c['meta'][k]['val'] is not None:
            others.append(c['meta'][k]['val'])
    shared = {ids[str(o['l'])] for o in others if d_nested_nan(o['d'])}
    return any(d_nested_nan(lv['d']) and ids[str(lv['l'])] in shared for lv in inst)


def impl_show(c, got):
    if 'err' in got:
        return 'E:' + got['err']
    by_key = {f['key']: f['name'] for f in c['fields']}
    return 'K:' + ','.join('%s=%s' % (k.encode().hex(), by_key.get(k, '?').encode().hex()) for k in got['keys'])


def case_nontrivial(c, E):
    has_rule = any(f.get('cond') or f['default'] is not None or not f['dump'] for f in c['fields']) or \
        any(c['meta'].get(x) is not None for x in ('skip_if', 'skip_defaults_if')) or c['meta'].get('skip_defaults')
    return bool(has_rule and (len(c['fields']) >= 2 or E or c['stream'] != 'cls'))


def strip(c):
    return {k: v for k, v in c.items() if k != 'stream'} | {'stream': c['stream']}


def eval_cases(ctx, cases, impl_cases, tie=True):
    """direct predicates + correspondence for a list of cases; returns per-case list of failures"""
    exprs, index = [], []
    for ci, (c, res) in enumerate(zip(cases, impl_cases)):
        if 'runner_err' in res or 'setup_err' in res:
            continue
        ids = res['ids']
        index.append((ci, 'gen', len(exprs)))
        exprs.append('show_gen %s %s' % (cmeta(c['meta'], ids), cfields(c, c['instances'][0], ids)))
        for ii, inst in enumerate(c['instances']):
            if 'setup_err' in res['instances'][ii]:
                continue
            if case_outside(c) or any(d_outside(lv['d']) for lv in inst):
                continue                     # outside the Coq value model: direct predicate, source and binding ties only
            index.append((ci, ii, len(exprs)))
            exprs.append('show_calls %s %s %s %s' % (cmeta(c['meta'], ids), cfields(c, inst, ids),
                                                      coq_list([cE(E) for E in c['Es']]), coq_list([CS[s] for s in c['ss']])))
    model = None
    if tie and ctx.coq_ok:
        try:
            model = ctx.coq(exprs, ['SkipModel', 'SkipLocals'], prelude=PRELUDE, tag='cases')
        except Exception as e:  # noqa
            ctx.broken_tie('model evaluation failed: %s' % str(e)[:600])
    model_of = {(ci, w): model[k] for ci, w, k in index} if model is not None else {}
    n_tie_reports = 0
    failures = []
    for ci, (c, res) in enumerate(zip(cases, impl_cases)):
        if 'runner_err' in res or 'setup_err' in res:
            e = res.get('runner_err') or res.get('setup_err')
            # class creation must succeed for every generated class (conditions are only compiled at the first dump)
            failures.append((ci, None, None, 'class could not be created: %s: %s' % (e.get('err'), e.get('msg')), None))
            continue
        # ---- source tie
        if (ci, 'gen') in model_of and 'source' in res:
            mprog, mclo, msafe, mloc, mown = model_of[(ci, 'gen')].split('#', 4)
            iclo = ','.join(cname(n) for n in res.get('closure', []))
            if mown != 'own':
                ctx.broken_tie('SkipLocals: own_valueb bind_own is false for a generated class', {'case': c})
            if 'binding' in res:
                # number and binding of the `_skip_*` locals: model (name=#object id) vs the dict the generator built
                def _o(lbl):
                    if lbl is None:
                        return '?'
                    d = label_desc(c, lbl, res['ids'])
                    return '@' if (d is None or d_singleton(d) or d['t'] in ('tok', 'inst', 'dec', 'eqall')) else 'id' + bin_(lbl)
                iloc = ','.join('%s=%s' % (cname(n), _o(lbl)) for n, lbl in res['binding'])
                ctx.traces_validated += 1
                if sorted(iloc.split(',')) != sorted(mloc.split(',')):
                    ctx.disagreements_checked += 1
                    n_tie_reports += 1
                    if n_tie_reports <= 5:
                        ctx.broken_tie('`_skip_*` locals of the generated cls_asdict differ from SkipLocals.gen_locals',
                                       {'case': c, 'impl_locals': iloc, 'model_locals': mloc,
                                        'impl_source': res.get('source_text')})
            ctx.traces_validated += 1
            ctx.hist('model_region', msafe)
            ok = (res['source'] == 'BAD' and 'BAD' in mprog) or (res['source'] == mprog)
            if not ok or sorted(iclo.split(',')) != sorted(mclo.split(',')):
                ctx.disagreements_checked += 1
                n_tie_reports += 1
                if n_tie_reports <= 5:
                    ctx.broken_tie('generated cls_asdict differs from SkipModel.gen_prog',
                                   {'case': c, 'impl_source': res.get('source_text'), 'impl': res['source'], 'model': mprog,
                                    'impl_closure': iclo, 'model_closure': mclo})
        # ---- binding, independent of the model: the documented scheme read off the class description
        if 'binding' in res:
            exp_b = expected_binding(c, res['ids'])
            got_b = {n: lbl for n, lbl in res['binding']}
            ctx.hist('closure_bound_conditions', len(exp_b))
            if len(set(exp_b.values())) < len(exp_b):
                ctx.hist('binding', 'one object used by several conditions')
            if got_b != exp_b:
                n_tie_reports += 1
                if n_tie_reports <= 5:
                    ctx.broken_tie('a generated `_skip_*` local does not hold its own condition\'s object',
                                   {'case': c, 'impl_binding': got_b, 'expected_binding': exp_b,
                                    'impl_source': res.get('source_text')})
        outside_cls = case_outside(c)
        for ii, inst in enumerate(c['instances']):
            rec = res['instances'][ii]
            if 'setup_err' in rec:
                failures.append((ci, ii, None, 'instance could not be created: %s' % rec['setup_err'].get('err'), None))
                continue
            mres = model_of.get((ci, ii))
            mres = mres.split('|') if mres is not None else None
            if outside_cls or any(d_outside(lv['d']) for lv in inst):
                ctx.hist('outside_model_domain', 'Decimal / object with custom __eq__ (direct predicate only)')
                mres = None
            if mres is not None and shared_nan(c, inst, res['ids']):
                ctx.hist('outside_model_domain', 'instance shares a nan-holding container with the class')
                mres = None
            calls = [(E, s) for E in c['Es'] for s in c['ss']]
            for k, ((E, s), call) in enumerate(zip(calls, rec['calls'])):
                ctx.count(1, key='%s:%d:%d:%d' % (c['stream'], ci, ii, k), nontrivial=case_nontrivial(c, E))
                bad = check_call(c, rec, call)
                if bad:
                    failures.append((ci, ii, k, bad[0], bad[1]))
                ctx.hist('outcome', 'raises ' + call['got']['err'] if 'err' in call['got'] else 'keys')
                if mres is not None:
                    ctx.traces_validated += 1
                    if mres[k] != impl_show(c, call['got']):
                        ctx.disagreements_checked += 1
                        n_tie_reports += 1
                        if n_tie_reports <= 5:
                            ctx.broken_tie('SkipModel.cls_asdict and the implementation disagree',
                                           {'case': c, 'instance': ii, 'E': E, 's': s, 'impl': impl_show(c, call['got']),
                                            'model': mres[k], 'impl_source': res.get('source_text')})
    return failures


# ------------------------------------------------------------------ sem stream
def sem_stream(ctx):
    r = ctx.sub_rng('sem')
    pool = list(POOL) + [gen_value(r) for _ in range(25 if ctx.tier == 'quick' else 60)]
    n = len(pool)
    allp = [(i, j) for i in range(n) for j in range(n)]
    if ctx.tier == 'quick':
        pairs = [(i, i) for i in range(n)] + r.sample(allp, 1000)
    else:
        pairs = allp
    pairs = list(dict.fromkeys(pairs))
    res = ctx.impl('c11', {'sem': {'pool': pool, 'pairs': pairs, 'ops': OPS}, 'cases': []})['sem']
    ids = res['ids']
    lvs = [{'l': i, 'd': d} for i, d in enumerate(pool)]
    model = None
    if ctx.coq_ok:
        try:
            exprs = ['show_val %s' % cv(d) for d in pool] + \
                    ['show_sem %s %s' % (clv(lvs[i], ids), clv(lvs[j], ids)) for i, j in pairs]
            model = ctx.coq(exprs, ['SkipModel', 'SkipLocals'], prelude=PRELUDE, tag='sem')
        except Exception as e:  # noqa
            ctx.broken_tie('model evaluation failed (sem): %s' % str(e)[:600])
    nrep = 0
    for i, d in enumerate(pool):
        v = res['values'][i]
        ctx.count(1, key='val:%d' % i, nontrivial=d['t'] in ('tuple', 'list', 'dict', 'float', 'str', 'tok'))
        ctx.hist('value_type', d['t'] + (':nonfinite' if d_nonfinite(d) else ''))
        # direct: the documented is_builtin rule
        if v['is_builtin'] != d_inlined(d) and sum(1 for x in ctx.violations) < 6:
            ctx.violation('is_builtin(%s) = %r, documented rule gives %r' % (json.dumps(d)[:80], v['is_builtin'], d_inlined(d)),
                          {'kind': 'is_builtin', 'value': d})
        if model is not None:
            ctx.traces_validated += 1
            flags, rexp = model[i].split(':', 1)
            ib = v['is_builtin']
            iflags = ('H' if v['hashable'] else 'h') + ('B' if ib is True else 'b') + ('T' if v['truthy'] else 't')
            same_repr = (v['repr'] == rexp) or (v['repr'] == 'BAD' and 'BAD' in rexp)
            if iflags != flags or not same_repr:
                ctx.disagreements_checked += 1
                nrep += 1
                if nrep <= 5:
                    ctx.broken_tie('value facts differ between implementation and SkipModel',
                                   {'value': d, 'impl': iflags + ':' + v['repr'], 'model': model[i]})
    for k, (i, j) in enumerate(pairs):
        p = res['pairs'][k]
        ctx.count(1, key='pair:%d:%d' % (i, j), nontrivial=True)
        # direct: Condition.evaluate is the Python operator
        if p['evaluate'] != p['python'] and sum(1 for x in ctx.violations) < 6:
            ctx.violation('Condition.evaluate differs from the Python operator on (%s, %s): %r vs %r'
                          % (json.dumps(pool[i])[:60], json.dumps(pool[j])[:60], p['evaluate'], p['python']),
                          {'kind': 'evaluate', 'a': pool[i], 'b': pool[j]})
        if model is not None and ids[str(i)] == ids[str(j)] and d_nested_nan(pool[i]):
            ctx.hist('outside_model_domain', 'container holding nan compared with itself')
        elif model is not None:
            ctx.traces_validated += 1
            if ','.join(p['evaluate']) != model[n + k]:
                ctx.disagreements_checked += 1
                nrep += 1
                if nrep <= 5:
                    ctx.broken_tie('SkipModel.evaluate differs from Condition.evaluate',
                                   {'a': pool[i], 'b': pool[j], 'same_object': ids[str(i)] == ids[str(j)],
                                    'ops': OPS, 'impl': p['evaluate'], 'model': model[n + k].split(',')})
    ctx.sample({'sem_pair': [pool[pairs[-1][0]], pool[pairs[-1][1]]], 'ops': OPS, 'impl': res['pairs'][-1]['evaluate']})


# ------------------------------------------------------------------ run / replay
def run_batch(ctx, cases):
    out = []
    B = 150
    for k in range(0, len(cases), B):
        out.extend(ctx.impl('c11', {'sem': None, 'cases': cases[k:k + B]})['cases'])
    return out


def run(ctx):
    F85_OPEN[0] = ctx.is_open_region(F85)
    # ---- listed findings: replay the witnesses
    for f in ctx.findings():
        w = f.get('witness')
        if isinstance(w, dict) and w.get('kind') == 'case':
            still = not replay(ctx, w, quiet=True)
            ctx.known_finding(f['id'], still_fails=still)
    sem_stream(ctx)
    cases = cond_cases(ctx) + cls_cases(ctx) + decl_cases(ctx) + \
        [finding_case(k) for k in ('syntax', 'name', 'is')] + former_f20_cases(ctx) + alias_cases(ctx)
    impl_cases = run_batch(ctx, cases)
    sh = shared_cases(ctx)                       # one interpreter for the whole stream, classes in sequence
    for k in range(0, len(sh), 240):
        impl_cases.extend(ctx.impl('c11', {'sem': None, 'cases': sh[k:k + 240]})['cases'])
    cases = cases + sh
    hists = history_cases(ctx)                   # nested classes: multi-step histories, one interpreter per batch
    hres = []
    for k in range(0, len(hists), 40):
        hres.extend(ctx.impl('c11', {'histories': hists[k:k + 40]})['histories'])
    hc, ho = history_pseudo_cases(ctx, hists, hres)
    cases = cases + hc
    impl_cases = impl_cases + ho
    for h in hists:
        ctx.hist('history_order', '>'.join(h['order']))
        ctx.hist('history_nesting', ','.join(sorted(f['nested'] for f in h['outer']['fields'] if f.get('nested'))))
    failures = eval_cases(ctx, cases, impl_cases)
    n_viol = 0
    seen_cases = set()
    for ci, ii, k, what, region in failures:
        c = cases[ci]
        if region is not None and ctx.is_open_region(region):
            ctx.hist('known_region', region)
            continue
        if ci in seen_cases:
            continue
        seen_cases.add(ci)
        n_viol += 1
        if n_viol <= 8:
            if c.get('history') is not None:
                ctx.violation('%s [%s]' % (what, c['what']), {'kind': 'history', 'history': c['history']})
            else:
                ctx.violation('%s [%s class, %d field(s)]' % (what, c['wizard'], len(c['fields'])),
                              {'kind': 'case', 'case': c, 'instance': ii, 'call': k})
    for c in cases:
        ctx.hist('stream', c['stream'])
        ctx.hist('wizard', c['wizard'] + ('/v1' if c['meta'].get('v1') else ''))
        for f in c['fields']:
            if not f['dump']:
                ctx.hist('not_dumped_via', f.get('dump_via'))
        ctx.hist('fields', len(c['fields']))
        for k in ('kw_only', 'frozen', 'slots', 'classvar', 'initvar'):
            if c.get(k):
                ctx.hist('class_feature', k)
        if c.get('n_base'):
            ctx.hist('class_feature', 'inherits %d field(s) from a base dataclass' % c['n_base'])
        for f in c['fields']:
            if f.get('init') is False:
                ctx.hist('field_feature', 'init=False ' + ('without default' if f['default'] is None else
                                                            'default_factory' if f.get('factory') else 'default'))
            for k in ('repr', 'compare'):
                if f.get(k) is False:
                    ctx.hist('field_feature', k + '=False')
            if f.get('factory') == 'fresh':
                ctx.hist('field_feature', 'default_factory building a new object')
            if (f.get('cond') or {}).get('share'):
                ctx.hist('field_feature', 'shared Condition object')
        for iv in c['instances']:
            for lv in iv:
                if lv.get('omit'):
                    ctx.hist('field_feature', 'value omitted from the constructor')
        for _w, k in compiled_conds(c):
            ctx.hist('cond_op', k['op'])
            if k['val'] is not None:
                d = k['val']['d']
                ctx.hist('cond_val', d['t'] + (':nonfinite' if d_nonfinite(d) else '') +
                         ('' if d_spliced(k['op'], d) else ':closure'))
            if cond_f20a(k) or cond_f20b(k):
                ctx.hist('cond_of_former_F20_shape', cond_f20a(k) or 'is-copy')
    ci = next((i for i, c in enumerate(cases) if c['stream'] == 'cls' and len(c['fields']) >= 3), 0)
    if 'instances' in impl_cases[ci]:
        ctx.sample({'class_source': impl_cases[ci].get('class_source'), 'generated': impl_cases[ci].get('source_text'),
                    'first_calls': [{'E': E, 's': s, 'got': call['got'].get('keys', call['got'].get('err')), 'reference': call['exp']['lazy']}
                                    for (E, s), call in list(zip([(E, s) for E in cases[ci]['Es'] for s in cases[ci]['ss']],
                                                                 impl_cases[ci]['instances'][0]['calls']))[:6]]})


def replay(ctx, obj, quiet=False):
    if obj.get('kind') == 'history':
        h = obj['history']
        res = ctx.impl('c11', {'histories': [h]})['histories']

        class _C:           # collect violations without writing replay files
            def violation(self, what, _o):
                bad.append(what)
        bad = []
        hc, ho = history_pseudo_cases(_C(), [h], res)
        for c, o in zip(hc, ho):
            for ii, rec in enumerate(o['instances']):
                for call in rec['calls']:
                    b = check_call(c, rec, call)
                    if b:
                        bad.append('%s: %s' % (c['what'], b[0]))
        if not quiet:
            print(res[0].get('class_source'))
            print('order: %s' % ' -> '.join(h['order']))
            for b in bad[:6]:
                print(b)
            print('all observations satisfy the property' if not bad else 'property fails')
        return not bad
    if obj.get('kind') == 'case':
        c = obj['case']
        res = ctx.impl('c11', {'sem': None, 'cases': [c]})['cases'][0]
        if 'instances' not in res:
            if not quiet:
                print('class could not be created: %r' % res)
            return False
        ok = True
        for ii, rec in enumerate(res['instances']):
            if obj.get('instance') is not None and ii != obj['instance']:
                continue
            calls = [(E, s) for E in c['Es'] for s in c['ss']]
            for k, ((E, s), call) in enumerate(zip(calls, rec.get('calls', []))):
                if obj.get('call') is not None and k != obj['call']:
                    continue
                bad = check_call(c, rec, call)
                if bad:
                    ok = False
                    if not quiet:
                        print('instance %d exclude=%r skip_defaults=%r: %s' % (ii, E, s, bad[0]))
        if not quiet:
            print(res.get('class_source'))
            print('all selected calls satisfy the property' if ok else 'property fails')
        return ok
    if obj.get('kind') in ('is_builtin', 'evaluate'):
        pool = [obj['value']] if obj['kind'] == 'is_builtin' else [obj['a'], obj['b']]
        res = ctx.impl('c11', {'sem': {'pool': pool, 'pairs': [(0, len(pool) - 1)], 'ops': OPS}, 'cases': []})['sem']
        if obj['kind'] == 'is_builtin':
            print('is_builtin -> %r, documented rule %r' % (res['values'][0]['is_builtin'], d_inlined(pool[0])))
            return res['values'][0]['is_builtin'] == d_inlined(pool[0])
        print('evaluate %r, python %r' % (res['pairs'][0]['evaluate'], res['pairs'][0]['python']))
        return res['pairs'][0]['evaluate'] == res['pairs'][0]['python']
    print('replay object names a broken tie, not an input: %s' % json.dumps(obj)[:1500])
    return False
