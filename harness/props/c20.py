"""C20 — concurrent first use and concurrent calls give the sequential results.

Theorems: coq/props/C20.v (model coq/model/ConcModel.v, proofs coq/proofs/ConcProofs.v).

Tie: hook H2 (guarded yield points, dataclass_wizard/_verif.py) + a cooperative
deterministic scheduler (harness/impl/c20.py).  For every scenario the
implementation is run under ALL schedules with at most `bound` preemptions (or a
deterministic pseudo-random subset when there are more than the budget allows);
each run is compared
  (a) DIRECT PREDICATE: the vector of per-call outcomes must be the vector of some
      sequential order of the calls (every linearisation of the calls is executed
      in its own pristine process to obtain that set);
  (b) MODEL: for the modelled families, `ConcModel.show_run` replays the very same
      schedule on the micro-step model and must predict the same sequence of
      yield-point arrivals and the same outcome class of every call.
A randomized real-thread stress (sys.setswitchinterval(1e-6)) is a supplementary
search; no claim rests on it.
"""
import json, itertools, concurrent.futures as cf, os

META = {
    'id': 'C20',
    'title': 'Concurrent first use and concurrent calls give the sequential results',
    'level': 'proof',
    'technique': ('Coq proof (induction over the schedule, invariant "every table entry is an admissible value") on a '
                  'hand-written micro-step model of the shared-table accesses + schedule-for-schedule replay of the model '
                  'on the implementation through guarded yield points (hook H2) under a cooperative deterministic scheduler'),
    'design_ref': 'DESIGN.md section 4 C20',
    'theorems': ['C20_memo_linearizable', 'C20_memo_sequential', 'C20_protocols', 'C20_load_plain', 'C20_dump_plain',
                 'C20_env_plain', 'C20_v1_catchall_plain', 'C20_partial', 'C20_refuted_path_fill', 'C20_refuted_env_inplace',
                 'C20_f31_repair_removes_witnesses', 'C20_former_witnesses_sequential', 'C20_hook_table',
                 'C20_v1_load_plain', 'C20_v1_linearizable', 'C20_v1_sequential', 'C20_v1_refuted_path_fill'],
    'tables': ['ConcHooks'],
    'level_text': ('PARTIAL. Proved in Coq for ALL schedules (any number of threads, unbounded length, one scheduling point per '
                   'shared-table access): a program whose every write stores an admissible value for its key (after the entries it '
                   'implies) and whose result does not depend on whether a read hits or misses returns its sequential result, and no '
                   'table ever holds a non-admissible value; instantiated for the memo protocols of the library (FIELDS, '
                   'CLASS_TO_LOADER, CLASS_TO_DUMPER, FIELD_NAME_TO_LOAD_PARSER, CLASS_TO_LOAD_FUNC, CLASS_TO_DUMP_FUNC, the JSON key '
                   'cache incl. negative entries, setattr of from_dict/to_dict, IS_DUMP_CONFIG_SETUP, FIELD_TO_DEFAULT filled then '
                   'published, the dump hook cache with the hook scan over a snapshot, environ / Env.var_names / Env.cleaned_to_env / '
                   'Env.reload, the v1 catch-all marker) and for the complete first-load / first-dump / EnvWizard-instantiate (with '
                   'and without _reload) / v1-catch-all-load programs of every class WITHOUT JSON-path fields: any defaults with or '
                   'without skip_defaults, any run-time type of the dumped values. For classes with >= 2 JSON-path fields the '
                   'faithful model is REFUTED with concrete schedules (two-phase path tables, F31, open), reproduced on the '
                   'implementation. The model describes the tree with the repairs F30, F32, F33, F34 in place. The EnvWizard theorems '
                   'are about the REBIND protocol of Env.load_environ (a complete copy is built, then the global is rebound); an '
                   'in-place refill of the shared dict is refuted in the model (C20_refuted_env_inplace), the protocol shape is '
                   'detected from the source, and a hook-free real-thread search (reload || plain instantiation, 12 000 filler '
                   'variables) looks for the failing run. V1 ENGINE: the complete first load of a v1 class with nested classes is a '
                   'micro-step program too (ConcV1Model.v: CLASS_TO_LOAD_FUNC, _META, FIELDS, FIELD_TO_DEFAULT, CLASS_TO_V1_LOADER, '
                   'IS_V1_LOAD_CONFIG_SETUP and the set-up filling the alias / AliasPath tables, the alias table read AND written during '
                   'generation under a key-case transform, nested generations under the recursion guard, Meta.bind_to of nested classes, '
                   'setattr, store); proved memo-shaped for EVERY class environment without AliasPath fields, hence (all schedules, any '
                   'number of threads, any lists of loads of the same class / of classes sharing nested classes) every load returns its '
                   'sequential result and no table holds a non-admissible value (C20_v1_load_plain / _linearizable / _sequential); with '
                   '>= 2 AliasPath fields REFUTED with concrete schedules (v1 site of F31), one of which leaves the class '
                   'half-initialised for ever; both reproduced on the implementation with the identical yield-point trace.'),
    'level_note': ('The theorem is about the micro-step model: preemption between two shared-table accesses. Not exhibited: races '
                   'inside one micro-step (between bytecodes of a dict-free statement), GIL release points inside C extensions, '
                   'free-threaded (no-GIL) builds where single dict operations are still atomic but the model rule R4 is not '
                   'validated, class definition / Meta binding running concurrently with calls. Of the v1 engine the first LOAD is a '
                   'full program model (replayed schedule for schedule); the v1 DUMP, explicit Alias(load=...) fields, Union / tag '
                   'tables and the AUTO key case are tied by the direct predicate only. In the v1 program the value read by '
                   '`name in field_to_default` and the CatchAll marker do not influence the modelled outcome (their protocols are '
                   'p_defaults of C20_protocols and C20_v1_catchall_plain); all threads of one scenario are assumed to carry the same '
                   'Meta settings (Meta leaking into shared nested classes is F10, property C07).'),
    'rule': ('scenario families x thread programs (2-3 threads, 1-2 calls each) x all schedules with <= bound preemptions at the '
             'H2 yield points (quick: bound 2, at most ~220 schedules per scenario chosen pseudo-randomly from the frontier when '
             'there are more; thorough: bound 3, up to 2000). A run is non-trivial when at least one preemption happened and two '
             'threads both passed a yield point; distinct = distinct (scenario, schedule). Stress: real threads, switch interval 1e-6; '
             'env reload stress: 4 (quick) / 8 (thorough) pristine processes x 40 / 150 reload rounds of one reloading thread against '
             'two plain-instantiating threads with 12 000 filler variables, every call compared with the sequential outcome.'),
    'trusted_base': [
        'model rules R1-R4 of coq/model/ConcModel.v (CPython: one dict get/set/pop/len is atomic; dicts iterate in insertion '
        'order; inserting a new key makes every live iterator over the dict raise RuntimeError at its next step; threads '
        'interleave only between shared-table accesses)',
        'hook H2: yield points are placed at every cache-miss / fill / store boundary that the model treats as a scheduling point '
        '(a missing point hides interleavings; the probe checks that every declared point is compiled in)',
        'two generated functions / loader classes / dumper classes for the same class are interchangeable (admissible values); '
        'validated by the direct predicate on every explored schedule, proved for the model only',
        'cooperative scheduler and forked pristine process per run (harness/impl/c20.py)',
        'v1 first-load program (coq/model/ConcV1Model.v): hand-written list of the shared-table accesses of '
        'loader_selection.fromdict -> v1/loaders.load_func_for_dataclass -> class_helper._setup_v1_load_config_for_cls in source '
        'order; tied on every run by the schedule-for-schedule replay (same yield-point arrivals, same outcome classes) over '
        '2-3 threads x same class / shared nested classes / key-case transform / CatchAll / AliasPath',
    ],
    'assumptions': ['os.environ is not modified while EnvWizard classes are instantiated',
                    'classes are defined and Meta is bound before the threads start'],
}

BOOL = {True: 'true', False: 'false'}
NAMES = ['alpha_one', 'beta_two', 'gamma_three', 'delta_four']
CAMEL = ['alphaOne', 'betaTwo', 'gammaThree', 'deltaFour']
HOOK_TYPES = ['str', 'int', 'float', 'bool', 'bytes', 'bytearray', 'NoneType', 'Enum', 'UUID', 'set', 'frozenset',
              'deque', 'list', 'tuple', 'NamedTupleMeta', 'defaultdict', 'dict', 'Decimal', 'datetime', 'time', 'date',
              'timedelta']   # documented order; pinned by theorem C20_hook_table against the live table


# ---------------------------------------------------------------------------
# scenario construction: one description, two printers (implementation JSON, Gallina)
class Scn:
    def __init__(self, name, family, fields, threads, wiz=False, skipdef=False, engine='v0', subtypes=None,
                 modelled=True, regions=(), env=None, extra_classes=None, kind='plain'):
        """fields: list of dicts {dflt: bool, path: bool, any: bool, catch_all: bool}
        threads: list of list of calls; call = ('load', [kspec...]) | ('dump', [vspec...]) | ('env', reload)
        kspec: ('exact', i) | ('camel', i) | ('unknown', j) | ('pathtop',)
        vspec: ('int', n) | ('str', s) | ('sub', name) """
        self.name, self.family, self.fields, self.threads = name, family, fields, threads
        self.wiz, self.skipdef, self.engine = wiz, skipdef, engine
        self.subtypes = subtypes or {}
        self.modelled = modelled
        self.regions = list(regions)
        self.env = env
        self.kind = kind
        self.extra_classes = extra_classes or []

    # ---- implementation side
    def impl(self):
        if self.kind == 'env':
            cls = {'name': 'E', 'kind': 'env', 'fields': [{'name': 'my_var', 'type': 'int'}]}
            return {'name': self.name, 'classes': [cls],
                    'threads': [[{'op': 'env', 'cls': 'E', 'kwargs': ({'_reload': True} if c[1] else {})} for c in th]
                                for th in self.threads]}
        fs = []
        for i, f in enumerate(self.fields):
            d = {'name': NAMES[i], 'type': 'any' if f.get('any') else ('catch_all' if f.get('catch_all') else 'int')}
            if f.get('dflt'):
                d['default'] = None if f.get('catch_all') else 10 + i
            if f.get('path'):
                d['path'] = 'pp.q%d' % i
            fs.append(d)
        meta = {}
        if self.skipdef:
            meta = {'skip_defaults': True} if self.wiz else {'dump': {'skip_defaults': True}}
        cls = {'name': 'K', 'engine': self.engine, 'wizard': self.wiz, 'fields': fs, 'meta': meta}
        ths = []
        for th in self.threads:
            calls = []
            for c in th:
                if c[0] == 'load':
                    calls.append({'op': 'load', 'cls': 'K', 'doc': self.doc(c[1])})
                else:
                    calls.append({'op': 'dump', 'cls': 'K', 'args': self.args(c[1])})
            ths.append(calls)
        return {'name': self.name, 'classes': self.extra_classes + [cls], 'threads': ths, 'subtypes': self.subtypes}

    def doc(self, ks):
        d = {}
        for n, k in enumerate(ks):
            if k[0] == 'exact':
                d[NAMES[k[1]]] = 100 + n
            elif k[0] == 'camel':
                d[CAMEL[k[1]]] = 100 + n
            elif k[0] == 'unknown':
                d['zzUnknown%d' % k[1]] = 0
            elif k[0] == 'pathtop':
                d['pp'] = {'q%d' % i: 200 + i for i, f in enumerate(self.fields) if f.get('path')}
            elif k[0] == 'raw':
                d[k[1]] = k[2]
        return d

    def args(self, vs):
        a = {}
        for i, v in enumerate(vs):
            if v[0] == 'sub':
                a[NAMES[i]] = {'sub': v[1]}
            elif v[0] == 'dflt':
                a[NAMES[i]] = 10 + i
            else:
                a[NAMES[i]] = v[1]
        return a

    # ---- model side
    def coq(self, fx='no_fixes'):
        cd = '(mkC [%s] %s %s %s)' % (
            '; '.join('(mkF %s %s)' % (BOOL[bool(f.get('dflt'))], BOOL[bool(f.get('path'))]) for f in self.fields),
            BOOL[self.wiz], BOOL[self.skipdef], BOOL[self.skipdef and not self.wiz])
        ths = []
        subids = {n: i for i, n in enumerate(sorted(self.subtypes))}
        for th in self.threads:
            calls = []
            for c in th:
                if c[0] == 'load':
                    ks = []
                    for k in c[1]:
                        ks.append({'exact': 'KExact %d', 'camel': 'KCamel %d', 'unknown': 'KUnknown %d'}[k[0]] % k[1]
                                  if k[0] != 'pathtop' else 'KPathTop')
                    calls.append('CLoad [%s]' % '; '.join(ks))
                elif c[0] == 'dump':
                    vs = []
                    for v in c[1]:
                        if v[0] == 'sub':
                            base = self.subtypes[v[1]]
                            if base in HOOK_TYPES:
                                vs.append('VTSub %d %d' % (subids[v[1]], HOOK_TYPES.index(base)))
                            else:
                                vs.append('VTOther %d' % subids[v[1]])
                        elif v[0] == 'str':
                            vs.append('VTBase %d' % HOOK_TYPES.index('str'))
                        else:
                            vs.append('VTBase %d' % HOOK_TYPES.index('int'))
                    calls.append('CDump [%s]' % '; '.join(vs))
                else:
                    calls.append('CEnv %s' % BOOL[bool(c[1])])
            ths.append('[%s]' % '; '.join(calls))
        return '(scenario %s %s [%s])' % (fx, cd, '; '.join(ths))


def F(dflt=False, path=False, any=False, catch_all=False):
    return {'dflt': dflt, 'path': path, 'any': any, 'catch_all': catch_all}


def full_doc(fields, r=None, spell=None):
    """keys for every field: path fields through the shared top key, others exact/camel."""
    ks, top = [], False
    for i, f in enumerate(fields):
        if f.get('path'):
            if not top:
                ks.append(('pathtop',)); top = True
        else:
            sp = spell[i] if spell else (r.choice(['exact', 'camel']) if r else 'exact')
            ks.append((sp, i))
    return ks


def dump_vals(fields, subs=None):
    out = []
    for i, f in enumerate(fields):
        if subs and i in subs:
            out.append(('sub', subs[i]))
        elif f.get('dflt'):
            out.append(('dflt',))
        else:
            out.append(('int', 1 + i))
    return out


def scenarios(ctx):
    r = ctx.sub_rng('scenarios')
    S = []
    thorough = ctx.tier == 'thorough'
    # ---- PLAIN (safe region): first load || first load, spelled variously ---------------------------
    nf = r.choice([2, 3])
    plain = [F(dflt=(i == nf - 1)) for i in range(nf)]
    d0 = full_doc(plain[:nf - 1], r) + [('unknown', 0)]
    d1 = full_doc(plain, r)
    S.append(Scn('plain load||load', 'plain', plain, [[('load', d0)], [('load', d1)]]))
    S.append(Scn('plain wizard load||load', 'plain', plain, [[('load', d1)], [('load', d0)]], wiz=True))
    S.append(Scn('plain dump||load', 'plain', plain, [[('dump', dump_vals(plain))], [('load', d1)]]))
    S.append(Scn('plain dump||dump', 'plain', plain, [[('dump', dump_vals(plain))], [('dump', dump_vals(plain))]],
                 wiz=r.choice([True, False])))
    # novel key spellings on a warm class: the key cache only
    S.append(Scn('plain warm, novel key||same key', 'plain', plain,
                 [[('load', full_doc(plain, None, ['exact'] * nf)), ('load', full_doc(plain, None, ['camel'] * nf))],
                  [('load', full_doc(plain, None, ['exact'] * nf)), ('load', full_doc(plain, None, ['camel'] * nf) + [('unknown', 1)])]]))
    S.append(Scn('plain 3 threads load||load||dump', 'plain', plain[:2],
                 [[('load', full_doc(plain[:2], r))], [('load', full_doc(plain[:2], r))], [('dump', dump_vals(plain[:2]))]]))
    one_path = [F(path=True), F()]
    S.append(Scn('one path field dump||load', 'plain1path', one_path,
                 [[('dump', dump_vals(one_path))], [('load', full_doc(one_path))]]))
    # ---- PATHS (>= 2 JSON-path fields): two-phase fill of DATACLASS_FIELD_TO_JSON_PATH  (F31) ---------
    npth = r.choice([2, 3]) if thorough else 2
    paths = [F(path=True) for _ in range(npth)] + ([F()] if r.random() < 0.5 else [])
    S.append(Scn('paths load||load', 'paths', paths, [[('load', full_doc(paths))], [('load', full_doc(paths))]], regions=['F31']))
    S.append(Scn('paths dump||dump', 'paths', paths, [[('dump', dump_vals(paths))], [('dump', dump_vals(paths))]], regions=['F31']))
    S.append(Scn('paths dump||load', 'paths', paths, [[('dump', dump_vals(paths))], [('load', full_doc(paths))]], regions=['F31']))
    # ---- DEFAULTS + skip_defaults: FIELD_TO_DEFAULT registered empty, then filled  (F32) ---------------
    dfl = ([F()] if r.random() < 0.5 else []) + [F(dflt=True), F(dflt=True)]
    S.append(Scn('defaults skip_defaults dump||dump', 'defaults', dfl,
                 [[('dump', dump_vals(dfl))], [('dump', dump_vals(dfl))]], skipdef=True))
    # ---- HOOK SCAN: value of a new subtype || value of another new subtype  (F30) -----------------------
    subs = {'MyDict': 'dict', 'MyStr': 'str', 'MyInt': 'int', 'MyList': 'list', 'MyObj': 'object'}
    a, b = r.sample(['MyDict', 'MyList', 'MyObj'], 1)[0], r.choice(['MyStr', 'MyInt'])
    hs = [F(any=True)]
    S.append(Scn('hook scan cold dump||dump', 'hookscan', hs, [[('dump', [('sub', a)])], [('dump', [('sub', b)])]],
                 subtypes={a: subs[a], b: subs[b]}))
    S.append(Scn('hook scan warm dump||dump', 'hookscan', hs,
                 [[('dump', [('int', 1)]), ('dump', [('sub', a)])], [('dump', [('int', 2)]), ('dump', [('sub', b)])]],
                 subtypes={a: subs[a], b: subs[b]}))
    S.append(Scn('hook scan same subtype dump||dump', 'hookscan', hs, [[('dump', [('sub', b)])], [('dump', [('sub', b)])]],
                 subtypes={b: subs[b]}))
    # ---- ENV ---------------------------------------------------------------------------------------------
    S.append(Scn('env instantiate||instantiate', 'env', [], [[('env', False)], [('env', False)]], kind='env'))
    S.append(Scn('env instantiate||instantiate(_reload)', 'env', [], [[('env', False)], [('env', True)]], kind='env'))
    if thorough:
        S.append(Scn('env 3 threads', 'env', [], [[('env', False)], [('env', True)], [('env', False)]], kind='env'))
        S.append(Scn('paths 3 threads', 'paths', paths, [[('load', full_doc(paths))], [('dump', dump_vals(paths))], [('load', full_doc(paths))]], regions=['F31']))
        S.append(Scn('hook scan 3 threads', 'hookscan', hs, [[('dump', [('sub', a)])], [('dump', [('sub', b)])], [('dump', [('sub', 'MyObj')])]],
                     subtypes={a: subs[a], b: subs[b], 'MyObj': 'object'}))
    # ---- v1 engine and nested classes: direct predicate only (no program model) -------------------------
    v1p = [F(), F(dflt=True)]
    S.append(Scn('v1 plain load||load', 'v1', [F(), F()], [[('load', full_doc([F(), F()], r))], [('load', full_doc([F(), F()], r))]],
                 engine='v1', modelled=False))
    S.append(Scn('v1 defaults load||load', 'v1', v1p, [[('load', [('exact', 0)])], [('load', [('exact', 0), ('exact', 1)])]],
                 engine='v1', modelled=False))
    v1c = [F(), F(dflt=True, catch_all=True)]
    S.append(Scn('v1 catch-all load||load', 'v1', v1c,
                 [[('load', [('exact', 0), ('unknown', 0)])], [('load', [('exact', 0), ('unknown', 1)])]],
                 engine='v1', modelled=False))
    v1pa = [F(path=True), F(path=True)]
    S.append(Scn('v1 paths load||dump', 'v1', v1pa, [[('load', full_doc(v1pa))], [('dump', dump_vals(v1pa))]],
                 engine='v1', modelled=False, regions=['F31']))
    S.extend(nested_scenarios(ctx))
    S.extend(v1_program_scenarios(ctx))
    S.extend(env_new_names_scenarios(ctx))
    inner = {'name': 'Inner', 'engine': 'v0', 'wizard': False, 'fields': [{'name': 'xx_val', 'type': 'int'}], 'meta': {}}
    nest = Scn('nested class load||dump', 'nested', [F()], [[('load', [('exact', 0), ('raw', 'child', {'xxVal': 5})])],
                                                           [('dump', [('int', 1)])]], modelled=False, extra_classes=[inner])
    nest.nested = True
    S.append(nest)
    return S


class RawScn:
    """A scenario given directly in the runner's JSON form (several main classes, shared nested classes,
    env classes with secrets / dotenv files).  Direct predicate only: no program model."""
    modelled = False
    wiz = skipdef = False
    kind = 'raw'

    def __init__(self, name, family, classes, threads, engine='v0', files=None, regions=()):
        if family == 'env_new_names' and not regions:
            regions = ['F39']
        self.name, self.family, self.classes, self.calls, self.engine = name, family, classes, threads, engine
        self.threads = threads
        self.files = files
        self.regions = list(regions)
        self.fields = []
        self.subtypes = {}

    def impl(self):
        d = {'name': self.name, 'classes': self.classes, 'threads': self.calls, 'subtypes': {}}
        if self.files:
            d['files'] = self.files
        return d


class V1Scn(RawScn):
    """First v1 loads, MODELLED (coq/model/ConcV1Model.v): classes in the runner's JSON form, a list of load calls per thread.
    The class environment of the model is derived from the same description: class id = position; per field
    (default, AliasPath, CatchAll, nested class id); key-case transform; wizard; loader bound at definition time
    (function-API classes are bound by LoadMeta(v1=True).bind_to)."""
    modelled = True
    kind = 'v1m'

    def __init__(self, name, classes, threads, regions=()):
        RawScn.__init__(self, name, 'v1_program', classes, threads, engine='v1', regions=regions)
        # region_of looks at sc.fields for the number of path fields: those of the class with most of them
        best = max(classes, key=lambda c: sum(1 for f in c['fields'] if f.get('path')))
        self.fields = [{'path': bool(f.get('path'))} for f in best['fields']]
        self.path_names = {f['name'] for c in classes for f in c['fields'] if f.get('path')}

    def coq(self, fx=None):
        ids = {c['name']: i for i, c in enumerate(self.classes)}
        env = []
        for c in self.classes:
            assert c.get('engine') == 'v1'
            fs = []
            for f in c['fields']:
                assert not f.get('alias'), 'explicit Alias(...) fields are outside the v1 program model'
                nested = 'None'
                if f['type'].startswith('cls:'):
                    nested = '(Some %d)' % ids[f['type'][4:]]
                fs.append('(mkV1F %s %s %s %s)' % (BOOL['default' in f], BOOL[bool(f.get('path'))],
                                                    BOOL[f['type'] == 'catch_all'], nested))
            meta = c.get('meta') or {}
            kc = (meta.get('v1_key_case') if c.get('wizard') else (meta.get('load') or {}).get('v1_key_case'))
            assert kc in (None, 'CAMEL')
            env.append('(mkV1C [%s] %s %s %s)' % ('; '.join(fs), BOOL[kc == 'CAMEL'], BOOL[bool(c.get('wizard'))],
                                                  BOOL[not c.get('wizard')]))
        pss = []
        for th in self.calls:
            assert th and all(c['op'] == 'load' for c in th)
            pss.append('[%s]' % '; '.join(str(ids[c['cls']]) for c in th))
        return '(v1_scenario [%s] [%s])' % ('; '.join(env), '; '.join(pss))


def camel(n):
    a = n.split('_')
    return a[0] + ''.join(x.capitalize() for x in a[1:])


def v1_program_scenarios(ctx):
    """2-3 threads making the FIRST v1 load of the same class / of classes that share nested classes; key-case
    transform (generation writes aliases into the shared alias table) or not; defaults; CatchAll; wizard / function API;
    AliasPath fields (two-phase path table, F31).  Every run is compared schedule-for-schedule with ConcV1Model."""
    r = ctx.sub_rng('v1_program')
    S = []

    def mk(kc):
        K = (lambda n: camel(n)) if kc else (lambda n: n)

        def C(name, fields, wiz=False):
            meta = ({'v1_key_case': 'CAMEL'} if wiz else {'load': {'v1_key_case': 'CAMEL'}}) if kc else {}
            return {'name': name, 'engine': 'v1', 'wizard': wiz, 'fields': fields, 'meta': meta}
        L = lambda c, doc: {'op': 'load', 'cls': c, 'doc': doc}
        return K, C, L

    wiz_kc = r.choice([False, True])
    for kc in (False, True):
        K, C, L = mk(kc)
        t = 'v1 program%s: ' % (' (CAMEL)' if kc else '')
        # -- one class, 2-3 fields, a default somewhere, 2 and 3 threads
        nf = r.choice([2, 3])
        fs = [{'name': NAMES[i], 'type': 'int'} for i in range(nf)]
        fs[-1]['default'] = 7
        k = C('K', fs)
        full = {K(NAMES[i]): 100 + i for i in range(nf)}
        part = {K(NAMES[i]): 200 + i for i in range(nf - 1)}
        # (a later load by the same thread sees what the race left behind: a half-initialised class shows there)
        S.append(V1Scn(t + 'same class load||load,load', [k], [[L('K', full)], [L('K', part), L('K', full)]]))
        if kc or ctx.tier == 'thorough':
            S.append(V1Scn(t + 'same class 3 threads', [k], [[L('K', full)], [L('K', part)], [L('K', full)]]))
        # -- wizard class with a CatchAll field
        w = C('W', [{'name': 'alpha_one', 'type': 'int'}, {'name': 'rest_all', 'type': 'catch_all', 'default': None}], wiz=True)
        if kc == wiz_kc or ctx.tier == 'thorough':
            S.append(V1Scn(t + 'wizard catch-all load||load', [w],
                           [[L('W', {K('alpha_one'): 1, 'zz1': 5})], [L('W', {K('alpha_one'): 2})]]))
        # -- shared nested classes, depth 1 and 2
        inner = C('Inner', [{'name': 'xx_val', 'type': 'int'}])
        mid = C('Mid', [{'name': 'inner', 'type': 'cls:Inner'}, {'name': 'mm_val', 'type': 'int', 'default': 3}])
        o1 = C('Outer1', [{'name': 'inner', 'type': 'cls:Inner'}, {'name': 'nn_val', 'type': 'int'}])
        o2 = C('Outer2', [{'name': 'inner', 'type': 'cls:Inner'}, {'name': 'ss_val', 'type': 'str', 'default': 'd'}])
        d1 = C('Deep1', [{'name': 'mid', 'type': 'cls:Mid'}, {'name': 'nn_val', 'type': 'int'}])
        d2 = C('Deep2', [{'name': 'mid', 'type': 'cls:Mid'}, {'name': 'inner', 'type': 'cls:Inner'}])
        I = lambda x: {K('xx_val'): x}
        lo1 = L('Outer1', {'inner': I(1), K('nn_val'): 5})
        lo2 = L('Outer2', {'inner': I(2), K('ss_val'): 'v'})
        li = L('Inner', I(9))
        ld1 = L('Deep1', {'mid': {'inner': I(1), K('mm_val'): 4}, K('nn_val'): 5})
        ld2 = L('Deep2', {'mid': {'inner': I(2)}, 'inner': I(3)})
        base, deep = [inner, o1, o2], [inner, mid, d1, d2]
        if kc:
            S.append(V1Scn(t + 'shared nested Outer1||Outer2', base, [[lo1], [lo2]]))
            S.append(V1Scn(t + 'shared nested Inner,Outer2||Outer1,Inner', base, [[li, lo2], [lo1, li]]))
            S.append(V1Scn(t + 'depth 2 Deep1||Deep2', deep, [[ld1], [ld2]]))
        else:
            S.append(V1Scn(t + 'shared nested Outer1||Outer1', base, [[lo1], [lo1]]))
            S.append(V1Scn(t + '3 threads Outer1||Outer2||Inner', base, [[lo1], [lo2], [li]]))
            if ctx.tier == 'thorough':
                S.append(V1Scn(t + 'depth 2 Deep2||Mid', deep, [[ld2], [L('Mid', {'inner': I(7)})]]))
    # -- AliasPath fields: the v1 site of F31 (the model predicts the MissingFields of the same schedules)
    K, C, L = mk(False)
    npth = r.choice([2, 3]) if ctx.tier == 'thorough' else 2
    pf = [{'name': NAMES[i], 'type': 'int', 'path': 'pp.q%d' % i} for i in range(npth)]
    pk = C('K', pf)
    doc = {'pp': {'q%d' % i: 300 + i for i in range(npth)}}
    S.append(V1Scn('v1 program: AliasPath x%d load||load,load' % npth, [pk], [[L('K', doc)], [L('K', doc), L('K', doc)]],
                   regions=['F31']))
    one = C('K', [{'name': 'alpha_one', 'type': 'int', 'path': 'pp.q0'}, {'name': 'beta_two', 'type': 'int'}])
    S.append(V1Scn('v1 program: one AliasPath load||load', [one],
                   [[L('K', {'pp': {'q0': 1}, 'beta_two': 2})], [L('K', {'pp': {'q0': 3}, 'beta_two': 4})]]))
    return S


def nested_scenarios(ctx):
    """threads working on DIFFERENT main classes that SHARE nested classes (depth 1 and 2), first use, both engines,
    load and dump, 2-3 threads"""
    S = []
    for eng in ('v0', 'v1'):
        def C(name, fields):
            return {'name': name, 'engine': eng, 'wizard': False, 'fields': fields, 'meta': {}}
        inner = C('Inner', [{'name': 'xx_val', 'type': 'int'}])
        mid = C('Mid', [{'name': 'inner', 'type': 'cls:Inner'}, {'name': 'mm_val', 'type': 'int', 'default': 3}])
        o1 = C('Outer1', [{'name': 'inner', 'type': 'cls:Inner'}, {'name': 'nn_val', 'type': 'int'}])
        o2 = C('Outer2', [{'name': 'inner', 'type': 'cls:Inner'}, {'name': 'ss_val', 'type': 'str'}])
        d1 = C('Deep1', [{'name': 'mid', 'type': 'cls:Mid'}, {'name': 'nn_val', 'type': 'int'}])
        d2 = C('Deep2', [{'name': 'mid', 'type': 'cls:Mid'}, {'name': 'inner', 'type': 'cls:Inner'}])
        I = lambda x: {'inst': 'Inner', 'args': {'xx_val': x}}
        M = lambda x: {'inst': 'Mid', 'args': {'inner': I(x), 'mm_val': 3}}
        L = lambda c, doc: {'op': 'load', 'cls': c, 'doc': doc}
        D = lambda c, args: {'op': 'dump', 'cls': c, 'args': args}
        lo1, lo2 = L('Outer1', {'inner': {'xx_val': 1}, 'nn_val': 5}), L('Outer2', {'inner': {'xx_val': 2}, 'ss_val': 'v'})
        li = L('Inner', {'xx_val': 9})
        ld1 = L('Deep1', {'mid': {'inner': {'xx_val': 1}, 'mm_val': 4}, 'nn_val': 5})
        ld2 = L('Deep2', {'mid': {'inner': {'xx_val': 2}}, 'inner': {'xx_val': 3}})
        do1, do2 = D('Outer1', {'inner': I(1), 'nn_val': 5}), D('Outer2', {'inner': I(2), 'ss_val': 'v'})
        dd1, dd2 = D('Deep1', {'mid': M(1), 'nn_val': 5}), D('Deep2', {'mid': M(2), 'inner': I(3)})
        base = [inner, o1, o2]
        deep = [inner, mid, d1, d2]
        t = eng + ' shared nested: '
        S.append(RawScn(t + 'load Outer1 || load Outer2', 'nested', base, [[lo1], [lo2]], engine=eng))
        S.append(RawScn(t + 'load Inner || load Outer1', 'nested', base, [[li], [lo1]], engine=eng))
        S.append(RawScn(t + 'dump Outer1 || dump Outer2', 'nested', base, [[do1], [do2]], engine=eng))
        S.append(RawScn(t + 'load Outer1 || dump Outer2', 'nested', base, [[lo1], [do2]], engine=eng))
        S.append(RawScn(t + 'depth 2 load Deep1 || load Deep2', 'nested', deep, [[ld1], [ld2]], engine=eng))
        S.append(RawScn(t + 'depth 2 dump Deep1 || dump Deep2', 'nested', deep, [[dd1], [dd2]], engine=eng))
        S.append(RawScn(t + '3 threads load Outer1 || load Outer2 || load Inner', 'nested', base, [[lo1], [lo2], [li]], engine=eng))
        if ctx.tier == 'thorough':
            S.append(RawScn(t + 'depth 2, 3 threads load Deep1 || dump Deep2 || load Mid', 'nested', deep,
                            [[ld1], [dd2], [L('Mid', {'inner': {'xx_val': 7}})]], engine=eng))
    return S


def env_new_names_scenarios(ctx):
    """two (three) EnvWizard instantiations that each bring NEW variable names (own secrets directory / dotenv file):
    Env.reload(env) must not lose the names the other thread publishes"""
    def E(name, extra):
        return {'name': name, 'kind': 'env', 'fields': [{'name': 'my_var', 'type': 'int'}, {'name': extra, 'type': 'int'}]}
    files = {'dirs': {'sa': {'ALPHA_SECRET': '11'}, 'sb': {'BETA_SECRET': '22'}}, 'dotenv': {'g.env': 'GAMMA_VAL=33\n'}}
    ca = {'op': 'env', 'cls': 'EA', 'kwargs': {'_secrets_dir': '@sa'}}
    cb = {'op': 'env', 'cls': 'EB', 'kwargs': {'_secrets_dir': '@sb'}}
    cg = {'op': 'env', 'cls': 'EG', 'kwargs': {'_env_file': '@g.env'}}
    classes = [E('EA', 'alpha_secret'), E('EB', 'beta_secret'), E('EG', 'gamma_val')]
    S = [RawScn('env new names: secrets dir A || secrets dir B', 'env_new_names', classes, [[ca], [cb]], files=files),
         RawScn('env new names: secrets dir A || dotenv file', 'env_new_names', classes, [[ca], [cg]], files=files),
         RawScn('env new names warm: (plain, secrets A) || (plain, secrets B)', 'env_new_names', classes,
                [[{'op': 'env', 'cls': 'EG', 'kwargs': {'_env_file': '@g.env'}}, ca], [cg, cb]], files=files)]
    if ctx.tier == 'thorough':
        S.append(RawScn('env new names: secrets A || secrets B || dotenv', 'env_new_names', classes, [[ca], [cb], [cg]], files=files))
    return S


def impl_scenario(sc):
    d = sc.impl()
    if getattr(sc, 'nested', False):
        k = d['classes'][-1]
        k['fields'].append({'name': 'child', 'type': 'cls:Inner'})
        for th in d['threads']:
            for c in th:
                if c['op'] == 'dump':
                    c['args']['child'] = {'inst': 'Inner', 'args': {'xx_val': 3}}
    return d


# ---------------------------------------------------------------------------
def okey(o):
    return json.dumps(o, sort_keys=True)


def seq_reference(seq):
    """set of sequential outcome vectors, and per call the set of sequential outcomes."""
    vecs = {okey(s['outcomes']) for s in seq if 'outcomes' in s}
    per = {}
    for s in seq:
        for t, outs in enumerate(s.get('outcomes', [])):
            for j, o in enumerate(outs):
                per.setdefault((t, j), set()).add(okey(o))
    return vecs, per


def tag(o, refs):
    if okey(o) in refs:
        return 'seq'
    if 'err' in o:
        return o['err']
    return 'wrong'


def events(run):
    """[tid, arrival] per decision: the yield point the released thread arrived at, or 'end'."""
    ev, tr = [], list(run['trace'])
    k = 0
    for ch in run['schedule']:
        if k < len(tr) and tr[k][0] == ch:
            # the k-th arrival belongs to this decision iff the chosen thread produced it
            ev.append([ch, tr[k][1]]); k += 1
        else:
            ev.append([ch, 'end'])
    return ev


CFG_BEGIN = {'load_cfg.begin', 'dump_cfg.begin', 'v1_cfg.begin'}


def region_of(sc, run, t, j, o, ref_per):
    """Which listed finding explains the non-sequential outcome `o` of call j of thread t? (None = none)"""
    err = o.get('err')
    trace = run.get('trace') or []
    npaths = sum(1 for f in sc.fields if f.get('path'))
    # F31: two set-ups of the per-class path tables overlap (>= 2 JSON-path fields)
    # third manifestation (first seen in a real-thread stress run of `paths dump||load`): the load generator ITERATES
    # the shared path table (loaders.py:651 `for field, path in field_to_path.items()`) while the other thread's
    # set-up is still adding entries to it in place -> RuntimeError 'dictionary changed size during iteration'
    if npaths >= 2 and err in ('KeyError', 'MissingFields', 'RuntimeError'):
        pnames = getattr(sc, 'path_names', None) or {NAMES[i] for i, f in enumerate(sc.fields) if f.get('path')}
        if err == 'MissingFields' and not set(o.get('missing_fields') or []) <= pnames:
            return None
        if err == 'RuntimeError' and not o.get('dict_changed_size'):
            return None
        starters = {tid for tid, n in trace if n in CFG_BEGIN}
        if (not trace) or len(starters) >= 2:
            return 'F31'
    # F39: both threads ran the getter of the cached class property Env.var_names (first access), and one of them
    # brings new variable names that the other's late `setattr` discards
    if sc.family == 'env_new_names' and err == 'MissingVars':
        getters = {tid for tid, n in trace if n == 'env.var_names'}
        if (not trace) or len(getters) >= 2:
            return 'F39'
    # F39, second site: both threads made the first `environ = os.environ.copy()`; the later rebind drops the other's
    # in-place `environ.update(secrets / dotenv)`
    # F39, third manifestation: Env.cleaned_to_env iterates Env.var_names while another thread's reload(env) grows it
    if sc.family == 'env_new_names' and err == 'RuntimeError':
        names = {n for _, n in trace}
        if (not trace) or {'env.cleaned', 'env.names_update'} <= names:
            return 'F39'
    if sc.family == 'env_new_names' and err == 'KeyError':
        loaders_ = {tid for tid, n in trace if n == 'env.load_environ'}
        if (not trace) or len(loaders_) >= 2:
            return 'F39'
    return None


def regressions():
    """The schedules that exposed the four defects repaired since (named schedules, independent of the
    number of yield points): replayed on every run, a non-sequential outcome is a VIOLATION with this
    schedule as replay input."""
    hs = [F(any=True)]
    dfl = [F(dflt=True), F(dflt=True)]
    v1c = [F(), F(dflt=True, catch_all=True)]
    return [
        ('F30 hook scan: A inside `for t in tuple(hooks)`, B caches a new subtype',
         Scn('regression F30', 'hookscan', hs, [[('dump', [('sub', 'MyDict')])], [('dump', [('sub', 'MyStr')])]],
             subtypes={'MyDict': 'dict', 'MyStr': 'str'}),
         [[0, 'hook_scan.iter', 1], [1, 'end'], [0, 'end']]),
        ('F30 hook scan, no matching hook: A walks the whole table, B caches a new subtype',
         Scn('regression F30b', 'hookscan', hs, [[('dump', [('sub', 'MyObj')])], [('dump', [('sub', 'MyStr')])]],
             subtypes={'MyObj': 'object', 'MyStr': 'str'}),
         [[0, 'hook_scan.iter', 5], [1, 'end'], [0, 'end']]),
        ('F32 defaults dict: A between creating and publishing the dict, B generates',
         Scn('regression F32', 'defaults', dfl, [[('dump', dump_vals(dfl))], [('dump', dump_vals(dfl))]], skipdef=True),
         [[0, 'defaults.registered', 1], [1, 'end'], [0, 'end']]),
        ('F32 defaults dict: A half-way through the fill loop, B generates',
         Scn('regression F32b', 'defaults', dfl, [[('dump', dump_vals(dfl))], [('dump', dump_vals(dfl))]], skipdef=True),
         [[0, 'defaults.fill', 2], [1, 'end'], [0, 'end']]),
        ('F33 v1 catch-all: A has read the alias table, B generates and stores, A resumes',
         Scn('regression F33', 'v1', v1c, [[('load', [('exact', 0), ('unknown', 0)])], [('load', [('exact', 0), ('unknown', 1)])]],
             engine='v1', modelled=False),
         [[0, 'v1_load.aliases_read', 1], [1, 'end'], [0, 'end']]),
        ('F34 Env.reload: reloading thread parked at its first load_environ, the other instantiates',
         Scn('regression F34', 'env', [], [[('env', False)], [('env', True)]], kind='env'),
         [[1, 'env.load_environ', 1], [0, 'end'], [1, 'end']]),
        ('F34 Env.reload: reloading thread parked at var_names, the other instantiates',
         Scn('regression F34b', 'env', [], [[('env', False)], [('env', True)]], kind='env'),
         [[1, 'env.var_names', 1], [0, 'end'], [1, 'end']]),
    ]


def run(ctx):
    probe = ctx.impl('c20', {'op': 'probe'})
    ctx.extra_cov['hook_H2'] = probe
    hook_ok = probe.get('hook') and probe.get('enabled') and not probe.get('missing_calls')
    if not hook_ok:
        ctx.broken_tie('hook H2 (dataclass_wizard/_verif.py yield points) is missing or incomplete in the tree under test: '
                       'no interleaving can be explored', probe)
    else:
        declared = set(probe['points'])
        need = {'fields.miss', 'defaults.miss', 'defaults.registered', 'defaults.fill', 'load_cfg.begin', 'load_cfg.field',
                'load_cfg.store', 'dump_cfg.begin', 'dump_cfg.paths_read', 'dump_cfg.field', 'dump_cfg.flag', 'loader.miss',
                'dumper.miss', 'load.miss', 'load.gen', 'load.setattr', 'load.store', 'dump.miss', 'dump.gen', 'dump.cfg_done',
                'dump.setattr', 'dump.store', 'hook_scan.begin', 'hook_scan.iter', 'hook_scan.store', 'key_cache.miss',
                'key_cache.store', 'env.load_environ', 'env.var_names', 'env.cleaned', 'v1_cfg.begin', 'v1_cfg.paths_read',
                'v1_cfg.field', 'v1_cfg.flag', 'v1_load.gen', 'v1_load.aliases_read', 'v1_load.setattr', 'v1_load.store'}
        if not need <= declared:
            hook_ok = False
            ctx.broken_tie('hook H2 lacks yield points the model treats as scheduling points', sorted(need - declared))

    # The model describes the tree WITH the repairs F30, F32, F33, F34; for the open F31 it has both
    # variants and the harness detects from the source which one the tree under test has.
    fixes = probe.get('fixes') or {}
    not_repaired = [f for f in ('F30', 'F32', 'F33', 'F34') if fixes.get(f) is not True]
    if not_repaired:
        ctx.broken_tie('the code at the call sites of %s does not have the (repaired) shape the model describes'
                       % not_repaired, {'fixes': fixes, 'error': probe.get('fixes_error')})
    if fixes.get('F31') is None:
        ctx.broken_tie('the `set_paths` sites of class_helper.py have neither the pinned nor the repaired shape the model knows',
                       {'fixes': fixes, 'error': probe.get('fixes_error')})
    # REBIND vs IN-PLACE: how Env.load_environ installs the copy of os.environ (C20_env_plain is about REBIND only)
    inplace = fixes.get('env_inplace')
    if inplace is None:
        ctx.broken_tie('Env.load_environ neither rebinds `environ` nor mutates it in a way the model knows', fixes)
    elif inplace:
        ctx.notes.append('Env.load_environ refills the shared `environ` dict IN PLACE: not memo-shaped, C20_env_plain / '
                         'C20_partial do not cover EnvWizard calls on this tree (model: C20_refuted_env_inplace)')
    h2b = hook_ok and {'env.names_update', 'env.cleaned_update'} <= set(probe.get('points', []))
    fx = '(mkX %s %s %s)' % (BOOL[bool(fixes.get('F31'))], BOOL[bool(inplace)], BOOL[bool(h2b)])
    ctx.extra_cov['code_shape_detected'] = dict(fixes, h2b=bool(h2b))
    # hook completeness: every in-place bulk mutation of shared state must be directly preceded by a yield point
    # (else the window it opens is invisible to the schedule exploration).  The four sites below exist in the
    # current tree; they only ADD entries that are already there when the environment does not change (modelled
    # in p_reload, or outside the modelled calls: secrets / dotenv); hook extension H2b gives them yield points.
    KNOWN_SITES = {('lookups.py', 'reload', 'env_vars', 'update'), ('lookups.py', 'reload', 'cls.cleaned_to_env', 'update'),
                   ('lookups.py', 'update_with_secret_values', 'environ', 'update'),
                   ('lookups.py', 'update_with_dotenv', 'environ', 'update'),
                   # single publications whose yield point sits in the caller / in the loop before them (modelled),
                   # and Meta creation at class set-up time (outside the calls C20 quantifies over)
                   ('class_helper.py', 'set_class_dumper', 'CLASS_TO_DUMPER', 'setitem'),
                   ('class_helper.py', 'dataclass_field_to_default', 'FIELD_TO_DEFAULT', 'setitem'),
                   ('class_helper.py', 'create_meta', '_META', 'setitem')}
    sites = probe.get('inplace_sites')
    if hook_ok:
        if sites is None or any('error' in x for x in sites):
            ctx.broken_tie('the scan for in-place mutations of shared state could not be run', sites)
        else:
            unguarded = [x for x in sites if (x['file'], x['function'], x['receiver'], x['op']) not in KNOWN_SITES]
            ctx.extra_cov['inplace_sites_without_yield_point'] = sites
            if unguarded:
                ctx.broken_tie('hook H2 incomplete: module-level / shared state is mutated without a yield point at %s'
                               % ', '.join('%s:%s `%s`' % (x['file'], x['line'], x['code']) for x in unguarded), unguarded)

    quick = ctx.tier == 'quick'
    bound = 2 if quick else 3
    scs = scenarios(ctx)
    env = {'MY_VAR': '42'}

    def explore(sc):
        budget = (220 if quick else 2000) if sc.modelled else (120 if quick else 1200)
        if sc.family == 'v1_program':
            budget = 120 if quick else 1500
        if len(sc.threads) > 2:
            budget = int(budget * 1.25)
        p = {'op': 'explore' if hook_ok else 'seq', 'scenario': impl_scenario(sc), 'bound': bound, 'max_runs': budget,
             'seed': ctx.seed % 100000}
        res = ctx.impl('c20', p, timeout=1500, extra_env=env)
        for rn in res.get('runs', []):
            if rn.get('status') == 'ok':
                rn['trace'] = [tuple(x) for x in rn['trace']]
        return res

    import time as _time
    _t0 = _time.time()
    with cf.ThreadPoolExecutor(max_workers=8) as ex:
        results = list(ex.map(explore, scs))
    ctx.notes.append('phase explore: %.1fs (since start of check %.1fs)' % (_time.time() - _t0, _time.time() - ctx.t0))
    _t0 = _time.time()

    # ---- model predictions for all modelled runs, in one batch ---------------------------------------
    exprs, owners = [], []
    for sc, res in zip(scs, results):
        if not sc.modelled or not ctx.coq_ok:
            continue
        scn = sc.coq(fx)
        for k, rn in enumerate(res.get('runs', [])):
            if rn.get('status') == 'ok':
                exprs.append('(show_run_c %s [%s])' % (scn, ';'.join(str(x) for x in rn['schedule'])))
                owners.append((sc, rn))
    preds, codes = {}, {}
    if exprs:
        outs, last = None, None
        for attempt in range(3):   # a coqc killed by the OS on an overloaded machine is retried, not reported
            try:
                outs = ctx.coq(['show_codes'] + exprs, imports=['PyStr', 'ConcModel', 'ConcV1Model'], tag='runs%d' % attempt)
                break
            except Exception as e:
                last = e
                _time.sleep(2 + 5 * attempt)
        if outs is not None:
            # the model's own table "yield point name = one-character code" (compact traces)
            codes = dict(x.split('=') for x in outs[0].split(','))
            if len(set(codes.values())) != len(codes) or any(len(c) != 1 for c in codes.values()):
                ctx.broken_tie('ConcModel.yp_code is not injective', outs[0])
                codes = {}
            for (sc, rn), o in zip(owners, outs[1:]):
                preds[id(rn)] = o
        else:  # model no longer evaluates: broken tie, predicates below still run
            ctx.broken_tie('ConcModel.show_run no longer evaluates', str(last)[-1500:])

    ctx.notes.append('phase model replay: %.1fs for %d schedules' % (_time.time() - _t0, len(exprs)))
    open_regions = {f['id'].split('-')[0]: f['id'] for f in ctx.findings('open')}
    for sc, res in zip(scs, results):
        vecs, per = seq_reference(res.get('sequential', []))
        ctx.hist('scenario_family', sc.family)
        ctx.hist('sequential_variants', len(vecs))
        if not vecs:
            ctx.violation('no sequential reference could be computed for scenario %s' % sc.name,
                          {'scenario': impl_scenario(sc)}, no_input=True)
            continue
        n_nonseq = 0
        n_viol = 0
        for rn in res.get('runs', []):
            sched = rn.get('schedule', [])
            if rn.get('status') != 'ok':
                ctx.broken_tie('scheduler run did not complete (%s) in scenario %s' % (rn.get('status'), sc.name),
                               {'prefix': rn.get('prefix'), 'error': rn.get('error')})
                continue
            threads_seen = {t for t, _ in rn['trace']}
            ctx.count(1, key=[sc.name, sched], nontrivial=(rn.get('preemptions', 0) >= 1 and len(threads_seen) >= 2))
            ctx.hist('preemptions', rn.get('preemptions', 0))
            tags = [[tag(o, per.get((t, j), set())) for j, o in enumerate(outs)] for t, outs in enumerate(rn['outcomes'])]
            # (a) direct predicate
            holds = okey(rn['outcomes']) in vecs
            if not holds:
                n_nonseq += 1
                unexplained = []
                for t, outs in enumerate(rn['outcomes']):
                    for j, o in enumerate(outs):
                        if tags[t][j] != 'seq':
                            fid = region_of(sc, rn, t, j, o, per)
                            if fid and fid in open_regions and fid in sc.regions:
                                ctx.hist('known_region', open_regions[fid])
                            else:
                                unexplained.append([t, j, tags[t][j], fid])
                if all(x == 'seq' for row in tags for x in row):
                    unexplained.append(['vector', 'every call has a sequential outcome but no single order explains all'])
                if unexplained:
                    n_viol += 1
                    if n_viol <= 3:     # a defect usually fails under many schedules: report the first few per scenario
                        ctx.violation('scenario %s: outcome of no sequential order under schedule %s: %s'
                                      % (sc.name, sched, unexplained),
                                      {'scenario': impl_scenario(sc), 'schedule': sched, 'name': sc.name})
                    else:
                        ctx.hist('further_violating_schedules:' + sc.name, 1)
            # (b) model prediction for the same schedule
            if id(rn) in preds and codes:
                ctx.traces_validated += 1
                itrace = ''.join('%d%s' % (t, codes.get(n, '?' + n + '?')) for t, n in rn['trace'])
                iout = '|'.join('+'.join(row) for row in tags)
                mtrace, _, mout = preds[id(rn)].partition(';')
                if itrace != mtrace or iout != mout:
                    ctx.disagreements_checked += 1
                    ctx.broken_tie('model and implementation disagree in scenario %s under schedule %s' % (sc.name, sched),
                                   {'impl_trace': itrace, 'model_trace': mtrace, 'impl_outcomes': iout, 'model_outcomes': mout,
                                    'direct_predicate_holds': holds})
        ctx.hist('nonsequential_runs:' + sc.name, n_nonseq)
        if res.get('truncated'):
            ctx.hist('truncated_scenarios', sc.name)
        if len(ctx.samples) < 6 and res.get('runs'):
            rn = res['runs'][min(3, len(res['runs']) - 1)]
            ctx.sample({'scenario': sc.name, 'schedule': rn.get('schedule', []),
                        'trace': rn.get('trace'), 'outcomes': rn.get('outcomes')})

    # ---- listed findings: replay each witness schedule ------------------------------------------------
    for f in ctx.findings():
        w = f.get('witness') or {}
        if 'scenario' not in w:
            continue
        if not hook_ok:
            ctx.notes.append('witness of %s not replayed: hook H2 missing' % f['id'])
            continue
        ok = replay(ctx, w, quiet=True)
        ctx.count(1, key='witness:' + f['id'], nontrivial=True)
        ctx.known_finding(f['id'], still_fails=not ok)

    # ---- regression schedules of the repaired defects ---------------------------------------------------
    if hook_ok:
        for what, sc, named in regressions():
            obj = {'scenario': impl_scenario(sc), 'named': named, 'name': sc.name}
            ok = replay(ctx, obj, quiet=True)
            ctx.count(1, key='regression:' + sc.name, nontrivial=True)
            ctx.hist('regression_schedules', 'sequential' if ok else 'NOT sequential')
            if not ok:
                ctx.violation('regression schedule (%s) gives an outcome of no sequential order' % what, obj)

    # ---- hook-free search: reloading EnvWizard || plain EnvWizard threads, big environment -------------
    # (a randomized real-thread search IS a failing-input search for a property over schedules; a hit is
    #  reported with the parameters of the search as the replay input)
    sp = {'op': 'stress_env', 'fillers': 12000, 'reloads': 40 if quick else 150, 'workers': 2,
          'processes': 4 if quick else 8, 'parallel': 4, 'switch': 1e-6, 'max_seconds': 25 if quick else 90}
    _t0 = _time.time()
    sr = ctx.impl('c20', sp, timeout=900)
    ctx.notes.append('phase env reload stress: %.1fs' % (_time.time() - _t0))
    if 'reference_error' in sr:
        ctx.violation('EnvWizard: the sequential reference itself is not constant / fails: %s' % json.dumps(sr)[:600],
                      {'stress_env': sp}, no_input=True)
    else:
        for k, rn in enumerate(sr['runs']):
            if 'bad' not in rn:
                ctx.broken_tie('env reload stress process did not complete', rn)
                continue
            ctx.count(rn['reloads'], key='stress_env:%d' % k, nontrivial=True)   # one evaluation per reload round
            ctx.extra_cov['stress_env_calls'] = ctx.extra_cov.get('stress_env_calls', 0) + rn['calls']
            ctx.hist('stress_env_reload_rounds', rn['reloads'])
            if rn['n_bad']:
                b = rn['bad'][0]
                ctx.violation('EnvWizard(_reload=True) in one thread || plain EnvWizard() in %d threads (%d filler variables, '
                              'environment never changes): call %d of thread %s during reload round %d gives %s; every '
                              'sequential order gives %s' % (sp['workers'], sp['fillers'], b['call'], b['thread'], b['round'],
                                                             json.dumps(b['outcome']), json.dumps(sr['expected'])[:200]),
                              {'stress_env': dict(sp, processes=4), 'first_hit': b, 'process': k})
                break

    ctx.notes.append('phase witnesses done at %.1fs' % (_time.time() - ctx.t0))
    # ---- supplementary: real threads, tiny switch interval -------------------------------------------
    stress = [sc for sc in scs if sc.name in ('plain load||load', 'plain dump||load', 'hook scan cold dump||dump',
                                             'paths dump||load', 'env instantiate||instantiate', 'v1 plain load||load')
              or sc.family in ('nested', 'env_new_names')
              or (sc.family == 'v1_program' and (not quick or any(x in sc.name for x in ('same class load', 'shared nested', 'AliasPath x'))))]
    iters = 40 if quick else 300

    def do_stress(sc):
        # first use of different main classes sharing nested classes: the window is a whole nested generation, a few
        # hundred un-steered rounds hit it (each round in its own pristine process)
        n = iters * (5 if sc.family == 'nested' and 'load' in sc.name and sc.engine == 'v0' else 2 if sc.family in ('nested', 'env_new_names') else 1)
        return ctx.impl('c20', {'op': 'stress', 'scenario': impl_scenario(sc), 'iters': n, 'switch': 1e-6},
                        timeout=1500, extra_env=env)
    _t0 = _time.time()
    with cf.ThreadPoolExecutor(max_workers=6) as ex:
        sres = list(ex.map(do_stress, stress))
    ctx.notes.append('phase stress: %.1fs' % (_time.time() - _t0))
    for sc, res in zip(stress, sres):
        vecs, per = seq_reference(res['sequential'])
        for rn in res['runs']:
            ctx.count(1, key=None)
            ctx.hist('stress_runs', sc.family)
            if 'outcomes' not in rn:
                ctx.broken_tie('stress run did not complete in scenario %s' % sc.name, rn)
                continue
            if okey(rn['outcomes']) not in vecs:
                bad = []
                for t, outs in enumerate(rn['outcomes']):
                    for j, o in enumerate(outs):
                        if tag(o, per.get((t, j), set())) != 'seq':
                            fid = region_of(sc, {'trace': [], 'schedule': []}, t, j, o, per)
                            if fid and fid in open_regions and fid in sc.regions:
                                ctx.hist('known_region', open_regions[fid] + ' (stress)')
                            else:
                                bad.append([t, j, o])
                if bad:
                    ctx.violation('stress (real threads): scenario %s produced an outcome of no sequential order: %s'
                                  % (sc.name, bad), {'scenario': impl_scenario(sc), 'stress': True, 'name': sc.name})


def replay(ctx, obj, quiet=False):
    """obj: {'scenario': <impl scenario>, 'schedule': [...]} or {'scenario':..., 'named': [[tid, point, occ], ...]}
    or {'scenario':..., 'stress': True}.  True iff the outcome vector is that of some sequential order."""
    env = {'MY_VAR': '42'}
    if 'stress_env' in obj:
        sr = ctx.impl('c20', obj['stress_env'], timeout=900)
        if 'reference_error' in sr:
            print('sequential reference fails:', json.dumps(sr)[:1500])
            return False
        hits = [rn for rn in sr['runs'] if rn.get('n_bad')]
        print('sequential outcome of every call:', json.dumps(sr['expected'])[:400])
        for rn in sr['runs']:
            print('process: %s reload rounds, %s calls, %s non-sequential%s' % (
                rn.get('reloads'), rn.get('calls'), rn.get('n_bad'),
                (' e.g. ' + json.dumps(rn['bad'][0])) if rn.get('bad') else ''))
        return not hits and all('bad' in rn for rn in sr['runs'])
    if 'scenario' not in obj:
        print('replay object names a broken tie, not an input: %s' % json.dumps(obj)[:1500])
        return False
    if obj.get('stress'):
        res = ctx.impl('c20', {'op': 'stress', 'scenario': obj['scenario'], 'iters': 300}, timeout=1500, extra_env=env)
        runs = res['runs']
    else:
        s = {'named': obj['named']} if 'named' in obj else {'schedule': obj.get('schedule', [])}
        res = ctx.impl('c20', {'op': 'run', 'scenario': obj['scenario'], 'schedules': [s]}, timeout=600, extra_env=env)
        runs = res['runs']
    vecs, _ = seq_reference(res['sequential'])
    ok = True
    for rn in runs:
        good = rn.get('status', 'ok') == 'ok' and okey(rn.get('outcomes')) in vecs
        if not good:
            ok = False
            if not quiet:
                print('schedule      :', rn.get('schedule') or '(real threads)')
                print('trace         :', rn.get('trace'))
                print('outcomes      :', json.dumps(rn.get('outcomes'))[:1500])
                print('sequential    :', [json.dumps(s.get('outcomes'))[:700] for s in res['sequential'][:3]])
            break
    if ok and not quiet:
        print('outcomes equal those of a sequential order:', json.dumps(runs[0].get('outcomes'))[:800])
    return ok
