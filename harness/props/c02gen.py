"""Shared machinery of the v1-engine checks (C02, C14): type / value trees, rendering to
Python source and to Gallina terms, generators, the oracle walker, binding summaries.
Pure stdlib; imported by the property modules AND by the implementation runners.

Types (JSON-able dicts):
  {'k':'leaf','l':L}  L in LEAVES or 'enum:<Name>'
  {'k':'seq','kind':'list|tuple|set|frozenset|deque','t':T}       tuple = tuple[T, ...]
  {'k':'tuple','ts':[T,...]}                                        fixed arity >= 1
  {'k':'dict','dd':bool,'kt':T,'vt':T}
  {'k':'opt','t':T} {'k':'union','ts':[T,...]} {'k':'lit','vs':[scalar,...]}
  {'k':'named','name':N} {'k':'typed','name':N} {'k':'data','c':index}
Model: {'classes':[{'name','fields':[{'name','ty','default':None|'none'|'int0'|'str0'|'list'|'dict'}]}],
        'named':{N:[(lbl,T)]}, 'typed':{N:{'req':[(k,T)],'opt':[(k,T)]}}, 'key_case':None|..., 'dump':...}
Values (trees): ['N'] ['B',b] ['I',str] ['F',hex] ['S',s] ['Y',hex] ['A',hex] ['O',leaf,token]
  ['L'|'T'|'E'|'Z'|'Q',[...]] ['D',dd|None,[[k,v],...]] ['M',name,[...]] ['C',clsname,[[f,v],...]]
"""
import ast, json, re, symtable

LEAVES = ['str', 'int', 'float', 'bool', 'none', 'nonebare', 'bytes', 'bytearray', 'uuid', 'decimal', 'path',
          'date', 'time', 'datetime', 'timedelta', 'any']
ENUMS = {'Color': [('RED', 'r'), ('GREEN', 'g'), ('BLUE', 'b')], 'Num': [('ONE', 1), ('TWO', 2), ('TEN', 10)]}
SEQ_TAG = {'list': 'L', 'tuple': 'T', 'set': 'E', 'frozenset': 'Z', 'deque': 'Q'}
TAG_SEQ = {v: k for k, v in SEQ_TAG.items()}
COQ_KIND = {'list': 'KList', 'tuple': 'KTuple', 'set': 'KSet', 'frozenset': 'KFrozen', 'deque': 'KDeque'}
COQ_LEAF = {'str': 'LStr', 'int': 'LInt', 'float': 'LFloat', 'bool': 'LBool', 'none': 'LNone', 'nonebare': 'LNone', 'bytes': 'LBytes',
            'bytearray': 'LBytearray', 'uuid': 'LUUID', 'decimal': 'LDecimal', 'path': 'LPath', 'date': 'LDate',
            'time': 'LTime', 'datetime': 'LDatetime', 'timedelta': 'LTimedelta', 'any': 'LAny'}
PY_LEAF = {'str': 'str', 'int': 'int', 'float': 'float', 'bool': 'bool', 'none': 'type(None)', 'nonebare': 'None', 'bytes': 'bytes',
           'bytearray': 'bytearray', 'uuid': 'UUID', 'decimal': 'Decimal', 'path': 'Path', 'date': 'date',
           'time': 'time', 'datetime': 'datetime', 'timedelta': 'timedelta', 'any': 'Any'}
FIELD_NAMES = ['alpha', 'beta_val', 'gamma2', 'delta_my_key', 'eps', 'zeta_aa9', 'eta_bb', 'theta']


def leaf(l): return {'k': 'leaf', 'l': l}
def seq(kind, t): return {'k': 'seq', 'kind': kind, 't': t}
def tup(*ts): return {'k': 'tuple', 'ts': list(ts)}
def dct(kt, vt, dd=False, od=False): return {'k': 'dict', 'dd': dd, 'od': od, 'kt': kt, 'vt': vt}
def opt(t): return {'k': 'opt', 't': t}
def optr(t): return {'k': 'optr', 't': t}     # Union[None, T]: None listed FIRST
def union(*ts): return {'k': 'union', 'ts': list(ts)}
def lit(*vs): return {'k': 'lit', 'vs': list(vs)}
def named(n): return {'k': 'named', 'name': n}
def typed(n): return {'k': 'typed', 'name': n}
def data(c): return {'k': 'data', 'c': c}


# ---------------------------------------------------------------------------------- type facts
def nt_name(model, n):
    """__name__ of the NamedTuple bound to variable n (F9: two types may share a __name__)"""
    return (model.get('named_alias') or {}).get(n, n)


def hashable_ty(t, model):
    k = t['k']
    if k == 'leaf':
        return t['l'] not in ('bytearray', 'any')
    if k == 'seq':
        return t['kind'] in ('tuple', 'frozenset') and hashable_ty(t['t'], model)
    if k == 'tuple':
        return all(hashable_ty(x, model) for x in t['ts'])
    if k in ('opt', 'optr'):
        return hashable_ty(t['t'], model)
    if k == 'lit':
        return True
    if k == 'named':
        return all(hashable_ty(x, model) for _, x in model['named'][t['name']])
    if k == 'union':
        return all(hashable_ty(x, model) for x in t['ts'])
    return False


def subtypes(t, model, into_helpers=True, seen=None):
    """All annotation nodes below t (not crossing into dataclasses)."""
    seen = seen if seen is not None else set()
    yield t
    k = t['k']
    if k in ('seq', 'opt', 'optr'):
        yield from subtypes(t['t'], model, into_helpers, seen)
    elif k in ('tuple', 'union'):
        for x in t['ts']:
            yield from subtypes(x, model, into_helpers, seen)
    elif k == 'dict':
        yield from subtypes(t['kt'], model, into_helpers, seen)
        yield from subtypes(t['vt'], model, into_helpers, seen)
    elif k == 'named' and into_helpers and ('n', t['name']) not in seen:
        seen.add(('n', t['name']))
        for _, x in model['named'][t['name']]:
            yield from subtypes(x, model, into_helpers, seen)
    elif k == 'typed' and into_helpers and ('t', t['name']) not in seen:
        seen.add(('t', t['name']))
        for _, x in model['typed'][t['name']]['req'] + model['typed'][t['name']]['opt']:
            yield from subtypes(x, model, into_helpers, seen)


def f18_free(t, ixd, model):
    k = t['k']
    if k in ('leaf', 'lit', 'data', 'optr'):
        return True
    if k == 'seq':
        return f18_free(t['t'], False, model)
    if k == 'tuple':
        return (not ixd) and all(f18_free(x, True, model) for x in t['ts'])
    if k == 'dict':
        return f18_free(t['kt'], False, model) and f18_free(t['vt'], False, model)
    if k == 'opt':
        return f18_free(t['t'], ixd, model)
    if k == 'union':
        return all(f18_free(x, False, model) for x in t['ts'])
    if k == 'named':
        return all(f18_free(x, True, model) for _, x in model['named'][t['name']])
    if k == 'typed':
        d = model['typed'][t['name']]
        return all(f18_free(x, True, model) for _, x in d['req']) and all(f18_free(x, False, model) for _, x in d['opt'])
    raise ValueError(k)


def keyseq_free(t, inkey, model):
    k = t['k']
    if k in ('leaf', 'lit', 'data', 'optr'):
        return True
    if k == 'seq':
        return (not inkey) and keyseq_free(t['t'], inkey, model)
    if k == 'tuple':
        return all(keyseq_free(x, inkey, model) for x in t['ts'])
    if k == 'dict':
        return keyseq_free(t['kt'], True, model) and keyseq_free(t['vt'], False, model)
    if k == 'opt':
        return keyseq_free(t['t'], inkey, model)
    if k == 'union':
        return all(keyseq_free(x, False, model) for x in t['ts'])
    if k == 'named':
        return all(keyseq_free(x, False, model) for _, x in model['named'][t['name']])
    if k == 'typed':
        d = model['typed'][t['name']]
        return all(keyseq_free(x, False, model) for _, x in d['req'] + d['opt'])
    raise ValueError(k)


# ---------------------------------------------------------------------------------- Python source
def py_ann(t, model, defined=None):
    """annotation source; a dataclass not yet defined at this point is a forward reference (string)"""
    k = t['k']
    if k == 'leaf':
        l = t['l']
        return l[5:] if l.startswith('enum:') else PY_LEAF[l]
    if k == 'seq':
        inner = py_ann(t['t'], model, defined)
        return 'tuple[%s, ...]' % inner if t['kind'] == 'tuple' else '%s[%s]' % (t['kind'], inner)
    if k == 'tuple':
        return 'tuple[%s]' % ', '.join(py_ann(x, model, defined) for x in t['ts'])
    if k == 'dict':
        return '%s[%s, %s]' % ('defaultdict' if t['dd'] else 'OrderedDict' if t.get('od') else 'dict',
                               py_ann(t['kt'], model, defined), py_ann(t['vt'], model, defined))
    if k == 'opt':
        return 'Optional[%s]' % py_ann(t['t'], model, defined)
    if k == 'optr':
        return 'Union[None, %s]' % py_ann(t['t'], model, defined)
    if k == 'union':
        return 'Union[%s]' % ', '.join(py_ann(x, model, defined) for x in t['ts'])
    if k == 'lit':
        return 'Literal[%s]' % ', '.join(repr(v) for v in t['vs'])
    if k in ('named', 'typed'):
        return t['name']
    if k == 'data':
        n = model['classes'][t['c']]['name']
        if model.get('ann_style') == 'fwd':
            return repr(n)                    # every dataclass reference is a forward reference (string)
        return n if defined is not None and n in defined else repr(n)       # forward reference
    raise ValueError(k)


PREAMBLE = '''from __future__ import annotations
from dataclasses import dataclass, field
from typing import *
from collections import defaultdict, deque, OrderedDict
from datetime import date, time, datetime, timedelta
from decimal import Decimal
from pathlib import Path
from uuid import UUID
from enum import Enum
from dataclass_wizard.v1 import Alias, AliasPath
class Color(Enum):
    RED = 'r'
    GREEN = 'g'
    BLUE = 'b'
class Num(Enum):
    ONE = 1
    TWO = 2
    TEN = 10
'''

DEFAULT_SRC = {'none': ' = None', 'int0': ' = 0', 'str0': " = ''", 'list': ' = field(default_factory=list)',
               'dict': ' = field(default_factory=dict)'}
DEFAULT_TREE = {'none': ['N'], 'int0': ['I', '0'], 'str0': ['S', ''], 'list': ['L', []], 'dict': ['D', None, []]}


DEFAULT_EXPR = {'none': 'None', 'int0': '0', 'str0': "''"}


def field_rhs(f):
    """right-hand side of a field declaration: plain / default / Alias(...) / AliasPath(...)"""
    d = f.get('default')
    if f.get('path') or f.get('alias'):
        fn = 'AliasPath(%r' % f['path'] if f.get('path') else 'Alias(%s' % ', '.join(repr(a) for a in f['alias'])
        if d is None:
            return ' = %s)' % fn
        if d in DEFAULT_EXPR:
            return ' = %s, default=%s)' % (fn, DEFAULT_EXPR[d])
        return ' = %s, default_factory=%s)' % (fn, d)
    return DEFAULT_SRC.get(d, '')


def class_order(model):
    """emission order: a class is emitted after the classes it references when possible
    (references that cannot be ordered — recursion — become forward-reference strings)"""
    n = len(model['classes'])
    deps = {}
    for i, c in enumerate(model['classes']):
        d = set()
        for f in c['fields']:
            for s in subtypes(f['ty'], model):
                if s['k'] == 'data':
                    d.add(s['c'])
        deps[i] = d
    order, done = [], set()

    def visit(i, stack):
        if i in done or i in stack:
            return
        for j in sorted(deps[i]):
            visit(j, stack | {i})
        done.add(i)
        order.append(i)

    for i in range(n):
        visit(i, frozenset())
    return order


def helper_deps(model, kind, name):
    items = model['named'][name] if kind == 'named' else model['typed'][name]['req'] + model['typed'][name]['opt']
    out = set()
    for _, t in items:
        for s in subtypes(t, model, into_helpers=False):
            if s['k'] in ('data', 'named', 'typed'):
                out.add((s['k'], s['c'] if s['k'] == 'data' else s['name']))
    return out


def model_source(model):
    """Python source of the model: NamedTuple / TypedDict / dataclass definitions in dependency
    order; only recursive references are forward-reference strings."""
    out = [PREAMBLE if model.get('ann_style') == 'future' else PREAMBLE.replace('from __future__ import annotations\n', '')]
    defined = set()
    emitted = set()
    pending = [('named', n) for n in model['named']] + [('typed', n) for n in model['typed']] + \
              [('data', i) for i in class_order(model)]

    def emit(item):
        kind, x = item
        if kind == 'named' and nt_name(model, x) != x:
            out.append('%s = NamedTuple(%r, [%s])' % (x, nt_name(model, x), ', '.join(
                '(%r, %s)' % (lbl, py_ann(t, model, defined)) for lbl, t in model['named'][x])))
        elif kind == 'named':
            out.append('class %s(NamedTuple):' % x)
            for lbl, t in model['named'][x]:
                out.append('    %s: %s' % (lbl, py_ann(t, model, defined)))
        elif kind == 'typed':
            d = model['typed'][x]
            out.append('class %s(TypedDict):' % x)
            for k, t in d['req']:
                out.append('    %s: %s' % (k, py_ann(t, model, defined)))
            for k, t in d['opt']:
                out.append('    %s: NotRequired[%s]' % (k, py_ann(t, model, defined)))
            if not d['req'] and not d['opt']:
                out.append('    pass')
        else:
            c = model['classes'][x]
            out.append('@dataclass')
            out.append('class %s:' % c['name'])
            if not c['fields']:
                out.append('    pass')
            for f in c['fields']:
                out.append('    %s: %s%s' % (f['name'], py_ann(f['ty'], model, defined), field_rhs(f)))
            defined.add(c['name'])
        emitted.add(item)

    def deps_of(item):
        kind, x = item
        if kind == 'data':
            d = set()
            for f in model['classes'][x]['fields']:
                for s in subtypes(f['ty'], model, into_helpers=False):
                    if s['k'] in ('named', 'typed'):
                        d.add((s['k'], s['name']))
            return d
        return helper_deps(model, kind, x)

    # repeatedly emit items whose (non-recursive) dependencies are emitted; break cycles in order
    while pending:
        progress = False
        for item in list(pending):
            need = {d for d in deps_of(item) if d not in emitted and d != item}
            if item[0] == 'data':
                need = {d for d in need if d[0] != 'data'}      # dataclass refs may be forward strings
            if not need:
                emit(item)
                pending.remove(item)
                progress = True
        if not progress:
            emit(pending.pop(0))
    return '\n'.join(out) + '\n'


# ---------------------------------------------------------------------------------- Gallina terms
def cstr(s):
    b = s.encode('utf-8') if isinstance(s, str) else bytes(s)
    if all(32 <= c < 127 and c != 34 for c in b):
        return '(S "%s")' % b.decode('ascii')
    return '(B [%s]%%N)' % ';'.join(str(c) for c in b)


def clist(items):
    return '[' + '; '.join(items) + ']'


def coq_leaf(l):
    return '(LEnum %s)' % cstr(l[5:]) if l.startswith('enum:') else COQ_LEAF[l]


def coq_lit(v):
    if v is None:
        return 'LitNone'
    if isinstance(v, bool):
        return '(LitBool %s)' % ('true' if v else 'false')
    if isinstance(v, int):
        return '(LitInt (%d)%%Z)' % v
    return '(LitStr %s)' % cstr(v)


def coq_tys(items, model):
    out = 'TNil'
    for lbl, t in reversed(items):
        out = '(TCons %s %s %s)' % (cstr(lbl), coq_ty(t, model), out)
    return out


def coq_ty(t, model):
    k = t['k']
    if k == 'leaf':
        return '(TLeaf %s)' % coq_leaf(t['l'])
    if k == 'seq':
        return '(TSeq %s %s)' % (COQ_KIND[t['kind']], coq_ty(t['t'], model))
    if k == 'tuple':
        return '(TTuple %s)' % coq_tys([('', x) for x in t['ts']], model)
    if k == 'dict':
        dd = '(Some %s)' % cstr(dd_factory(t['vt'])) if t['dd'] else '(Some (S "OrderedDict"))' if t.get('od') else 'None'
        return '(TDict %s %s %s)' % (dd, coq_ty(t['kt'], model), coq_ty(t['vt'], model))
    if k == 'opt':
        return '(TOpt %s)' % coq_ty(t['t'], model)
    if k == 'optr':
        # faithful to the open defect F52: get_string_for_annotation takes args[0] (NoneType) as THE member
        return '(TOpt (TLeaf LNone))'
    if k == 'union':
        if any(x['k'] == 'data' for x in t['ts']):
            raise ValueError('tagged Union of dataclasses is outside the Gallina model')
        return '(TUnion %s)' % coq_tys([('', x) for x in t['ts']], model)
    if k == 'lit':
        return '(TLit %s)' % clist([coq_lit(v) for v in t['vs']])
    if k == 'named':
        return '(TNamed %s %s)' % (cstr(nt_name(model, t['name'])), coq_tys(model['named'][t['name']], model))
    if k == 'typed':
        d = model['typed'][t['name']]
        return '(TTyped %s %s %s)' % (cstr(t['name']), coq_tys(d['req'], model), coq_tys(d['opt'], model))
    if k == 'data':
        return '(TData %d)' % t['c']
    raise ValueError(k)


def dd_factory(vt):
    """default_factory = getattr(vt, '__origin__', vt): a name identifying the factory."""
    k = vt['k']
    if k == 'leaf':
        return vt['l']
    if k == 'seq':
        return vt['kind']
    if k == 'dict':
        return 'defaultdict' if vt['dd'] else 'OrderedDict' if vt.get('od') else 'dict'
    if k == 'tuple':
        return 'tuple'
    return k


def coq_pv(v):
    tag = v[0]
    if tag == 'N':
        return 'VNone'
    if tag == 'B':
        return '(VBool %s)' % ('true' if v[1] else 'false')
    if tag == 'I':
        return '(VInt (%s)%%Z)' % v[1]
    if tag == 'F':
        return '(VFloat %s)' % cstr(v[1])
    if tag == 'S':
        return '(VStr %s)' % cstr(v[1])
    if tag == 'Y':
        return '(VBytes %s)' % cstr(bytes.fromhex(v[1]))
    if tag == 'A':
        return '(VByteArray %s)' % cstr(bytes.fromhex(v[1]))
    if tag == 'O':
        return '(VObj %s %s)' % (coq_leaf(v[1]), cstr(v[2]))
    if tag in TAG_SEQ:
        return '(VSeq %s %s)' % (COQ_KIND[TAG_SEQ[tag]], clist([coq_pv(x) for x in v[1]]))
    if tag == 'D':
        dd = 'None' if v[1] is None else '(Some %s)' % cstr(v[1])
        return '(VDict %s %s)' % (dd, clist(['(%s, %s)' % (coq_pv(k), coq_pv(x)) for k, x in v[2]]))
    if tag == 'M':
        return '(VNamed %s %s)' % (cstr(v[1]), clist([coq_pv(x) for x in v[2]]))
    raise ValueError('cannot send %r to the model' % (tag,))


def coq_ct(model, keys):
    """keys[class name][field name] = {'load': [...], 'dump': str}"""
    cls = []
    for c in model['classes']:
        fs = []
        if c.get('meta'):
            raise ValueError('per-class Meta is outside the Gallina model')
        for f in c['fields']:
            if f.get('path') or f.get('alias'):
                raise ValueError('Alias / AliasPath fields are outside the Gallina model')
            k = keys[c['name']][f['name']]
            d = f.get('default')
            fs.append('{| f_name := %s; f_ty := %s; f_default := %s; f_keys := %s; f_dkey := %s |}' % (
                cstr(f['name']), coq_ty(f['ty'], model),
                'None' if d is None else '(Some %s)' % coq_pv(DEFAULT_TREE[d]),
                clist([cstr(x) for x in k['load']]), cstr(k['dump'])))
        cls.append('{| c_name := %s; c_fields := %s |}' % (cstr(c['name']), clist(fs)))
    return clist(cls)


def coq_res(r):
    """oracle answer {'ok': tree} | {'err': ExcName} -> result pv"""
    if 'ok' in r:
        return '(Ok %s)' % coq_pv(r['ok'])
    return '(Err (XBare %s))' % cstr(r['err'])


def coq_oracle(entries):
    """entries: list of (leaf, inopt, tree, answer)"""
    # an entry the runner could not even build is left out: the model then answers XOracle (never a pass)
    return clist(['(%s, %s, %s, %s)' % (coq_leaf(l), 'true' if o else 'false', coq_pv(v), coq_res(r))
                  for l, o, v, r in entries if not str(r.get('err', '')).startswith('HarnessBuild')])


# ---------------------------------------------------------------------------------- parsing model output
class _P:
    def __init__(self, s):
        self.t = s.replace('(', ' ( ').replace(')', ' ) ').split()
        self.i = 0

    def next(self):
        x = self.t[self.i]
        self.i += 1
        return x

    def peek(self):
        return self.t[self.i] if self.i < len(self.t) else None


def _unhex(h):
    return bytes.fromhex(h).decode('utf-8', 'surrogateescape')


def _leaf_of(s):
    return 'enum:' + _unhex(s[5:]) if s.startswith('enum.') else s


def parse_pv_tokens(p, model):
    x = p.next()
    if x == '(':
        head = p.next()
        items = []
        while p.peek() != ')':
            items.append(parse_pv_tokens(p, model))
        p.next()
        if head in TAG_SEQ:
            return [head, items]
        if head.startswith('D'):
            dd = None if head[1] == '-' else _unhex(head[2:])
            return ['D', dd, [[items[i], items[i + 1]] for i in range(0, len(items), 2)]]
        if head.startswith('M'):
            return ['M', _unhex(head[1:]), items]
        if head.startswith('C'):
            name = model['classes'][int(head[1:])]['name']
            return ['C', name, [[items[i][1], items[i + 1]] for i in range(0, len(items), 2)]]
        raise ValueError(head)
    if x == 'N':
        return ['N']
    if x in ('B0', 'B1'):
        return ['B', x == 'B1']
    c, rest = x[0], x[1:]
    if c == 'I':
        return ['I', rest]
    if c == 'F':
        return ['F', _unhex(rest)]
    if c == 'S':
        return ['S', _unhex(rest)]
    if c == 'Y':
        return ['Y', rest]
    if c == 'A':
        return ['A', rest]
    if c == 'O':
        l, tok = rest.split(':', 1)
        return ['O', _leaf_of(l), _unhex(tok)]
    # inside (C..) the field names come as bare hex words
    return ['_name', _unhex(x)]


def _fix_names(tree):
    return tree


def parse_pv(s, model):
    p = _P(s)
    # field names inside (C ...) are bare hex: handled by the '_name' fallback
    return parse_pv_tokens(p, model)


def _opt(s):
    return None if s == '-' else _unhex(s[1:])


def parse_res(s, model):
    """Outcome of the model -> {'ok': tree} | {'lib': kind, 'cls','fld','names','obj'} | {'bare': name} | {'marker': 'F'|'O'}"""
    if s.startswith('OK '):
        return {'ok': parse_pv(s[3:], model)}
    if s.startswith('!B '):
        return {'bare': _unhex(s[3:])}
    if s == '!F':
        return {'marker': 'F'}
    if s == '!O':
        return {'marker': 'O'}
    if s.startswith('!L '):
        parts = s.split(' ', 5)
        names = [_unhex(x) for x in parts[4][1:-1].split(',') if x]
        return {'lib': parts[1], 'cls': _opt(parts[2]), 'fld': _opt(parts[3]), 'names': names,
                'obj': parse_pv(parts[5], model)}
    raise ValueError('cannot parse model outcome %r' % s[:200])


def parse_attr(s):
    if s == 'none':
        return None
    _, c, f = s.split(' ')
    return [_unhex(c), _opt(f)]


def parse_gen(s):
    """-> {'err': ...} | {'main','coherent','distinct','fns': {name: {'kind', 'toks': set}}}"""
    if s.startswith('GENERR'):
        return {'err': s[7:]}
    head, *fns = s.split('#')
    parts = head.split(' ')
    out = {'main': _unhex(parts[1]), 'coherent': parts[2] == 'coh', 'distinct': parts[3] == 'dist', 'fns': {}}
    for f in fns:
        cols = f.split('|')
        out['fns'][_unhex(cols[0])] = {'kind': cols[1], 'toks': sorted(set(_tok(c) for c in cols[2:]))}
    return out


def _tok(c):
    """decode hex parts of a summary token"""
    kind, rest = c.split(' ', 1)
    if kind == 'C':
        f, path = rest.split(' ', 1)
        return 'C %s %s' % (_unhex(f), _path(path))
    if kind in ('R', 'F'):
        return '%s %s' % (kind, _path(rest))
    return c


def _path(p):
    return re.sub(r'\[s([0-9a-f]*)\]', lambda m: '[%r]' % _unhex(m.group(1)), p)


# ---------------------------------------------------------------------------------- canonical comparison
def norm(tree):
    """Order-insensitive containers sorted (sets; dict items are kept in order)."""
    tag = tree[0]
    if tag in ('E', 'Z'):
        return [tag, sorted((norm(x) for x in tree[1]), key=lambda x: json.dumps(x, sort_keys=True))]
    if tag in TAG_SEQ:
        return [tag, [norm(x) for x in tree[1]]]
    if tag == 'D':
        return ['D', tree[1], sorted(([norm(k), norm(v)] for k, v in tree[2]), key=lambda x: json.dumps(x, sort_keys=True))]
    if tag == 'M':
        return ['M', tree[1], [norm(x) for x in tree[2]]]
    if tag == 'C':
        return ['C', tree[1], [[f, norm(v)] for f, v in tree[2]]]
    return tree


# ---------------------------------------------------------------------------------- oracle walker
def py_iter(v):
    tag = v[0]
    if tag in TAG_SEQ:
        return list(v[1])
    if tag == 'M':
        return list(v[2])
    if tag == 'D':
        return [k for k, _ in v[2]]
    if tag == 'S':
        return [['S', c] for c in v[1]]
    if tag in ('Y', 'A'):
        return [['I', str(b)] for b in bytes.fromhex(v[1])]
    return None


def py_index(v, ix):
    tag = v[0]
    if tag in ('E', 'Z'):
        return None
    if tag in TAG_SEQ or tag == 'M':
        l = v[1] if tag != 'M' else v[2]
        return l[ix] if isinstance(ix, int) and ix < len(l) else None
    if tag == 'S':
        return ['S', v[1][ix]] if isinstance(ix, int) and ix < len(v[1]) else None
    if tag in ('Y', 'A'):
        b = bytes.fromhex(v[1])
        return ['I', str(b[ix])] if isinstance(ix, int) and ix < len(b) else None
    if tag == 'D':
        for k, x in v[2]:
            if (isinstance(ix, str) and k == ['S', ix]) or (isinstance(ix, int) and k == ['I', str(ix)]):
                return x
    return None


def walk_pairs(t, o, v, model, out, depth=0):
    """Collect every (leaf, in_optional, value) the loader of annotation t may convert when given v
    (a superset: no early termination).  out: dict key -> (leaf, inopt, tree)."""
    if v is None or depth > 80:
        return
    k = t['k']
    if k == 'leaf':
        if t['l'] not in ('none', 'nonebare', 'any'):
            out.setdefault(json.dumps([t['l'], o, v], sort_keys=True), (t['l'], o, v))
    elif k == 'seq':
        for x in py_iter(v) or []:
            walk_pairs(t['t'], False, x, model, out, depth + 1)
    elif k == 'tuple':
        for i, x in enumerate(t['ts']):
            walk_pairs(x, False, py_index(v, i), model, out, depth + 1)
    elif k == 'dict':
        if v[0] == 'D':
            for kk, x in v[2]:
                walk_pairs(t['kt'], False, kk, model, out, depth + 1)
                walk_pairs(t['vt'], False, x, model, out, depth + 1)
    elif k == 'opt':
        if v != ['N']:
            walk_pairs(t['t'], True, v, model, out, depth + 1)
    elif k == 'union':
        has_none = any(x == leaf('none') for x in t['ts'])
        for x in t['ts']:
            walk_pairs(x, has_none, v, model, out, depth + 1)
    elif k == 'named':
        for i, (_, x) in enumerate(model['named'][t['name']]):
            walk_pairs(x, False, py_index(v, i), model, out, depth + 1)
    elif k == 'typed':
        d = model['typed'][t['name']]
        for key, x in d['req'] + d['opt']:
            walk_pairs(x, False, py_index(v, key), model, out, depth + 1)
    elif k == 'data':
        walk_class(t['c'], v, model, out, depth + 1)


def all_subvalues(v, out):
    out.append(v)
    tag = v[0]
    if tag in TAG_SEQ:
        for x in v[1]:
            all_subvalues(x, out)
    elif tag == 'M':
        for x in v[2]:
            all_subvalues(x, out)
    elif tag == 'D':
        for k, x in v[2]:
            all_subvalues(k, out)
            all_subvalues(x, out)
    elif tag == 'S' and 0 < len(v[1]) <= 6:
        for c in v[1]:
            out.append(['S', c])


def walk_generous(t, v, model, out):
    """every leaf of annotation t x every sub-value of v (used where the generated code is known to
    read the wrong position, so that the FAITHFUL model finds an oracle answer for what the code does)"""
    leaves = set()
    for c in model['classes']:           # the code may route the value through ANY helper of the model
        for f in c['fields']:
            for s in subtypes(f['ty'], model):
                if s['k'] == 'leaf' and s['l'] not in ('none', 'nonebare', 'any'):
                    leaves.add(s['l'])
    vals = []
    all_subvalues(v, vals)
    for l in sorted(leaves):
        for x in vals:
            for o in (False, True):
                out.setdefault(json.dumps([l, o, x], sort_keys=True), (l, o, x))


def walk_class(c, v, model, out, depth=0, keys=None):
    if v is None or v[0] != 'D':
        return
    cname = model['classes'][c]['name']
    for f in model['classes'][c]['fields']:
        cands = (model.get('_keys') or {}).get(cname, {}).get(f['name'], {}).get('load', [f['name']])
        for key in cands:
            x = py_index(v, key)
            if x is not None:
                walk_pairs(f['ty'], False, x, model, out, depth + 1)
                if f.get('generous'):
                    walk_generous(f['ty'], x, model, out)
                break


# ---------------------------------------------------------------------------------- binding summaries
_VAR = re.compile(r'^[vk]\d+$')
_HELPER = re.compile(r'^(_load_|__dataclass_wizard_from_dict_)')


def _path_of(node, parents):
    """maximal chain of constant subscripts around a Name"""
    p = node.id
    cur = node
    while True:
        par = parents.get(id(cur))
        if isinstance(par, ast.Subscript) and par.value is cur and isinstance(par.slice, ast.Constant) \
                and isinstance(par.slice.value, (int, str)) and not isinstance(par.slice.value, bool):
            p += '[%r]' % (par.slice.value,) if isinstance(par.slice.value, str) else '[%d]' % par.slice.value
            cur = par
        else:
            return p, cur


def summarize_source(src):
    """Binding summary of one generated function, computed from its source text with `ast`:
    tokens 'F path' (read, base not bound by an enclosing comprehension), 'R path' (bound),
    'B var' (comprehension target), 'C helper argpath'."""
    tree = ast.parse(src)
    fn = tree.body[0]
    parents = {}
    for n in ast.walk(tree):
        for ch in ast.iter_child_nodes(n):
            parents[id(ch)] = n
    toks = set()

    def visit(node, bound):
        if isinstance(node, (ast.ListComp, ast.SetComp, ast.GeneratorExp, ast.DictComp)):
            gens = node.generators
            newb = set(bound)
            for gi, g in enumerate(gens):
                visit(g.iter, bound if gi == 0 else newb)
                for t in ast.walk(g.target):
                    if isinstance(t, ast.Name):
                        newb.add(t.id)
                        if _VAR.match(t.id):
                            toks.add('B ' + t.id)
                for c in g.ifs:
                    visit(c, newb)
            if isinstance(node, ast.DictComp):
                visit(node.key, newb)
                visit(node.value, newb)
            else:
                visit(node.elt, newb)
            return
        if isinstance(node, ast.Name) and isinstance(node.ctx, ast.Load) and _VAR.match(node.id):
            p, _ = _path_of(node, parents)
            toks.add(('R ' if node.id in bound else 'F ') + p)
        if isinstance(node, ast.Call) and isinstance(node.func, ast.Name) and _HELPER.match(node.func.id):
            arg = node.args[0] if node.args else None
            ap = '?'
            cur = arg
            while isinstance(cur, ast.Subscript):
                cur = cur.value
            if isinstance(cur, ast.Name):
                ap, top = _path_of(cur, parents)
                if top is not arg:
                    ap = '?'
            toks.add('C %s %s' % (node.func.id, ap))
        for ch in ast.iter_child_nodes(node):
            visit(ch, bound)

    visit(fn, set())
    return {'params': [a.arg for a in fn.args.args], 'toks': sorted(toks)}


def unbound_positional(src):
    """Direct freshness predicate (independent of the model), with `symtable`: positional
    variables (v{i}/k{i}) that some scope of the generated function reads as a GLOBAL, i.e. that
    are neither the parameter, nor assigned in the function, nor bound by the comprehension."""
    bad = set()

    def rec(tab):
        for s in tab.get_symbols():
            if _VAR.match(s.get_name()) and s.is_referenced() and s.is_global():
                bad.add(s.get_name())
        for ch in tab.get_children():
            rec(ch)

    rec(symtable.symtable(src, '<generated>', 'exec'))
    return sorted(bad)


# ---------------------------------------------------------------------------------- running the model
def coq_shards(workdir, imports, shards, jobs=8, timeout=900):
    """Evaluate shards = [(prelude, [expr, ...]), ...] (each expr : pstr) with one coqc process per
    shard; returns the list of result lists.  Same protocol as lib/coqrun.coq_eval (results come back
    hex-encoded inside one string literal), but every shard carries its own prelude and shards are
    kept small: reading back / printing one huge string literal is super-linear in coqc."""
    import os, re, subprocess, concurrent.futures as cf
    from lib import coqrun
    os.makedirs(workdir, exist_ok=True)

    def one(args):
        idx, (prelude, exprs) = args
        path = os.path.join(workdir, 'Shard_%d.v' % idx)
        with open(path, 'w') as f:
            f.write('From DW Require Import %s.\n' % ' '.join(imports))
            if prelude:
                f.write(prelude + '\n')
            f.write('Definition results : list pstr := [\n' + ';\n'.join(exprs) + '\n].\n')
            f.write('Eval vm_compute in (out (join (S ";") (map hex results))).\n')
        try:
            p = subprocess.run(['coqc'] + coqrun.QFLAGS + [path], capture_output=True, text=True, timeout=timeout,
                               cwd=workdir, preexec_fn=coqrun._unlimit_stack)
        except subprocess.TimeoutExpired:
            raise coqrun.CoqError('coqc timeout on shard %d' % idx)
        if p.returncode != 0:
            raise coqrun.CoqError('coqc failed on shard %d: %s' % (idx, (p.stderr or p.stdout)[-2000:]))
        m = re.search(r'=\s*"([0-9a-f;]*)"', p.stdout)
        if not m:
            raise coqrun.CoqError('cannot parse coqc output: %r' % p.stdout[:500])
        parts = m.group(1).split(';') if exprs else []
        out = [bytes.fromhex(x).decode('utf-8', 'surrogateescape') for x in parts]
        if len(out) != len(exprs):
            raise coqrun.CoqError('shard %d: %d results for %d cases' % (idx, len(out), len(exprs)))
        return idx, out

    res = {}
    with cf.ThreadPoolExecutor(max_workers=jobs) as ex:
        for idx, out in ex.map(one, list(enumerate(shards))):
            res[idx] = out
    return [res[i] for i in range(len(shards))]

# ======================================================================== reference wire format
import base64 as _b64, datetime as _dt
TAG_KEY = '__tag__'


# ---------------------------------------------------------------------------------- key spellings (reference)
def _cap(w):
    return w[0].upper() + w[1:]


def spellings(name):
    """documented spellings of a canonical snake_case field name"""
    ws = name.split('_')
    return {'SNAKE': name, 'CAMEL': ws[0] + ''.join(_cap(w) for w in ws[1:]), 'PASCAL': ''.join(_cap(w) for w in ws),
            'KEBAB': '-'.join(ws), 'UKEBAB': '-'.join(_cap(w) for w in ws), 'USNAKE': '_'.join(_cap(w) for w in ws),
            'SCREAMING': name.upper()}


def doc_key(name, kc, r):
    if kc is None:
        return name
    if kc == 'AUTO':
        return spellings(name)[r.choice(['SNAKE', 'CAMEL', 'PASCAL', 'KEBAB'])]
    return spellings(name)[kc]


def field_of_key(cd, key):
    """the field a document key was written for (any documented spelling, alias, or top of its path)"""
    for f in cd['fields']:
        if f.get('path'):
            if key == f['path'].split('.')[0]:
                return f
        elif f.get('alias'):
            if key in f['alias']:
                return f
        elif key == f['name'] or key in spellings(f['name']).values():
            return f
    return None


def maybe_accepted(name, kc, key):
    if kc is None:
        return key == name
    if kc == 'AUTO':
        return key == name or key in spellings(name).values()
    return key == spellings(name)[kc]


# ---------------------------------------------------------------------------------- reference wire format
def _td_str(tok):
    d, s, us = (int(x) for x in tok.split(','))
    return str(_dt.timedelta(days=d, seconds=s, microseconds=us))


def dump_doc(v, t, model, r):
    """JSON document of a conforming value (transcribed from the documented wire encoding)"""
    k = t['k']
    kc = model.get('key_case')
    if k == 'leaf':
        l = t['l']
        if v[0] == 'Y' or v[0] == 'A':
            return ['S', _b64.b64encode(bytes.fromhex(v[1])).decode()]
        if v[0] == 'O':
            tok = v[2]
            if l == 'uuid':
                return ['S', tok.replace('-', '')]
            if l in ('decimal', 'path', 'date'):
                return ['S', tok]
            if l in ('time', 'datetime'):
                return ['S', tok[:-6] + 'Z' if tok.endswith('+00:00') else tok]
            if l == 'timedelta':
                return ['S', _td_str(tok)]
            if l.startswith('enum:'):
                val = dict(ENUMS[l[5:]])[tok]
                return ['I', str(val)] if isinstance(val, int) else ['S', val]
        return v
    if k == 'seq':
        return ['L', [dump_doc(x, t['t'], model, r) for x in v[1]]]
    if k == 'tuple':
        return ['L', [dump_doc(x, tt, model, r) for x, tt in zip(v[1], t['ts'])]]
    if k == 'dict':
        return ['D', None, [[dump_doc(kk, t['kt'], model, r), dump_doc(x, t['vt'], model, r)] for kk, x in v[2]]]
    if k in ('opt', 'optr'):
        return v if v == ['N'] else dump_doc(v, t['t'], model, r)
    if k == 'lit':
        return v
    if k == 'union':
        if v[0] == 'C':          # tagged dataclass member
            alt = [x for x in t['ts'] if x['k'] == 'data' and model['classes'][x['c']]['name'] == v[1]][0]
            d = dump_doc(v, alt, model, r)
            return ['D', None, [[['S', TAG_KEY], ['S', v[1]]]] + d[2]]
        tagleaf = {'I': 'int', 'S': 'str', 'F': 'float', 'B': 'bool', 'N': 'none', 'Y': 'bytes', 'A': 'bytearray'}
        for x in t['ts']:        # the member the value belongs to
            if (v[0] in TAG_SEQ and x['k'] == 'seq' and SEQ_TAG[x['kind']] == v[0]) or (v[0] == 'D' and x['k'] in ('dict', 'typed')) \
                    or (v[0] == 'M' and x['k'] == 'named') \
                    or (x['k'] == 'leaf' and (x['l'] == tagleaf.get(v[0]) or (v[0] == 'O' and x['l'] == v[1]))):
                return dump_doc(v, x, model, r)
        return v
    if k == 'named':
        return ['L', [dump_doc(x, tt, model, r) for x, (_, tt) in zip(v[2], model['named'][t['name']])]]
    if k == 'typed':
        d = model['typed'][t['name']]
        tys = dict((key, tt) for key, tt in d['req'] + d['opt'])
        return ['D', None, [[kk, dump_doc(x, tys[kk[1]], model, r)] for kk, x in v[2]]]
    if k == 'data':
        cd = model['classes'][t['c']]
        fs = {f['name']: f for f in cd['fields']}
        items = []
        for n, x in v[2]:
            f = fs[n]
            val = dump_doc(x, f['ty'], model, r)
            if f.get('path'):
                top, inner = f['path'].split('.')
                items.append([['S', top], ['D', None, [[['S', inner], val]]]])
            elif f.get('alias'):
                items.append([['S', f['alias'][0]], val])
            else:
                items.append([['S', doc_key(n, kc, r)], val])
        return ['D', None, items]
    raise ValueError(k)




# ======================================================================== surface annotations
# (annotation-resolution front end; Gallina counterpart: coq/model/V1Annot.v)
#
# A SURFACE annotation is a core type tree in which any node may be wrapped:
#   {'k':'ann','t':S}                      Annotated[S, 'm']
#   {'k':'qual','q':Required|NotRequired|ReadOnly,'t':S}
#   {'k':'alias','name':X}                 a `type X = ...` alias object (model['surface']['aliases'][X])
#   {'k':'str','t':S}                      a string / ForwardRef whose text spells S
# model['surface'] = {'mod_of': {item_key: module index}, 'imports': {str(m): [names]},
#                     'cls': [[S per field] per class], 'named': {N: [S per field]},
#                     'typed': {N: {'req': [S], 'opt': [S], 'total': bool}},
#                     'aliases': {X: S}, 'tg': bool}
# item keys: 'data:<i>' 'named:<N>' 'typed:<N>' 'alias:<X>'.  Module 0 is the lowest; module m may
# refer to objects of modules < m (as M<j>.<name>, or by bare name when imported).  The core model
# (classes / named / typed) is what the surface denotes; everything else of the harness uses the core.
QUALS = ('Required', 'NotRequired', 'ReadOnly')
COQ_QUAL = {'Required': 'QRequired', 'NotRequired': 'QNotRequired', 'ReadOnly': 'QReadOnly'}
TG_SEQ = {'list': 'List', 'set': 'Set', 'frozenset': 'FrozenSet', 'deque': 'Deque'}


def s_ann(t): return {'k': 'ann', 't': t}
def s_qual(q, t): return {'k': 'qual', 'q': q, 't': t}
def s_alias(n): return {'k': 'alias', 'name': n}
def s_str(t): return {'k': 'str', 't': t}


def item_of(s):
    k = s['k']
    if k == 'data':
        return 'data:%d' % s['c']
    if k in ('named', 'typed', 'alias'):
        return '%s:%s' % (k, s['name'])
    return None


def item_name(model, item):
    kind, x = item.split(':', 1)
    return model['classes'][int(x)]['name'] if kind == 'data' else x


def s_children(s):
    k = s['k']
    if k in ('seq', 'opt', 'optr', 'ann', 'qual', 'str'):
        return [s['t']]
    if k in ('tuple', 'union'):
        return list(s['ts'])
    if k == 'dict':
        return [s['kt'], s['vt']]
    return []


def s_map(s, f):
    """rebuild s with f applied to every child"""
    k = s['k']
    out = dict(s)
    if k in ('seq', 'opt', 'optr', 'ann', 'qual', 'str'):
        out['t'] = f(s['t'])
    elif k in ('tuple', 'union'):
        out['ts'] = [f(x) for x in s['ts']]
    elif k == 'dict':
        out['kt'], out['vt'] = f(s['kt']), f(s['vt'])
    return out


def core_of(s, model):
    """the core type a surface annotation denotes (reference semantics: every wrapper is transparent)"""
    k = s['k']
    if k in ('ann', 'qual', 'str'):
        return core_of(s['t'], model)
    if k == 'alias':
        return core_of(model['surface']['aliases'][s['name']], model)
    out = s_map(s, lambda x: core_of(x, model))
    out.pop('_hole', None)
    out.pop('pin', None)
    return out


def unstr(s):
    if s['k'] == 'str':
        return unstr(s['t'])
    return s_map(s, unstr)


def s_refs(s):
    """every object reference in the text of s (through nested strings)"""
    it = item_of(s)
    out = [it] if it else []
    for c in s_children(s):
        out += s_refs(c)
    return out


def module_names(model, m):
    """bare names bound in module m: its own definitions and what it imports"""
    surf = model['surface']
    own = [item_name(model, it) for it, mm in surf['mod_of'].items() if mm == m]
    return set(own) | set(surf['imports'].get(str(m), []))


def s_classlike(s):
    return s['k'] in ('leaf', 'data', 'named', 'typed')


def s_head(s, model, cur, pin=None):
    """Python mirror of get_string_for_annotation's single pass (independent of the Gallina text; used to
    classify failing cases into the regions of the open findings and to pack fields into classes):
    -> ('ok', h) | ('type', why) | ('name', why)"""
    a = s
    if a['k'] == 'str':
        m = cur if pin is None else pin
        bound = module_names(model, m)
        for it in s_refs(a):
            if item_name(model, it) not in bound:
                return ('name', '%s is not bound in module %d' % (item_name(model, it), m))
        a = unstr(a)
    if a['k'] in ('ann', 'qual'):
        a = a['t']
    thru = a['t'] if a['k'] == 'ann' else a
    if thru['k'] == 'alias':
        a = model['surface']['aliases'][thru['name']]
    if a['k'] == 'ann':
        return ('ok', a['t']) if s_classlike(a['t']) else ('type', 'a generic is left below Annotated')
    if a['k'] in ('str', 'qual', 'alias'):
        return ('type', 'a %s is left after the single pass' % a['k'])
    return ('ok', a)


def s_comps(h, model):
    """components the hooks pass to get_string_for_annotation again: (annotation, pin)"""
    surf = model['surface']
    k = h['k']
    if k == 'named':
        return [(x, None) for x in surf['named'][h['name']]]
    if k == 'typed':
        m = surf['mod_of']['typed:' + h['name']]
        d = surf['typed'][h['name']]
        return [(x, m if x['k'] == 'str' else None) for x in d['req'] + d['opt']]
    return [(c, None) for c in s_children(h)]


def s_verdict(s, model, cur, pin=None, depth=0, helper=False, seen=frozenset()):
    """None when resolution succeeds everywhere below s (not crossing into dataclasses);
    else ('type'|'name', why, inside_helper).  `seen`: aliases / helper types being expanded (recursion)"""
    if depth > 40:
        return None
    r = s_head(s, model, cur, pin)
    if r[0] != 'ok':
        return (r[0], r[1], helper)
    h = r[1]
    key = s_alias_of(s)
    if h['k'] in ('named', 'typed'):
        key = key or (h['k'] + ':' + h['name'])
    if key:
        if (key, cur) in seen:
            return None
        seen = seen | {(key, cur)}
    for c, p in s_comps(h, model):
        v = s_verdict(c, model, cur, p, depth + 1, helper or h['k'] in ('named', 'typed') or bool(s_alias_of(s)), seen)
        if v:
            return v
    return None


def s_alias_of(s):
    a = s['t'] if s['k'] == 'str' else s
    a = a['t'] if a['k'] in ('ann', 'qual') else a
    a = a['t'] if a['k'] == 'ann' else a
    return 'alias:' + a['name'] if a['k'] == 'alias' else None


def s_through_alias(s, model):
    a = s['t'] if s['k'] in ('str', 'ann', 'qual') else s
    a = a['t'] if a['k'] == 'ann' else a
    return a['k'] == 'alias'


def surface_verdict(model):
    """first failing annotation of the program, class by class in its own module: None | (kind, why, in_helper, class)"""
    surf = model['surface']
    for ci, fields in enumerate(surf['cls']):
        cur = surf['mod_of']['data:%d' % ci]
        for s in fields:
            v = s_verdict(s, model, cur)
            if v:
                return v + (model['classes'][ci]['name'],)
    return None


# ---------------------------------------------------------------------------------- surface -> Python source
def py_sann(s, model, P):
    """P = {'mod': module being printed, 'in_str': bool, 'q': quote to use for the next string}"""
    k = s['k']
    tg = model['surface'].get('tg')
    rec = lambda x: py_sann(x, model, P)
    if k == 'leaf':
        l = s['l']
        return l[5:] if l.startswith('enum:') else PY_LEAF[l]
    if k == 'seq':
        if s['kind'] == 'tuple':
            return '%s[%s, ...]' % ('Tuple' if tg else 'tuple', rec(s['t']))
        return '%s[%s]' % (TG_SEQ[s['kind']] if tg else s['kind'], rec(s['t']))
    if k == 'tuple':
        return '%s[%s]' % ('Tuple' if tg else 'tuple', ', '.join(rec(x) for x in s['ts']))
    if k == 'dict':
        nm = ('DefaultDict' if tg else 'defaultdict') if s['dd'] else 'OrderedDict' if s.get('od') else ('Dict' if tg else 'dict')
        return '%s[%s, %s]' % (nm, rec(s['kt']), rec(s['vt']))
    if k == 'opt':
        return 'Optional[%s]' % rec(s['t'])
    if k == 'optr':
        return 'Union[None, %s]' % rec(s['t'])
    if k == 'union':
        if s.get('bar'):         # PEP 604 spelling
            return ' | '.join('None' if x == leaf('none') else rec(x) for x in s['ts'])
        return 'Union[%s]' % ', '.join(rec(x) for x in s['ts'])
    if k == 'lit':
        q = P['q'] if P['in_str'] else "'"
        return 'Literal[%s]' % ', '.join(q + v + q if isinstance(v, str) else repr(v) for v in s['vs'])
    if k in ('named', 'typed', 'data', 'alias'):
        it = item_of(s)
        name = item_name(model, it)
        dm = model['surface']['mod_of'][it]
        if P['in_str'] or dm == P['mod'] or name in model['surface']['imports'].get(str(P['mod']), []):
            return name
        return 'M%d.%s' % (dm, name)
    if k == 'ann':
        if s.get('twice'):       # Annotated[Annotated[T, a], b] is flattened by typing: the same object
            return 'Annotated[Annotated[%s, 1], 2]' % rec(s['t'])
        return 'Annotated[%s, 1]' % rec(s['t'])
    if k == 'qual':
        return '%s[%s]' % (s['q'], rec(s['t']))
    if k == 'str':
        q = P['q']
        inner = py_sann(s['t'], model, {**P, 'in_str': True, 'q': '"' if q == "'" else "'"})
        return q + inner + q
    raise ValueError(k)


SURF_PREAMBLE = PREAMBLE.replace('from __future__ import annotations\n', '') + \
    'from typing_extensions import TypedDict, ReadOnly\n'
# modules above the lowest one share its Enum classes
SURF_PREAMBLE_UP = SURF_PREAMBLE[:SURF_PREAMBLE.index('class Color(Enum)')] + \
    'from typing_extensions import TypedDict, ReadOnly\n'


def emit_order(model, m):
    """definition order inside module m: helpers and classes after what they reference when possible"""
    surf = model['surface']
    mine = lambda it: surf['mod_of'].get(it) == m
    pending = [('named', n) for n in model['named'] if mine('named:' + n)] + \
              [('typed', n) for n in model['typed'] if mine('typed:' + n)] + \
              [('data', i) for i in class_order(model) if mine('data:%d' % i)]
    emitted, order = set(), []

    def deps_of(item):
        kind, x = item
        if kind == 'data':
            d = set()
            for f in model['classes'][x]['fields']:
                for s in subtypes(f['ty'], model, into_helpers=False):
                    if s['k'] in ('named', 'typed'):
                        d.add((s['k'], s['name']))
            return d
        return helper_deps(model, kind, x)

    while pending:
        progress = False
        for item in list(pending):
            need = {d for d in deps_of(item) if d not in emitted and d != item and d in pending}
            if item[0] == 'data':
                need = {d for d in need if d[0] != 'data'}
            if not need:
                order.append(item)
                emitted.add(item)
                pending.remove(item)
                progress = True
        if not progress:
            item = pending.pop(0)
            order.append(item)
            emitted.add(item)
    return order


def auto_surface(model, mod_of=None, fwd_mods=(), imports=None, tg=False):
    """Surface of a core model: every annotation as written in Python source, with a string wherever the
    referenced object is not yet defined at that point (and, in the dataclasses of the modules listed in
    fwd_mods, around EVERY dataclass reference).  TypedDict optional keys get NotRequired[...] unless the
    key's annotation carries the mark '_hole' (the caller then writes the qualifiers itself)."""
    n_mod = 1 + max((mod_of or {}).values(), default=0)
    full = {}
    for i in range(len(model['classes'])):
        full['data:%d' % i] = (mod_of or {}).get('data:%d' % i, n_mod - 1)
    for n in model['named']:
        full['named:' + n] = (mod_of or {}).get('named:' + n, n_mod - 1)
    for n in model['typed']:
        full['typed:' + n] = (mod_of or {}).get('typed:' + n, n_mod - 1)
    surf = model['surface'] = {'mod_of': full, 'imports': {str(k): list(v) for k, v in (imports or {}).items()},
                               'cls': [None] * len(model['classes']), 'named': {}, 'typed': {}, 'aliases': {}, 'tg': tg,
                               'n_mod': n_mod}
    for m in range(n_mod):
        defined = set()

        def conv(t, fwd):
            it = item_of(t)
            if it is not None:
                dm = full[it]
                if dm > m:
                    raise ValueError('module %d cannot refer to %s of module %d' % (m, it, dm))
                node = dict(t)
                if (dm == m and it not in defined) or (fwd and t['k'] == 'data'):
                    return s_str(node)
                return node
            return s_map(t, lambda x: conv(x, fwd))

        for kind, x in emit_order(model, m):
            if kind == 'named':
                surf['named'][x] = [conv(t, False) for _, t in model['named'][x]]
            elif kind == 'typed':
                d = model['typed'][x]
                surf['typed'][x] = {'req': [conv(t, False) for _, t in d['req']],
                                    'opt': [conv(t, False) if t.get('_hole') else s_qual('NotRequired', conv(t, False))
                                            for _, t in d['opt']], 'total': True}
            else:
                surf['cls'][x] = [conv(f['ty'], m in fwd_mods) for f in model['classes'][x]['fields']]
            defined.add('%s:%s' % (kind, x))
    return surf


def find_hole(s):
    """path (list of child indexes) to the node marked '_hole' in a surface tree, or None"""
    if s.get('_hole'):
        return []
    for i, c in enumerate(s_children(s)):
        p = find_hole(c)
        if p is not None:
            return [i] + p
    return None


def replace_at(s, path, new):
    if not path:
        return new
    i = path[0]
    n = [0]

    def f(x):
        j = n[0]
        n[0] += 1
        return replace_at(x, path[1:], new) if j == i else x
    return s_map(s, f)


def strip_marks(t):
    if isinstance(t, dict):
        t.pop('_hole', None)
        for v in t.values():
            strip_marks(v)
    elif isinstance(t, list):
        for v in t:
            strip_marks(v)


def surface_annotations(model):
    """[(where, holder, index, S)] for every annotation of the program"""
    surf = model['surface']
    out = []
    for ci, fields in enumerate(surf['cls']):
        for j, s in enumerate(fields):
            out.append(('cls', ci, j, s))
    for n, fields in surf['named'].items():
        for j, s in enumerate(fields):
            out.append(('named', n, j, s))
    for n, d in surf['typed'].items():
        for j, s in enumerate(d['req']):
            out.append(('typed-req', n, j, s))
        for j, s in enumerate(d['opt']):
            out.append(('typed-opt', n, j, s))
    for n, s in surf['aliases'].items():
        out.append(('alias', n, 0, s))
    return out


def set_annotation(model, where, holder, j, s):
    surf = model['surface']
    if where == 'cls':
        surf['cls'][holder][j] = s
    elif where == 'named':
        surf['named'][holder][j] = s
    elif where == 'typed-req':
        surf['typed'][holder]['req'][j] = s
    elif where == 'typed-opt':
        surf['typed'][holder]['opt'][j] = s
    else:
        surf['aliases'][holder] = s


def model_sources(model, names):
    """Python source of every module of a surface model; names[m] = the module's real name"""
    surf = model['surface']
    out = []
    for m in range(surf['n_mod']):
        P = {'mod': m, 'in_str': False, 'q': "'"}
        src = [SURF_PREAMBLE if m == 0 else SURF_PREAMBLE_UP + 'from %s import Color, Num\n' % names[0]]
        imp = surf['imports'].get(str(m), [])
        for j in range(m):
            src.append('import %s as M%d' % (names[j], j))
            mine = [n for n in imp if any(item_name(model, it) == n and mm == j for it, mm in surf['mod_of'].items())]
            if mine:
                src.append('from %s import %s' % (names[j], ', '.join(mine)))
        for x, s in surf['aliases'].items():
            if surf['mod_of']['alias:' + x] == m:
                src.append('type %s = %s' % (x, py_sann(s, model, P)))
        for kind, x in emit_order(model, m):
            if kind == 'named':
                src.append('class %s(NamedTuple):' % x)
                for (lbl, _), s in zip(model['named'][x], surf['named'][x]):
                    src.append('    %s: %s' % (lbl, py_sann(s, model, P)))
            elif kind == 'typed':
                d, sd = model['typed'][x], surf['typed'][x]
                src.append('class %s(TypedDict%s):' % (x, '' if sd.get('total', True) else ', total=False'))
                for (k, _), s in zip(d['req'] + d['opt'], sd['req'] + sd['opt']):
                    src.append('    %s: %s' % (k, py_sann(s, model, P)))
                if not d['req'] and not d['opt']:
                    src.append('    pass')
            else:
                c = model['classes'][x]
                src.append('@dataclass')
                src.append('class %s:' % c['name'])
                if not c['fields']:
                    src.append('    pass')
                for f, s in zip(c['fields'], surf['cls'][x]):
                    src.append('    %s: %s%s' % (f['name'], py_sann(s, model, P), field_rhs(f)))
        out.append('\n'.join(src) + '\n')
    return out


# ---------------------------------------------------------------------------------- surface -> Gallina
def _refs_index(model):
    surf = model['surface']
    return {'named': {n: i for i, n in enumerate(model['named'])}, 'typed': {n: i for i, n in enumerate(model['typed'])},
            'alias': {n: i for i, n in enumerate(surf['aliases'])}}


def coq_ref(it, model, ix):
    kind, x = it.split(':', 1)
    if kind == 'data':
        return '(RData %s)' % x
    return '(%s %d)' % ({'named': 'RNamed', 'typed': 'RTyped', 'alias': 'RAlias'}[kind], ix[kind][x])


def coq_sann(s, model, ix, pin=None):
    k = s['k']
    rec = lambda x: coq_sann(x, model, ix)
    if k == 'leaf':
        return '(SLeaf %s)' % coq_leaf(s['l'])
    if k == 'seq':
        return '(SSeq %s %s)' % (COQ_KIND[s['kind']], rec(s['t']))
    if k == 'tuple':
        return '(STuple %s)' % clist([rec(x) for x in s['ts']])
    if k == 'dict':
        dd = '(Some %s)' % cstr(dd_factory(core_of(s['vt'], model))) if s['dd'] else '(Some (S "OrderedDict"))' if s.get('od') else 'None'
        return '(SDict %s %s %s)' % (dd, rec(s['kt']), rec(s['vt']))
    if k == 'opt':
        return '(SOpt %s)' % rec(s['t'])
    if k == 'optr':
        # faithful to the open defect F52: get_string_for_annotation takes args[0] (NoneType) as THE member
        return '(SOpt (SLeaf LNone))'
    if k == 'union':
        if any(core_of(x, model)['k'] == 'data' for x in s['ts']):
            raise ValueError('tagged Union of dataclasses is outside the Gallina model')
        return '(SUnion %s)' % clist([rec(x) for x in s['ts']])
    if k == 'lit':
        return '(SLit %s)' % clist([coq_lit(v) for v in s['vs']])
    if k in ('named', 'typed', 'data', 'alias'):
        return '(SRef %s)' % coq_ref(item_of(s), model, ix)
    if k == 'ann':
        return '(SAnn %s)' % rec(s['t'])
    if k == 'qual':
        return '(SQual %s %s)' % (COQ_QUAL[s['q']], rec(s['t']))
    if k == 'str':
        return '(SStr %s %s)' % ('None' if pin is None else '(Some %d)' % pin, rec(s['t']))
    raise ValueError('%s is outside the Gallina surface model' % k)


def coq_senv(model, keys):
    """the surface program as a Gallina `senv`"""
    surf = model['surface']
    ix = _refs_index(model)
    if surf.get('recursive_alias'):
        raise ValueError('a recursive alias is outside the Gallina model (a core type is a finite tree)')
    if model.get('named_alias'):
        raise ValueError('renamed NamedTuples are outside the surface model')
    cls = []
    for ci, c in enumerate(model['classes']):
        if c.get('meta'):
            raise ValueError('per-class Meta is outside the Gallina model')
        fs = []
        for f, s in zip(c['fields'], surf['cls'][ci]):
            if f.get('path') or f.get('alias'):
                raise ValueError('Alias / AliasPath fields are outside the Gallina model')
            k = keys[c['name']][f['name']]
            d = f.get('default')
            fs.append('{| sf_name := %s; sf_ann := %s; sf_default := %s; sf_keys := %s; sf_dkey := %s |}' % (
                cstr(f['name']), coq_sann(s, model, ix), 'None' if d is None else '(Some %s)' % coq_pv(DEFAULT_TREE[d]),
                clist([cstr(x) for x in k['load']]), cstr(k['dump'])))
        cls.append('{| sc_name := %s; sc_mod := %d; sc_fields := %s |}' % (cstr(c['name']), surf['mod_of']['data:%d' % ci], clist(fs)))
    nts = ['{| sn_name := %s; sn_fields := %s |}' % (cstr(n), clist(
        ['(%s, %s)' % (cstr(lbl), coq_sann(s, model, ix)) for (lbl, _), s in zip(model['named'][n], surf['named'][n])]))
        for n in model['named']]
    tds = []
    for n in model['typed']:
        m = surf['mod_of']['typed:' + n]
        d, sd = model['typed'][n], surf['typed'][n]
        enc = lambda pairs, ss: clist(['(%s, %s)' % (cstr(k), coq_sann(s, model, ix, pin=m if s['k'] == 'str' else None))
                                       for (k, _), s in zip(pairs, ss)])
        tds.append('{| st_name := %s; st_req := %s; st_opt := %s |}' % (cstr(n), enc(d['req'], sd['req']), enc(d['opt'], sd['opt'])))
    als = ['{| sa_name := %s; sa_value := %s |}' % (cstr(x), coq_sann(s, model, ix)) for x, s in surf['aliases'].items()]
    ns = []
    for m in range(surf['n_mod']):
        ent = []
        for it, mm in surf['mod_of'].items():
            nm = item_name(model, it)
            if mm == m or nm in surf['imports'].get(str(m), []):
                ent.append('(%s, %s)' % (cstr(nm), coq_ref(it, model, ix)))
        ns.append(clist(ent))
    return '{| e_cls := %s; e_nts := %s; e_tds := %s; e_als := %s; e_ns := %s |}' % (
        clist(cls), clist(nts), clist(tds), clist(als), clist(ns))


def parse_sgen(s):
    """output of case_sgen -> {'reserr': {...}} | {'same': bool, 'inok': bool, 'gen': parse_gen(...)}"""
    if s.startswith('RESERR '):
        r = s[7:]
        return {'reserr': 'name' if r == '!B ' + 'NameError'.encode().hex() else 'fuel' if r == '!F' else 'type', 'raw': r}
    head, rest = s.split('#', 1)
    parts = head.split(' ')
    return {'same': parts[1] == 'same', 'inok': parts[2] == 'ok', 'gen': parse_gen(rest)}
