"""Shared machinery of the v1-engine checks (C02, C14): type / value trees, rendering to
Python source and to Gallina terms, generators, the oracle walker, binding summaries.
Pure stdlib; imported by the property modules AND by the implementation runners.

Types (JSON-able dicts):
  {'k':'leaf','l':L}  L in LEAVES or 'enum:<Name>'
  {'k':'seq','kind':'list|tuple|set|frozenset|deque','t':T}       tuple = tuple[T, ...]
  {'k':'tuple','ts':[T,...]}                                        fixed arity >= 1
  {'k':'dict','dd':bool,'kt':T,'vt':T}
  {'k':'opt','t':T} {'k':'union','ts':[T,...]} {'k':'lit','vs':[scalar,...]}
  {'k':'named','name':N} {'k':'typed','name':N} {'k':'data','c':index}
Model: {'classes':[{'name','fields':[{'name','ty','default':None|'none'|'int0'|'str0'|'list'|'dict'}]}],
        'named':{N:[(lbl,T)]}, 'typed':{N:{'req':[(k,T)],'opt':[(k,T)]}}, 'key_case':None|..., 'dump':...}
Values (trees): ['N'] ['B',b] ['I',str] ['F',hex] ['S',s] ['Y',hex] ['A',hex] ['O',leaf,token]
  ['L'|'T'|'E'|'Z'|'Q',[...]] ['D',dd|None,[[k,v],...]] ['M',name,[...]] ['C',clsname,[[f,v],...]]
"""
import ast, json, re, symtable

LEAVES = ['str', 'int', 'float', 'bool', 'none', 'nonebare', 'bytes', 'bytearray', 'uuid', 'decimal', 'path',
          'date', 'time', 'datetime', 'timedelta', 'any']
ENUMS = {'Color': [('RED', 'r'), ('GREEN', 'g'), ('BLUE', 'b')], 'Num': [('ONE', 1), ('TWO', 2), ('TEN', 10)]}
SEQ_TAG = {'list': 'L', 'tuple': 'T', 'set': 'E', 'frozenset': 'Z', 'deque': 'Q'}
TAG_SEQ = {v: k for k, v in SEQ_TAG.items()}
COQ_KIND = {'list': 'KList', 'tuple': 'KTuple', 'set': 'KSet', 'frozenset': 'KFrozen', 'deque': 'KDeque'}
COQ_LEAF = {'str': 'LStr', 'int': 'LInt', 'float': 'LFloat', 'bool': 'LBool', 'none': 'LNone', 'nonebare': 'LNone', 'bytes': 'LBytes',
            'bytearray': 'LBytearray', 'uuid': 'LUUID', 'decimal': 'LDecimal', 'path': 'LPath', 'date': 'LDate',
            'time': 'LTime', 'datetime': 'LDatetime', 'timedelta': 'LTimedelta', 'any': 'LAny'}
PY_LEAF = {'str': 'str', 'int': 'int', 'float': 'float', 'bool': 'bool', 'none': 'type(None)', 'nonebare': 'None', 'bytes': 'bytes',
           'bytearray': 'bytearray', 'uuid': 'UUID', 'decimal': 'Decimal', 'path': 'Path', 'date': 'date',
           'time': 'time', 'datetime': 'datetime', 'timedelta': 'timedelta', 'any': 'Any'}
FIELD_NAMES = ['alpha', 'beta_val', 'gamma2', 'delta_my_key', 'eps', 'zeta_aa9', 'eta_bb', 'theta']


def leaf(l): return {'k': 'leaf', 'l': l}
def seq(kind, t): return {'k': 'seq', 'kind': kind, 't': t}
def tup(*ts): return {'k': 'tuple', 'ts': list(ts)}
def dct(kt, vt, dd=False, od=False): return {'k': 'dict', 'dd': dd, 'od': od, 'kt': kt, 'vt': vt}
def opt(t): return {'k': 'opt', 't': t}
def optr(t): return {'k': 'optr', 't': t}     # Union[None, T]: None listed FIRST
def union(*ts): return {'k': 'union', 'ts': list(ts)}
def lit(*vs): return {'k': 'lit', 'vs': list(vs)}
def named(n): return {'k': 'named', 'name': n}
def typed(n): return {'k': 'typed', 'name': n}
def data(c): return {'k': 'data', 'c': c}


# ---------------------------------------------------------------------------------- type facts
def nt_name(model, n):
    """__name__ of the NamedTuple bound to variable n (F9: two types may share a __name__)"""
    return (model.get('named_alias') or {}).get(n, n)


def hashable_ty(t, model):
    k = t['k']
    if k == 'leaf':
        return t['l'] not in ('bytearray', 'any')
    if k == 'seq':
        return t['kind'] in ('tuple', 'frozenset') and hashable_ty(t['t'], model)
    if k == 'tuple':
        return all(hashable_ty(x, model) for x in t['ts'])
    if k in ('opt', 'optr'):
        return hashable_ty(t['t'], model)
    if k == 'lit':
        return True
    if k == 'named':
        return all(hashable_ty(x, model) for _, x in model['named'][t['name']])
    if k == 'union':
        return all(hashable_ty(x, model) for x in t['ts'])
    return False


def subtypes(t, model, into_helpers=True, seen=None):
    """All annotation nodes below t (not crossing into dataclasses)."""
    seen = seen if seen is not None else set()
    yield t
    k = t['k']
    if k in ('seq', 'opt', 'optr'):
        yield from subtypes(t['t'], model, into_helpers, seen)
    elif k in ('tuple', 'union'):
        for x in t['ts']:
            yield from subtypes(x, model, into_helpers, seen)
    elif k == 'dict':
        yield from subtypes(t['kt'], model, into_helpers, seen)
        yield from subtypes(t['vt'], model, into_helpers, seen)
    elif k == 'named' and into_helpers and ('n', t['name']) not in seen:
        seen.add(('n', t['name']))
        for _, x in model['named'][t['name']]:
            yield from subtypes(x, model, into_helpers, seen)
    elif k == 'typed' and into_helpers and ('t', t['name']) not in seen:
        seen.add(('t', t['name']))
        for _, x in model['typed'][t['name']]['req'] + model['typed'][t['name']]['opt']:
            yield from subtypes(x, model, into_helpers, seen)


def f18_free(t, ixd, model):
    k = t['k']
    if k in ('leaf', 'lit', 'data', 'optr'):
        return True
    if k == 'seq':
        return f18_free(t['t'], False, model)
    if k == 'tuple':
        return (not ixd) and all(f18_free(x, True, model) for x in t['ts'])
    if k == 'dict':
        return f18_free(t['kt'], False, model) and f18_free(t['vt'], False, model)
    if k == 'opt':
        return f18_free(t['t'], ixd, model)
    if k == 'union':
        return all(f18_free(x, False, model) for x in t['ts'])
    if k == 'named':
        return all(f18_free(x, True, model) for _, x in model['named'][t['name']])
    if k == 'typed':
        d = model['typed'][t['name']]
        return all(f18_free(x, True, model) for _, x in d['req']) and all(f18_free(x, False, model) for _, x in d['opt'])
    raise ValueError(k)


def keyseq_free(t, inkey, model):
    k = t['k']
    if k in ('leaf', 'lit', 'data', 'optr'):
        return True
    if k == 'seq':
        return (not inkey) and keyseq_free(t['t'], inkey, model)
    if k == 'tuple':
        return all(keyseq_free(x, inkey, model) for x in t['ts'])
    if k == 'dict':
        return keyseq_free(t['kt'], True, model) and keyseq_free(t['vt'], False, model)
    if k == 'opt':
        return keyseq_free(t['t'], inkey, model)
    if k == 'union':
        return all(keyseq_free(x, False, model) for x in t['ts'])
    if k == 'named':
        return all(keyseq_free(x, False, model) for _, x in model['named'][t['name']])
    if k == 'typed':
        d = model['typed'][t['name']]
        return all(keyseq_free(x, False, model) for _, x in d['req'] + d['opt'])
    raise ValueError(k)


# ---------------------------------------------------------------------------------- Python source
def py_ann(t, model, defined=None):
    """annotation source; a dataclass not yet defined at this point is a forward reference (string)"""
    k = t['k']
    if k == 'leaf':
        l = t['l']
        return l[5:] if l.startswith('enum:') else PY_LEAF[l]
    if k == 'seq':
        inner = py_ann(t['t'], model, defined)
        return 'tuple[%s, ...]' % inner if t['kind'] == 'tuple' else '%s[%s]' % (t['kind'], inner)
    if k == 'tuple':
        return 'tuple[%s]' % ', '.join(py_ann(x, model, defined) for x in t['ts'])
    if k == 'dict':
        return '%s[%s, %s]' % ('defaultdict' if t['dd'] else 'OrderedDict' if t.get('od') else 'dict',
                               py_ann(t['kt'], model, defined), py_ann(t['vt'], model, defined))
    if k == 'opt':
        return 'Optional[%s]' % py_ann(t['t'], model, defined)
    if k == 'optr':
        return 'Union[None, %s]' % py_ann(t['t'], model, defined)
    if k == 'union':
        return 'Union[%s]' % ', '.join(py_ann(x, model, defined) for x in t['ts'])
    if k == 'lit':
        return 'Literal[%s]' % ', '.join(repr(v) for v in t['vs'])
    if k in ('named', 'typed'):
        return t['name']
    if k == 'data':
        n = model['classes'][t['c']]['name']
        if model.get('ann_style') == 'fwd':
            return repr(n)                    # every dataclass reference is a forward reference (string)
        return n if defined is not None and n in defined else repr(n)       # forward reference
    raise ValueError(k)


PREAMBLE = '''from __future__ import annotations
from dataclasses import dataclass, field
from typing import *
from collections import defaultdict, deque, OrderedDict
from datetime import date, time, datetime, timedelta
from decimal import Decimal
from pathlib import Path
from uuid import UUID
from enum import Enum
from dataclass_wizard.v1 import Alias, AliasPath
class Color(Enum):
    RED = 'r'
    GREEN = 'g'
    BLUE = 'b'
class Num(Enum):
    ONE = 1
    TWO = 2
    TEN = 10
'''

DEFAULT_SRC = {'none': ' = None', 'int0': ' = 0', 'str0': " = ''", 'list': ' = field(default_factory=list)',
               'dict': ' = field(default_factory=dict)'}
DEFAULT_TREE = {'none': ['N'], 'int0': ['I', '0'], 'str0': ['S', ''], 'list': ['L', []], 'dict': ['D', None, []]}


DEFAULT_EXPR = {'none': 'None', 'int0': '0', 'str0': "''"}


def field_rhs(f):
    """right-hand side of a field declaration: plain / default / Alias(...) / AliasPath(...)"""
    d = f.get('default')
    if f.get('path') or f.get('alias'):
        fn = 'AliasPath(%r' % f['path'] if f.get('path') else 'Alias(%s' % ', '.join(repr(a) for a in f['alias'])
        if d is None:
            return ' = %s)' % fn
        if d in DEFAULT_EXPR:
            return ' = %s, default=%s)' % (fn, DEFAULT_EXPR[d])
        return ' = %s, default_factory=%s)' % (fn, d)
    return DEFAULT_SRC.get(d, '')


def class_order(model):
    """emission order: a class is emitted after the classes it references when possible
    (references that cannot be ordered — recursion — become forward-reference strings)"""
    n = len(model['classes'])
    deps = {}
    for i, c in enumerate(model['classes']):
        d = set()
        for f in c['fields']:
            for s in subtypes(f['ty'], model):
                if s['k'] == 'data':
                    d.add(s['c'])
        deps[i] = d
    order, done = [], set()

    def visit(i, stack):
        if i in done or i in stack:
            return
        for j in sorted(deps[i]):
            visit(j, stack | {i})
        done.add(i)
        order.append(i)

    for i in range(n):
        visit(i, frozenset())
    return order


def helper_deps(model, kind, name):
    items = model['named'][name] if kind == 'named' else model['typed'][name]['req'] + model['typed'][name]['opt']
    out = set()
    for _, t in items:
        for s in subtypes(t, model, into_helpers=False):
            if s['k'] in ('data', 'named', 'typed'):
                out.add((s['k'], s['c'] if s['k'] == 'data' else s['name']))
    return out


def model_source(model):
    """Python source of the model: NamedTuple / TypedDict / dataclass definitions in dependency
    order; only recursive references are forward-reference strings."""
    out = [PREAMBLE if model.get('ann_style') == 'future' else PREAMBLE.replace('from __future__ import annotations\n', '')]
    defined = set()
    emitted = set()
    pending = [('named', n) for n in model['named']] + [('typed', n) for n in model['typed']] + \
              [('data', i) for i in class_order(model)]

    def emit(item):
        kind, x = item
        if kind == 'named' and nt_name(model, x) != x:
            out.append('%s = NamedTuple(%r, [%s])' % (x, nt_name(model, x), ', '.join(
                '(%r, %s)' % (lbl, py_ann(t, model, defined)) for lbl, t in model['named'][x])))
        elif kind == 'named':
            out.append('class %s(NamedTuple):' % x)
            for lbl, t in model['named'][x]:
                out.append('    %s: %s' % (lbl, py_ann(t, model, defined)))
        elif kind == 'typed':
            d = model['typed'][x]
            out.append('class %s(TypedDict):' % x)
            for k, t in d['req']:
                out.append('    %s: %s' % (k, py_ann(t, model, defined)))
            for k, t in d['opt']:
                out.append('    %s: NotRequired[%s]' % (k, py_ann(t, model, defined)))
            if not d['req'] and not d['opt']:
                out.append('    pass')
        else:
            c = model['classes'][x]
            out.append('@dataclass')
            out.append('class %s:' % c['name'])
            if not c['fields']:
                out.append('    pass')
            for f in c['fields']:
                out.append('    %s: %s%s' % (f['name'], py_ann(f['ty'], model, defined), field_rhs(f)))
            defined.add(c['name'])
        emitted.add(item)

    def deps_of(item):
        kind, x = item
        if kind == 'data':
            d = set()
            for f in model['classes'][x]['fields']:
                for s in subtypes(f['ty'], model, into_helpers=False):
                    if s['k'] in ('named', 'typed'):
                        d.add((s['k'], s['name']))
            return d
        return helper_deps(model, kind, x)

    # repeatedly emit items whose (non-recursive) dependencies are emitted; break cycles in order
    while pending:
        progress = False
        for item in list(pending):
            need = {d for d in deps_of(item) if d not in emitted and d != item}
            if item[0] == 'data':
                need = {d for d in need if d[0] != 'data'}      # dataclass refs may be forward strings
            if not need:
                emit(item)
                pending.remove(item)
                progress = True
        if not progress:
            emit(pending.pop(0))
    return '\n'.join(out) + '\n'


# ---------------------------------------------------------------------------------- Gallina terms
def cstr(s):
    b = s.encode('utf-8') if isinstance(s, str) else bytes(s)
    if all(32 <= c < 127 and c != 34 for c in b):
        return '(S "%s")' % b.decode('ascii')
    return '(B [%s]%%N)' % ';'.join(str(c) for c in b)


def clist(items):
    return '[' + '; '.join(items) + ']'


def coq_leaf(l):
    return '(LEnum %s)' % cstr(l[5:]) if l.startswith('enum:') else COQ_LEAF[l]


def coq_lit(v):
    if v is None:
        return 'LitNone'
    if isinstance(v, bool):
        return '(LitBool %s)' % ('true' if v else 'false')
    if isinstance(v, int):
        return '(LitInt (%d)%%Z)' % v
    return '(LitStr %s)' % cstr(v)


def coq_tys(items, model):
    out = 'TNil'
    for lbl, t in reversed(items):
        out = '(TCons %s %s %s)' % (cstr(lbl), coq_ty(t, model), out)
    return out


def coq_ty(t, model):
    k = t['k']
    if k == 'leaf':
        return '(TLeaf %s)' % coq_leaf(t['l'])
    if k == 'seq':
        return '(TSeq %s %s)' % (COQ_KIND[t['kind']], coq_ty(t['t'], model))
    if k == 'tuple':
        return '(TTuple %s)' % coq_tys([('', x) for x in t['ts']], model)
    if k == 'dict':
        dd = '(Some %s)' % cstr(dd_factory(t['vt'])) if t['dd'] else '(Some (S "OrderedDict"))' if t.get('od') else 'None'
        return '(TDict %s %s %s)' % (dd, coq_ty(t['kt'], model), coq_ty(t['vt'], model))
    if k == 'opt':
        return '(TOpt %s)' % coq_ty(t['t'], model)
    if k == 'optr':
        # faithful to the open defect F52: get_string_for_annotation takes args[0] (NoneType) as THE member
        return '(TOpt (TLeaf LNone))'
    if k == 'union':
        if any(x['k'] == 'data' for x in t['ts']):
            raise ValueError('tagged Union of dataclasses is outside the Gallina model')
        return '(TUnion %s)' % coq_tys([('', x) for x in t['ts']], model)
    if k == 'lit':
        return '(TLit %s)' % clist([coq_lit(v) for v in t['vs']])
    if k == 'named':
        return '(TNamed %s %s)' % (cstr(nt_name(model, t['name'])), coq_tys(model['named'][t['name']], model))
    if k == 'typed':
        d = model['typed'][t['name']]
        return '(TTyped %s %s %s)' % (cstr(t['name']), coq_tys(d['req'], model), coq_tys(d['opt'], model))
    if k == 'data':
        return '(TData %d)' % t['c']
    raise ValueError(k)


def dd_factory(vt):
    """default_factory = getattr(vt, '__origin__', vt): a name identifying the factory."""
    k = vt['k']
    if k == 'leaf':
        return vt['l']
    if k == 'seq':
        return vt['kind']
    if k == 'dict':
        return 'defaultdict' if vt['dd'] else 'OrderedDict' if vt.get('od') else 'dict'
    if k == 'tuple':
        return 'tuple'
    return k


def coq_pv(v):
    tag = v[0]
    if tag == 'N':
        return 'VNone'
    if tag == 'B':
        return '(VBool %s)' % ('true' if v[1] else 'false')
    if tag == 'I':
        return '(VInt (%s)%%Z)' % v[1]
    if tag == 'F':
        return '(VFloat %s)' % cstr(v[1])
    if tag == 'S':
        return '(VStr %s)' % cstr(v[1])
    if tag == 'Y':
        return '(VBytes %s)' % cstr(bytes.fromhex(v[1]))
    if tag == 'A':
        return '(VByteArray %s)' % cstr(bytes.fromhex(v[1]))
    if tag == 'O':
        return '(VObj %s %s)' % (coq_leaf(v[1]), cstr(v[2]))
    if tag in TAG_SEQ:
        return '(VSeq %s %s)' % (COQ_KIND[TAG_SEQ[tag]], clist([coq_pv(x) for x in v[1]]))
    if tag == 'D':
        dd = 'None' if v[1] is None else '(Some %s)' % cstr(v[1])
        return '(VDict %s %s)' % (dd, clist(['(%s, %s)' % (coq_pv(k), coq_pv(x)) for k, x in v[2]]))
    if tag == 'M':
        return '(VNamed %s %s)' % (cstr(v[1]), clist([coq_pv(x) for x in v[2]]))
    raise ValueError('cannot send %r to the model' % (tag,))


def coq_ct(model, keys):
    """keys[class name][field name] = {'load': [...], 'dump': str}"""
    cls = []
    for c in model['classes']:
        fs = []
        if c.get('meta'):
            raise ValueError('per-class Meta is outside the Gallina model')
        for f in c['fields']:
            if f.get('path') or f.get('alias'):
                raise ValueError('Alias / AliasPath fields are outside the Gallina model')
            k = keys[c['name']][f['name']]
            d = f.get('default')
            fs.append('{| f_name := %s; f_ty := %s; f_default := %s; f_keys := %s; f_dkey := %s |}' % (
                cstr(f['name']), coq_ty(f['ty'], model),
                'None' if d is None else '(Some %s)' % coq_pv(DEFAULT_TREE[d]),
                clist([cstr(x) for x in k['load']]), cstr(k['dump'])))
        cls.append('{| c_name := %s; c_fields := %s |}' % (cstr(c['name']), clist(fs)))
    return clist(cls)


def coq_res(r):
    """oracle answer {'ok': tree} | {'err': ExcName} -> result pv"""
    if 'ok' in r:
        return '(Ok %s)' % coq_pv(r['ok'])
    return '(Err (XBare %s))' % cstr(r['err'])


def coq_oracle(entries):
    """entries: list of (leaf, inopt, tree, answer)"""
    # an entry the runner could not even build is left out: the model then answers XOracle (never a pass)
    return clist(['(%s, %s, %s, %s)' % (coq_leaf(l), 'true' if o else 'false', coq_pv(v), coq_res(r))
                  for l, o, v, r in entries if not str(r.get('err', '')).startswith('HarnessBuild')])


# ---------------------------------------------------------------------------------- parsing model output
class _P:
    def __init__(self, s):
        self.t = s.replace('(', ' ( ').replace(')', ' ) ').split()
        self.i = 0

    def next(self):
        x = self.t[self.i]
        self.i += 1
        return x

    def peek(self):
        return self.t[self.i] if self.i < len(self.t) else None


def _unhex(h):
    return bytes.fromhex(h).decode('utf-8', 'surrogateescape')


def _leaf_of(s):
    return 'enum:' + _unhex(s[5:]) if s.startswith('enum.') else s


def parse_pv_tokens(p, model):
    x = p.next()
    if x == '(':
        head = p.next()
        items = []
        while p.peek() != ')':
            items.append(parse_pv_tokens(p, model))
        p.next()
        if head in TAG_SEQ:
            return [head, items]
        if head.startswith('D'):
            dd = None if head[1] == '-' else _unhex(head[2:])
            return ['D', dd, [[items[i], items[i + 1]] for i in range(0, len(items), 2)]]
        if head.startswith('M'):
            return ['M', _unhex(head[1:]), items]
        if head.startswith('C'):
            name = model['classes'][int(head[1:])]['name']
            return ['C', name, [[items[i][1], items[i + 1]] for i in range(0, len(items), 2)]]
        raise ValueError(head)
    if x == 'N':
        return ['N']
    if x in ('B0', 'B1'):
        return ['B', x == 'B1']
    c, rest = x[0], x[1:]
    if c == 'I':
        return ['I', rest]
    if c == 'F':
        return ['F', _unhex(rest)]
    if c == 'S':
        return ['S', _unhex(rest)]
    if c == 'Y':
        return ['Y', rest]
    if c == 'A':
        return ['A', rest]
    if c == 'O':
        l, tok = rest.split(':', 1)
        return ['O', _leaf_of(l), _unhex(tok)]
    # inside (C..) the field names come as bare hex words
    return ['_name', _unhex(x)]


def _fix_names(tree):
    return tree


def parse_pv(s, model):
    p = _P(s)
    # field names inside (C ...) are bare hex: handled by the '_name' fallback
    return parse_pv_tokens(p, model)


def _opt(s):
    return None if s == '-' else _unhex(s[1:])


def parse_res(s, model):
    """Outcome of the model -> {'ok': tree} | {'lib': kind, 'cls','fld','names','obj'} | {'bare': name} | {'marker': 'F'|'O'}"""
    if s.startswith('OK '):
        return {'ok': parse_pv(s[3:], model)}
    if s.startswith('!B '):
        return {'bare': _unhex(s[3:])}
    if s == '!F':
        return {'marker': 'F'}
    if s == '!O':
        return {'marker': 'O'}
    if s.startswith('!L '):
        parts = s.split(' ', 5)
        names = [_unhex(x) for x in parts[4][1:-1].split(',') if x]
        return {'lib': parts[1], 'cls': _opt(parts[2]), 'fld': _opt(parts[3]), 'names': names,
                'obj': parse_pv(parts[5], model)}
    raise ValueError('cannot parse model outcome %r' % s[:200])


def parse_attr(s):
    if s == 'none':
        return None
    _, c, f = s.split(' ')
    return [_unhex(c), _opt(f)]


def parse_gen(s):
    """-> {'err': ...} | {'main','coherent','distinct','fns': {name: {'kind', 'toks': set}}}"""
    if s.startswith('GENERR'):
        return {'err': s[7:]}
    head, *fns = s.split('#')
    parts = head.split(' ')
    out = {'main': _unhex(parts[1]), 'coherent': parts[2] == 'coh', 'distinct': parts[3] == 'dist', 'fns': {}}
    for f in fns:
        cols = f.split('|')
        out['fns'][_unhex(cols[0])] = {'kind': cols[1], 'toks': sorted(set(_tok(c) for c in cols[2:]))}
    return out


def _tok(c):
    """decode hex parts of a summary token"""
    kind, rest = c.split(' ', 1)
    if kind == 'C':
        f, path = rest.split(' ', 1)
        return 'C %s %s' % (_unhex(f), _path(path))
    if kind in ('R', 'F'):
        return '%s %s' % (kind, _path(rest))
    return c


def _path(p):
    return re.sub(r'\[s([0-9a-f]*)\]', lambda m: '[%r]' % _unhex(m.group(1)), p)


# ---------------------------------------------------------------------------------- canonical comparison
def norm(tree):
    """Order-insensitive containers sorted (sets; dict items are kept in order)."""
    tag = tree[0]
    if tag in ('E', 'Z'):
        return [tag, sorted((norm(x) for x in tree[1]), key=lambda x: json.dumps(x, sort_keys=True))]
    if tag in TAG_SEQ:
        return [tag, [norm(x) for x in tree[1]]]
    if tag == 'D':
        return ['D', tree[1], sorted(([norm(k), norm(v)] for k, v in tree[2]), key=lambda x: json.dumps(x, sort_keys=True))]
    if tag == 'M':
        return ['M', tree[1], [norm(x) for x in tree[2]]]
    if tag == 'C':
        return ['C', tree[1], [[f, norm(v)] for f, v in tree[2]]]
    return tree


# ---------------------------------------------------------------------------------- oracle walker
def py_iter(v):
    tag = v[0]
    if tag in TAG_SEQ:
        return list(v[1])
    if tag == 'M':
        return list(v[2])
    if tag == 'D':
        return [k for k, _ in v[2]]
    if tag == 'S':
        return [['S', c] for c in v[1]]
    if tag in ('Y', 'A'):
        return [['I', str(b)] for b in bytes.fromhex(v[1])]
    return None


def py_index(v, ix):
    tag = v[0]
    if tag in ('E', 'Z'):
        return None
    if tag in TAG_SEQ or tag == 'M':
        l = v[1] if tag != 'M' else v[2]
        return l[ix] if isinstance(ix, int) and ix < len(l) else None
    if tag == 'S':
        return ['S', v[1][ix]] if isinstance(ix, int) and ix < len(v[1]) else None
    if tag in ('Y', 'A'):
        b = bytes.fromhex(v[1])
        return ['I', str(b[ix])] if isinstance(ix, int) and ix < len(b) else None
    if tag == 'D':
        for k, x in v[2]:
            if (isinstance(ix, str) and k == ['S', ix]) or (isinstance(ix, int) and k == ['I', str(ix)]):
                return x
    return None


def walk_pairs(t, o, v, model, out, depth=0):
    """Collect every (leaf, in_optional, value) the loader of annotation t may convert when given v
    (a superset: no early termination).  out: dict key -> (leaf, inopt, tree)."""
    if v is None or depth > 80:
        return
    k = t['k']
    if k == 'leaf':
        if t['l'] not in ('none', 'nonebare', 'any'):
            out.setdefault(json.dumps([t['l'], o, v], sort_keys=True), (t['l'], o, v))
    elif k == 'seq':
        for x in py_iter(v) or []:
            walk_pairs(t['t'], False, x, model, out, depth + 1)
    elif k == 'tuple':
        for i, x in enumerate(t['ts']):
            walk_pairs(x, False, py_index(v, i), model, out, depth + 1)
    elif k == 'dict':
        if v[0] == 'D':
            for kk, x in v[2]:
                walk_pairs(t['kt'], False, kk, model, out, depth + 1)
                walk_pairs(t['vt'], False, x, model, out, depth + 1)
    elif k == 'opt':
        if v != ['N']:
            walk_pairs(t['t'], True, v, model, out, depth + 1)
    elif k == 'union':
        has_none = any(x == leaf('none') for x in t['ts'])
        for x in t['ts']:
            walk_pairs(x, has_none, v, model, out, depth + 1)
    elif k == 'named':
        for i, (_, x) in enumerate(model['named'][t['name']]):
            walk_pairs(x, False, py_index(v, i), model, out, depth + 1)
    elif k == 'typed':
        d = model['typed'][t['name']]
        for key, x in d['req'] + d['opt']:
            walk_pairs(x, False, py_index(v, key), model, out, depth + 1)
    elif k == 'data':
        walk_class(t['c'], v, model, out, depth + 1)


def all_subvalues(v, out):
    out.append(v)
    tag = v[0]
    if tag in TAG_SEQ:
        for x in v[1]:
            all_subvalues(x, out)
    elif tag == 'M':
        for x in v[2]:
            all_subvalues(x, out)
    elif tag == 'D':
        for k, x in v[2]:
            all_subvalues(k, out)
            all_subvalues(x, out)
    elif tag == 'S' and 0 < len(v[1]) <= 6:
        for c in v[1]:
            out.append(['S', c])


def walk_generous(t, v, model, out):
    """every leaf of annotation t x every sub-value of v (used where the generated code is known to
    read the wrong position, so that the FAITHFUL model finds an oracle answer for what the code does)"""
    leaves = set()
    for c in model['classes']:           # the code may route the value through ANY helper of the model
        for f in c['fields']:
            for s in subtypes(f['ty'], model):
                if s['k'] == 'leaf' and s['l'] not in ('none', 'nonebare', 'any'):
                    leaves.add(s['l'])
    vals = []
    all_subvalues(v, vals)
    for l in sorted(leaves):
        for x in vals:
            for o in (False, True):
                out.setdefault(json.dumps([l, o, x], sort_keys=True), (l, o, x))


def walk_class(c, v, model, out, depth=0, keys=None):
    if v is None or v[0] != 'D':
        return
    cname = model['classes'][c]['name']
    for f in model['classes'][c]['fields']:
        cands = (model.get('_keys') or {}).get(cname, {}).get(f['name'], {}).get('load', [f['name']])
        for key in cands:
            x = py_index(v, key)
            if x is not None:
                walk_pairs(f['ty'], False, x, model, out, depth + 1)
                if f.get('generous'):
                    walk_generous(f['ty'], x, model, out)
                break


# ---------------------------------------------------------------------------------- binding summaries
_VAR = re.compile(r'^[vk]\d+$')
_HELPER = re.compile(r'^(_load_|__dataclass_wizard_from_dict_)')


def _path_of(node, parents):
    """maximal chain of constant subscripts around a Name"""
    p = node.id
    cur = node
    while True:
        par = parents.get(id(cur))
        if isinstance(par, ast.Subscript) and par.value is cur and isinstance(par.slice, ast.Constant) \
                and isinstance(par.slice.value, (int, str)) and not isinstance(par.slice.value, bool):
            p += '[%r]' % (par.slice.value,) if isinstance(par.slice.value, str) else '[%d]' % par.slice.value
            cur = par
        else:
            return p, cur


def summarize_source(src):
    """Binding summary of one generated function, computed from its source text with `ast`:
    tokens 'F path' (read, base not bound by an enclosing comprehension), 'R path' (bound),
    'B var' (comprehension target), 'C helper argpath'."""
    tree = ast.parse(src)
    fn = tree.body[0]
    parents = {}
    for n in ast.walk(tree):
        for ch in ast.iter_child_nodes(n):
            parents[id(ch)] = n
    toks = set()

    def visit(node, bound):
        if isinstance(node, (ast.ListComp, ast.SetComp, ast.GeneratorExp, ast.DictComp)):
            gens = node.generators
            newb = set(bound)
            for gi, g in enumerate(gens):
                visit(g.iter, bound if gi == 0 else newb)
                for t in ast.walk(g.target):
                    if isinstance(t, ast.Name):
                        newb.add(t.id)
                        if _VAR.match(t.id):
                            toks.add('B ' + t.id)
                for c in g.ifs:
                    visit(c, newb)
            if isinstance(node, ast.DictComp):
                visit(node.key, newb)
                visit(node.value, newb)
            else:
                visit(node.elt, newb)
            return
        if isinstance(node, ast.Name) and isinstance(node.ctx, ast.Load) and _VAR.match(node.id):
            p, _ = _path_of(node, parents)
            toks.add(('R ' if node.id in bound else 'F ') + p)
        if isinstance(node, ast.Call) and isinstance(node.func, ast.Name) and _HELPER.match(node.func.id):
            arg = node.args[0] if node.args else None
            ap = '?'
            cur = arg
            while isinstance(cur, ast.Subscript):
                cur = cur.value
            if isinstance(cur, ast.Name):
                ap, top = _path_of(cur, parents)
                if top is not arg:
                    ap = '?'
            toks.add('C %s %s' % (node.func.id, ap))
        for ch in ast.iter_child_nodes(node):
            visit(ch, bound)

    visit(fn, set())
    return {'params': [a.arg for a in fn.args.args], 'toks': sorted(toks)}


def unbound_positional(src):
    """Direct freshness predicate (independent of the model), with `symtable`: positional
    variables (v{i}/k{i}) that some scope of the generated function reads as a GLOBAL, i.e. that
    are neither the parameter, nor assigned in the function, nor bound by the comprehension."""
    bad = set()

    def rec(tab):
        for s in tab.get_symbols():
            if _VAR.match(s.get_name()) and s.is_referenced() and s.is_global():
                bad.add(s.get_name())
        for ch in tab.get_children():
            rec(ch)

    rec(symtable.symtable(src, '<generated>', 'exec'))
    return sorted(bad)


# ---------------------------------------------------------------------------------- running the model
def coq_shards(workdir, imports, shards, jobs=8, timeout=900):
    """Evaluate shards = [(prelude, [expr, ...]), ...] (each expr : pstr) with one coqc process per
    shard; returns the list of result lists.  Same protocol as lib/coqrun.coq_eval (results come back
    hex-encoded inside one string literal), but every shard carries its own prelude and shards are
    kept small: reading back / printing one huge string literal is super-linear in coqc."""
    import os, re, subprocess, concurrent.futures as cf
    from lib import coqrun
    os.makedirs(workdir, exist_ok=True)

    def one(args):
        idx, (prelude, exprs) = args
        path = os.path.join(workdir, 'Shard_%d.v' % idx)
        with open(path, 'w') as f:
            f.write('From DW Require Import %s.\n' % ' '.join(imports))
            if prelude:
                f.write(prelude + '\n')
            f.write('Definition results : list pstr := [\n' + ';\n'.join(exprs) + '\n].\n')
            f.write('Eval vm_compute in (out (join (S ";") (map hex results))).\n')
        try:
            p = subprocess.run(['coqc'] + coqrun.QFLAGS + [path], capture_output=True, text=True, timeout=timeout,
                               cwd=workdir, preexec_fn=coqrun._unlimit_stack)
        except subprocess.TimeoutExpired:
            raise coqrun.CoqError('coqc timeout on shard %d' % idx)
        if p.returncode != 0:
            raise coqrun.CoqError('coqc failed on shard %d: %s' % (idx, (p.stderr or p.stdout)[-2000:]))
        m = re.search(r'=\s*"([0-9a-f;]*)"', p.stdout)
        if not m:
            raise coqrun.CoqError('cannot parse coqc output: %r' % p.stdout[:500])
        parts = m.group(1).split(';') if exprs else []
        out = [bytes.fromhex(x).decode('utf-8', 'surrogateescape') for x in parts]
        if len(out) != len(exprs):
            raise coqrun.CoqError('shard %d: %d results for %d cases' % (idx, len(out), len(exprs)))
        return idx, out

    res = {}
    with cf.ThreadPoolExecutor(max_workers=jobs) as ex:
        for idx, out in ex.map(one, list(enumerate(shards))):
            res[idx] = out
    return [res[i] for i in range(len(shards))]

# ======================================================================== reference wire format
import base64 as _b64, datetime as _dt
TAG_KEY = '__tag__'


# ---------------------------------------------------------------------------------- key spellings (reference)
def _cap(w):
    return w[0].upper() + w[1:]


def spellings(name):
    """documented spellings of a canonical snake_case field name"""
    ws = name.split('_')
    return {'SNAKE': name, 'CAMEL': ws[0] + ''.join(_cap(w) for w in ws[1:]), 'PASCAL': ''.join(_cap(w) for w in ws),
            'KEBAB': '-'.join(ws), 'UKEBAB': '-'.join(_cap(w) for w in ws), 'USNAKE': '_'.join(_cap(w) for w in ws),
            'SCREAMING': name.upper()}


def doc_key(name, kc, r):
    if kc is None:
        return name
    if kc == 'AUTO':
        return spellings(name)[r.choice(['SNAKE', 'CAMEL', 'PASCAL', 'KEBAB'])]
    return spellings(name)[kc]


def field_of_key(cd, key):
    """the field a document key was written for (any documented spelling, alias, or top of its path)"""
    for f in cd['fields']:
        if f.get('path'):
            if key == f['path'].split('.')[0]:
                return f
        elif f.get('alias'):
            if key in f['alias']:
                return f
        elif key == f['name'] or key in spellings(f['name']).values():
            return f
    return None


def maybe_accepted(name, kc, key):
    if kc is None:
        return key == name
    if kc == 'AUTO':
        return key == name or key in spellings(name).values()
    return key == spellings(name)[kc]


# ---------------------------------------------------------------------------------- reference wire format
def _td_str(tok):
    d, s, us = (int(x) for x in tok.split(','))
    return str(_dt.timedelta(days=d, seconds=s, microseconds=us))


def dump_doc(v, t, model, r):
    """JSON document of a conforming value (transcribed from the documented wire encoding)"""
    k = t['k']
    kc = model.get('key_case')
    if k == 'leaf':
        l = t['l']
        if v[0] == 'Y' or v[0] == 'A':
            return ['S', _b64.b64encode(bytes.fromhex(v[1])).decode()]
        if v[0] == 'O':
            tok = v[2]
            if l == 'uuid':
                return ['S', tok.replace('-', '')]
            if l in ('decimal', 'path', 'date'):
                return ['S', tok]
            if l in ('time', 'datetime'):
                return ['S', tok[:-6] + 'Z' if tok.endswith('+00:00') else tok]
            if l == 'timedelta':
                return ['S', _td_str(tok)]
            if l.startswith('enum:'):
                val = dict(ENUMS[l[5:]])[tok]
                return ['I', str(val)] if isinstance(val, int) else ['S', val]
        return v
    if k == 'seq':
        return ['L', [dump_doc(x, t['t'], model, r) for x in v[1]]]
    if k == 'tuple':
        return ['L', [dump_doc(x, tt, model, r) for x, tt in zip(v[1], t['ts'])]]
    if k == 'dict':
        return ['D', None, [[dump_doc(kk, t['kt'], model, r), dump_doc(x, t['vt'], model, r)] for kk, x in v[2]]]
    if k in ('opt', 'optr'):
        return v if v == ['N'] else dump_doc(v, t['t'], model, r)
    if k == 'lit':
        return v
    if k == 'union':
        if v[0] == 'C':          # tagged dataclass member
            alt = [x for x in t['ts'] if x['k'] == 'data' and model['classes'][x['c']]['name'] == v[1]][0]
            d = dump_doc(v, alt, model, r)
            return ['D', None, [[['S', TAG_KEY], ['S', v[1]]]] + d[2]]
        tagleaf = {'I': 'int', 'S': 'str', 'F': 'float', 'B': 'bool', 'N': 'none', 'Y': 'bytes', 'A': 'bytearray'}
        for x in t['ts']:        # the member the value belongs to
            if (v[0] in TAG_SEQ and x['k'] == 'seq' and SEQ_TAG[x['kind']] == v[0]) or (v[0] == 'D' and x['k'] in ('dict', 'typed')) \
                    or (v[0] == 'M' and x['k'] == 'named') \
                    or (x['k'] == 'leaf' and (x['l'] == tagleaf.get(v[0]) or (v[0] == 'O' and x['l'] == v[1]))):
                return dump_doc(v, x, model, r)
        return v
    if k == 'named':
        return ['L', [dump_doc(x, tt, model, r) for x, (_, tt) in zip(v[2], model['named'][t['name']])]]
    if k == 'typed':
        d = model['typed'][t['name']]
        tys = dict((key, tt) for key, tt in d['req'] + d['opt'])
        return ['D', None, [[kk, dump_doc(x, tys[kk[1]], model, r)] for kk, x in v[2]]]
    if k == 'data':
        cd = model['classes'][t['c']]
        fs = {f['name']: f for f in cd['fields']}
        items = []
        for n, x in v[2]:
            f = fs[n]
            val = dump_doc(x, f['ty'], model, r)
            if f.get('path'):
                top, inner = f['path'].split('.')
                items.append([['S', top], ['D', None, [[['S', inner], val]]]])
            elif f.get('alias'):
                items.append([['S', f['alias'][0]], val])
            else:
                items.append([['S', doc_key(n, kc, r)], val])
        return ['D', None, items]
    raise ValueError(k)


