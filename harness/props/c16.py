"""C16 — field properties get their declared default through the setter, in every style.

Theorems: coq/props/C16.v (model coq/model/PropWiz.v).  The harness writes
classes as SOURCE TEXT (`@dataclass class K(metaclass=property_wizard)`), one per
cell of the style x default-kind x annotation-kind matrix plus random classes with
several field properties, plain fields, read-only and ordinary properties, in three
body layouts.  Setters are instrumented with a call log.  Three texts are compared
per class: the implementation's observations (inspect.signature, state of the
property objects, setter log, getter values, object identity pattern), the Coq
model's, and an independent reference specification transcribed from the property
text (direct predicate).  A second, "exotic" stream (both names annotated, two
default sources, ClassVar, ordering errors, missing / unexpected arguments,
property objects passed explicitly ...) is compared with the model only.
"""
import json, keyword, builtins, typing, itertools
from lib.coqrun import coq_str, coq_list

META = {
    'id': 'C16',
    'title': 'Field properties get their declared default through the setter, in every style',
    'level': 'proof',
    'technique': 'Coq proof (finite matrix by vm_compute + forallb_forall; unbounded declaration lists by non-interference '
                 'lemmas over ordered dictionaries and induction on the declaration list) on a hand-written Gallina model of '
                 'property_wizard.py + differential correspondence and direct predicates on generated class source text',
    'design_ref': 'DESIGN.md section 4 C16',
    'theorems': ['C16_matrix', 'C16_matrix_size', 'C16_matrix_both', 'C16_signature', 'C16_many', 'C16_many_fields_first',
                 'C16_assign', 'C16_factory_fresh', 'C16_readonly_untouched',
                 'C16_defaults_source_tie', 'C16_defaults_source_unique', 'C16_process_field_source_tie', 'C16_defaults_spec',
                 'C16_defaults_union_none', 'C16_defaults_union_first', 'C16_defaults_union_none_iff',
                 'C16_defaults_union_none_any_order', 'C16_defaults_literal_first', 'C16_defaults_generic_origin',
                 'C16_defaults_factory_iff_collection', 'C16_defaults_union_order_matters', 'C16_defaults_literal_order_matters'],
    'tables': ['PropWizDefaultsAlg'],
    'level_text': ('Theorems proved in Coq about an executable model of property_wizard.py + the part of dataclasses it relies on: '
                   'the whole style x default-kind x annotation-kind matrix by computation, and for ALL declaration lists with distinct '
                   'public names (any length, any types, any defaults) and all argument subsets: setter log, getter values and '
                   'constructor signature equal the per-declaration specification. The zero-value derivation '
                   '(_process_field, _default_from_annotation/_type/_generic_type/_typing_args) is TRANSLATED FROM THE CURRENT SOURCE TEXT '
                   'on every run (branch order, caught exceptions, callees) and proved equal to the model for ALL annotations of the grammar '
                   '(classes incl. collection subclasses and user classes with/without a no-argument constructor, Union/Optional and Literal in '
                   'any member order, generic collections, Annotated with Field extras, resolvable / unresolvable forward references); for '
                   'all of them the derived default is proved to be None iff NoneType is a Union member (any position), else the zero value '
                   'of the FIRST member / first Literal value / the origin class, a default_factory exactly for list/dict/set and their '
                   'subclasses, and order-sensitive where Python\'s == on typing objects is not. The model is re-validated against the '
                   'implementation on every run; the specification is also tested directly on the implementation.'),
    'level_note': ('Trusted: Coq kernel + vm_compute; the hand-written model of the class machinery (no inheritance in the Coq model - '
                   'chains of property_wizard classes are checked by the direct predicate only; dataclasses reduced to "class attribute = '
                   'default, missing argument passes it to the setter"); the primitives of model/PropWizObj.v (what get_args / get_origin / '
                   'is_generic / a no-argument call / isinstance answer on each kind of annotation object - the four derivation functions '
                   'themselves are translated from the source, not hand-written); the translator harness/tables/PropWizDefaultsAlg.py; the '
                   'correspondence harness. typing/dataclasses internals are exercised, not proved.'),
    'rule': ('matrix: every cell style(4) x default kind(14, incl. factories returning deque / user object / ever-new value) x annotation '
             'kind(~40) + the both-annotated variant (2 orders x 5 x 4 x kinds), one class each, 4 constructor calls + later '
             'assignment; random: classes of 1-6 declarations (field properties in the four styles, plain fields, read-only and '
             'ordinary properties), layouts blocks / fields-first / random interleaving, random argument subsets; exotic: shapes '
             'outside the property domain (model comparison only); probe: ~1000 (quick) / ~9000 (thorough) annotations of the whole '
             'grammar through _default_from_annotation in ONE interpreter (pairs that are == in Python with reordered members right '
             'after each other), implementation vs model vs translated source vs Coq specification vs Python reference; grammar: classes '
             'of 2-6 field properties with such annotations (reordered pairs in one class), first instance built without arguments and '
             'its collections mutated, later instances must receive empty ones; inheritance: chains of 2-3 property_wizard classes '
             '(direct predicate only). Non-trivial = class with >= 2 declarations or a default that is '
             'not the plain type zero; distinct = distinct (source text, calls).'),
    'trusted_base': ['model coq/model/PropWiz.v abstracts dataclasses to default/argument passing (validated by correspondence on '
                     'generated source text)',
                     'model coq/model/PropWizObj.v: answers of typing_compat / typing / isinstance / a no-argument call per kind of '
                     'annotation object (validated by the probe stream: every generated annotation goes through the real '
                     '_default_from_annotation and through the translated functions)',
                     'translator harness/tables/PropWizDefaultsAlg.py (fail-closed, pattern-directed; the pair (cls_annotations, field) is '
                     'represented by the object cls_annotations.get(field))'],
    'assumptions': ['the Coq model has no base classes; chains of property_wizard classes (each declaring the metaclass) are covered by the '
                    'direct predicate on the implementation only',
                    'field names are not attributes of object/type and do not shadow names used by later annotations',
                    'plain class-level defaults are immutable values; mutable defaults come from default_factory'],
}


# --------------------------------------------------------------------------- types
CONC_SRC = {'int': 'int', 'str': 'str', 'float': 'float', 'bool': 'bool', 'bytes': 'bytes', 'tuple': 'tuple',
            'frozenset': 'frozenset', 'list': 'list', 'dict': 'dict', 'set': 'set',
            'datetime': 'datetime.datetime', 'any': 'Any', 'orddict': 'collections.OrderedDict', 'defdict': 'collections.defaultdict',
            'counter': 'collections.Counter', 'mylist': 'MyList', 'myset': 'MySet', 'userobj': 'Gear', 'deque': 'collections.deque'}
CONC_COQ = {'int': 'CInt', 'str': 'CStr', 'float': 'CFloat', 'bool': 'CBool', 'bytes': 'CBytes', 'tuple': 'CTuple',
            'frozenset': 'CFrozenset', 'list': 'CList', 'dict': 'CDict', 'set': 'CSet', 'datetime': 'CNoZero', 'any': 'CNoZero',
            'orddict': 'COrdDict', 'defdict': 'CDefDict', 'counter': 'CCounter', 'mylist': 'CMyList', 'myset': 'CMySet',
            'userobj': 'CUserObj', 'deque': 'CDeque'}
GENS = [('List[int]', 'list'), ('list[str]', 'list'), ('Dict[str, int]', 'dict'), ('dict[str, int]', 'dict'),
        ('Set[bool]', 'set'), ('set[int]', 'set'), ('Tuple[int, ...]', 'tuple'), ('tuple[int, str]', 'tuple'),
        ('FrozenSet[int]', 'frozenset'), ('Sequence[int]', 'abstract'), ('Mapping[str, int]', 'abstract'),
        ('Iterable[str]', 'abstract'), ("List['Undefined_zz']", 'list'), ('Type[int]', 'abstract'),
        ('Callable[[], int]', 'abstract'),
        # typing aliases of dict SUBCLASSES (these aliases CAN be instantiated)
        ('OrderedDict[str, int]', 'orddict'), ('DefaultDict[str, int]', 'defdict'), ('Counter[str]', 'counter'),
        ('Deque[int]', 'deque')]
INST_ALIASES = {'OrderedDict[str, int]', 'DefaultDict[str, int]', 'Counter[str]', 'Deque[int]'}


def gen_inst(text):
    """can the alias itself be called? list[int]() and typing.OrderedDict[str, int]() work, typing.List[int]() raises"""
    return text[0].islower() or text in INST_ALIASES


def v_src(vj):
    return {'none': 'None'}.get(vj[0]) or repr(vj[1])


def v_coq(vj, ids=None):
    k = vj[0]
    if k == 'none':
        return 'VNone'
    if k == 'int':
        return '(VInt (%d)%%Z)' % vj[1]
    if k == 'str':
        return '(VStr %s)' % coq_str(vj[1])
    if k == 'bool':
        return '(VBool %s)' % ('true' if vj[1] else 'false')
    if k == 'new':     # an argument object with identity: the harness picks its id
        return '(VNew (FacUser %d%%N) %d%%N)' % (vj[1], ids[id(vj)] if ids is not None else 900000 + vj[1])
    raise ValueError(vj)


def fac_src(fj):
    # user factories are built by `fac(tag)` (module header): it records every call in CALLS and returns, by tag
    # range, a list / deque / user object / ever-new string / tuple of lists / frozenset / bytearray
    return fj[1] if fj[0] == 'conc' else 'fac(%d)' % fj[1]


def fac_coq(fj):
    return '(FacConc %s)' % CONC_COQ[fj[1]] if fj[0] == 'conc' else '(FacUser %d%%N)' % fj[1]


def fd_src(fd):
    flag = ', init=False' if fd.get('init_false') else ''
    if 'default' in fd:
        return 'field(default=%s%s)' % (v_src(fd['default']), flag)
    if 'factory' in fd:
        return 'field(default_factory=%s%s)' % (fac_src(fd['factory']), flag)
    return 'field(%s)' % flag[2:]


def fd_coq(fd):
    return '{| fd_default := %s; fd_factory := %s |}' % (
        '(Some %s)' % v_coq(fd['default']) if 'default' in fd else 'None',
        '(Some %s)' % fac_coq(fd['factory']) if 'factory' in fd else 'None')


def ty_src(t):
    k = t[0]
    if k == 'conc':
        return CONC_SRC[t[1]]
    if k == 'nonetype':
        return 'None'
    if k == 'union':
        args = [ty_src(a) for a in t[1]]
        syn = t[2]
        if syn == 'Optional' and len(t[1]) == 2 and t[1][1][0] == 'nonetype':
            return 'Optional[%s]' % args[0]
        if syn == 'bar' and all(a[0] in ('conc', 'nonetype', 'gen') for a in t[1]) and t[1][0][0] != 'nonetype':
            return ' | '.join(args)
        return 'Union[%s]' % ', '.join(args)
    if k == 'lit':
        return 'Literal[%s]' % ', '.join(v_src(v) for v in t[1])
    if k == 'gen':
        return t[1]
    if k == 'annot':
        ex = [fd_src(e[1]) if e[0] == 'field' else e[1] for e in t[2]]
        return 'Annotated[%s, %s]' % (ty_src(t[1]), ', '.join(ex))
    if k == 'ref':
        return repr(t[1])
    raise ValueError(t)


def ty_coq(t):
    k = t[0]
    if k == 'conc':
        return '(TConc %s)' % CONC_COQ[t[1]]
    if k == 'nonetype':
        return 'TNoneType'
    if k == 'union':
        return '(TUnion %s)' % coq_list([ty_coq(a) for a in t[1]])
    if k == 'lit':
        return '(TLiteral %s)' % coq_list([v_coq(v) for v in t[1]])
    if k == 'gen':
        o = t[2]
        return '(TGen %s %s)' % ('GAbstract' if o == 'abstract' else 'GClassVar' if o == 'classvar' else '(GConc %s)' % CONC_COQ[o],
                                  'true' if gen_inst(t[1]) else 'false')
    if k == 'annot':
        return '(TAnnot %s %s)' % (ty_coq(t[1]), coq_list(['(EField %s)' % fd_coq(e[1]) if e[0] == 'field' else 'EOther' for e in t[2]]))
    if k == 'ref':
        return '(TRef %s)' % ('None' if t[2] is None else '(Some %s)' % ty_coq(t[2]))
    raise ValueError(t)


# ---- independent reference: the default implied by an annotation (property text + docs) ----
ZERO = {'int': 'I0', 'str': 'S', 'float': 'Zfloat', 'bool': 'B0', 'bytes': 'Zbytes', 'tuple': 'Ztuple',
        'frozenset': 'Zfrozenset', 'list': ('fresh', 'list'), 'dict': ('fresh', 'dict'), 'set': ('fresh', 'set'),
        'datetime': 'N', 'any': 'N', 'abstract': 'N', 'classvar': 'N',
        'orddict': ('fresh', 'orddict'), 'defdict': ('fresh', 'defdict'), 'counter': ('fresh', 'counter'), 'mylist': ('fresh', 'mylist'),
        # a user subclass of set: fresh per instance; a user class with a no-argument constructor / deque: "the type's zero
        # value" (property text) - the one instance the no-argument call returns
        'myset': ('fresh', 'myset'), 'userobj': 'Zuserobj', 'deque': 'Zdeque'}


def v_tok(vj):
    k = vj[0]
    return {'none': lambda: 'N', 'int': lambda: 'I%d' % vj[1], 'str': lambda: 'S' + vj[1].encode().hex(),
            'bool': lambda: 'B%d' % int(vj[1])}[k]()


def fd_expect(fd):
    if 'default' in fd:
        return v_tok(fd['default'])
    if 'factory' in fd:
        f = fd['factory']
        if f[0] == 'user':
            return ('fresh', 'user%d' % f[1])
        return ZERO[f[1]]
    return None


def zero_of_arg(t):
    """what calling a Union member without arguments yields (None if it cannot be called)"""
    if t[0] == 'conc':
        return ZERO[t[1]]
    if t[0] == 'gen':       # list[int]() works; the typing aliases (List[int], Dict[...]) cannot be instantiated
        return ZERO[t[2]] if gen_inst(t[1]) else 'N'
    if t[0] == 'annot':
        return zero_of_arg(t[1])
    return 'N'


def implied(t):
    k = t[0]
    if k == 'conc':
        return ZERO[t[1]]
    if k == 'nonetype':
        return 'N'
    if k == 'union':
        if any(a[0] == 'nonetype' for a in t[1]):
            return 'N'
        return zero_of_arg(t[1][0])
    if k == 'lit':
        return v_tok(t[1][0])
    if k == 'gen':
        return ZERO[t[2]]
    if k == 'annot':
        for e in t[2]:
            if e[0] == 'field':
                x = fd_expect(e[1])
                return x if x is not None else implied(t[1])
        return implied(t[1])
    if k == 'ref':
        return 'N' if t[2] is None else implied(t[2])
    raise ValueError(t)


def declared_default(d):
    """Reference: the default a field-property declaration declares (property statement)."""
    st, t, r = d['style'], d['ty'], d.get('rhs')
    if st in ('PubPub', 'UnderUnder') or r is None:      # same name: only the annotation survives
        return implied(t)                                # (PubBoth: `t` is the PUBLIC annotation)
    if r[0] == 'val':
        return v_tok(r[1])
    x = fd_expect(r[1])
    return x if x is not None else implied(t)


def in_f25_shape(d):
    """shape of the repaired finding F25 (underscored property + public field + plain value + annotation implying
    a default_factory): only used to label the input distribution - nothing is suppressed"""
    return (d['kind'] == 'prop' and d['style'] == 'UnderPub' and d.get('rhs') is not None and d['rhs'][0] == 'val'
            and isinstance(implied(d['ty']), tuple))


# --------------------------------------------------------------------------- class bodies
def under(x):
    return '_' + x


def rhs_src(r):
    return v_src(r[1]) if r[0] == 'val' else fd_src(r[1])


def rhs_coq(r):
    if r is None:
        return 'None'
    return '(Some (RVal %s))' % v_coq(r[1]) if r[0] == 'val' else '(Some (RField %s))' % fd_coq(r[1])


def field_stmts(d):
    k = d['kind']
    if k == 'prop' and d['style'] == 'PubBoth':
        # the docs' "make your IDE happier" variant: the public field carries the default, an extra underscored line
        # (bare / field(init=False) / carrying the default) is also annotated
        pub, und = ('ann', d['name'], d['ty'], None), ('ann', under(d['name']), d['uty'], d.get('rhs'))
        return [pub, und] if d.get('pub_first', True) else [und, pub]
    if k == 'prop':
        n = under(d['name']) if d['style'] in ('PubUnder', 'UnderUnder') else d['name']
        return [('ann', n, d['ty'], d.get('rhs'))]
    if k == 'plain':
        return [('ann', d['name'], d['ty'], d.get('rhs'))]
    return []


def prop_stmts(d):
    k = d['kind']
    if k == 'prop':
        n = d['name'] if d['style'] in ('PubUnder', 'PubPub', 'PubBoth') else under(d['name'])
        return [('prop', n, True)]
    if k == 'ro':
        return [('prop', d['name'], False)]
    if k == 'ordinary':
        return [('prop', d['name'], True)]
    return []


def layout(decls, how, r):
    if how == 'blocks':
        return [s for d in decls for s in field_stmts(d) + prop_stmts(d)]
    if how == 'fields_first':
        return [s for d in decls for s in field_stmts(d)] + [s for d in decls for s in prop_stmts(d)]
    # random interleaving: fields in declaration order, each property somewhere after its own field
    body = [s for d in decls for s in field_stmts(d)]
    for d in r.sample(decls, len(decls)):
        ps = prop_stmts(d)
        if not ps:
            continue
        fs = field_stmts(d)
        lo = max(body.index(x) for x in fs) + 1 if fs else 0
        pos = r.randint(lo, len(body))
        body[pos:pos] = ps
    return body


def stmt_src(s):
    if s[0] == 'ann':
        return ['    %s: %s%s' % (s[1], ty_src(s[2]), '' if s[3] is None else ' = ' + rhs_src(s[3]))]
    if s[0] == 'assign':
        return ['    %s = %s' % (s[1], rhs_src(s[2]))]
    n, pub = s[1], s[1].lstrip('_')
    out = ['    @property', '    def %s(self):' % n, '        return self._%s' % pub]
    if s[2]:
        out += ['    @%s.setter' % n, '    def %s(self, value):' % n,
                '        LOG.append((%r, value))' % pub, '        self._%s = value' % pub]
    out.append('    ORIG[%r] = %s' % (n, n))
    return out


def stmt_coq(s):
    if s[0] == 'ann':
        return '(SAnn %s %s %s)' % (coq_str(s[1]), ty_coq(s[2]), rhs_coq(s[3]))
    if s[0] == 'assign':
        return '(SAssign %s %s)' % (coq_str(s[1]), rhs_coq(s[2])[6:-1])
    return '(SPropDef %s %s)' % (coq_str(s[1]), 'true' if s[2] else 'false')


HEADER = '''import datetime
from dataclasses import dataclass, field
from typing import *
from dataclass_wizard import property_wizard
import collections, itertools


class MyList(list):
    pass


class MySet(set):
    pass


class Gear:
    def __init__(self):
        self.parts = []


LOG = []
ORIG = {}
CALLS = []
_CTR = itertools.count()


class Axle:
    def __init__(self, tag):
        self.tag = tag
        self.parts = []


def fac(tag):
    def make():
        CALLS.append(tag)
        if tag < 20:
            return [tag]
        if tag < 30:
            return collections.deque([tag])
        if tag < 40:
            return Axle(tag)
        if tag < 50:
            return 'ctr%d-%d' % (tag, next(_CTR))
        if tag < 60:
            return ([tag], [])
        if tag < 70:
            return frozenset([tag])
        return bytearray([tag])
    return make


@dataclass
class K(metaclass=property_wizard):
'''


def class_src(body):
    lines = [l for s in body for l in stmt_src(s)]
    return HEADER + '\n'.join(lines or ['    pass']) + '\n'


# --------------------------------------------------------------------------- generators
_BAD = set(dir(builtins)) | set(dir(typing)) | set(keyword.kwlist) | set(dir(type)) | {
    'field', 'dataclass', 'datetime', 'property_wizard', 'self', 'value', 'match', 'case', 'type', 'K', 'LOG', 'ORIG',
    'fac', 'collections', 'itertools', 'MyList', 'MySet', 'Gear', 'Axle', 'CALLS'}


def gen_name(r, used):
    while True:
        n = ''.join(r.choice('abcdefghijklmnopqrstuvwxyz') for _ in range(r.choice([2, 3, 4, 5])))
        if r.random() < 0.3:
            n += '_' + r.choice('abxyz019') + r.choice(['', '', 'k', '7'])
        if n not in _BAD and n not in used:
            used.add(n)
            return n


def gen_value(r):
    return r.choice([['none'], ['int', r.choice([0, 1, 4, 7, -3, 250])], ['str', r.choice(['', 'a', 'wheel', '42'])],
                     ['bool', r.random() < 0.5]])


def gen_fd(r):
    m = r.random()
    if m < 0.4:
        return {'default': gen_value(r)}
    if m < 0.85:
        return {'factory': r.choice([['conc', 'list'], ['conc', 'dict'], ['conc', 'set'], ['conc', 'str'], ['conc', 'int'],
                                     ['conc', 'tuple'], ['user', r.randint(1, 9)], ['user', r.choice([21, 25, 31, 36, 41, 47, 52, 63, 74])],
                                     ['user', r.choice([22, 33, 44, 55, 66, 77])]])}
    return {}


BASIC = [['conc', c] for c in ['int', 'str', 'float', 'bool', 'bytes', 'tuple', 'frozenset', 'list', 'dict', 'set', 'datetime', 'any',
                               'orddict', 'defdict', 'counter', 'mylist', 'myset', 'userobj', 'deque']]


def gen_lit(r):
    pool = [['int', 1], ['str', '1'], ['int', 0], ['str', 'r+'], ['bool', True], ['none'], ['str', '']]
    return ['lit', r.sample(pool, r.choice([1, 2, 3, 4]))]


def gen_member(r, depth):
    m = r.random()
    if m < 0.45:
        return r.choice(BASIC)
    if m < 0.7:
        g = r.choice(GENS)
        return ['gen', g[0], g[1]]
    if m < 0.8:
        return gen_lit(r)
    if m < 0.9:
        return ['ref', 'Undefined_%d' % r.randint(0, 9), None]
    if depth < 2:
        return ['annot', gen_member(r, depth + 1), [['other', repr(r.choice(['meta', 'x']))]]]
    return r.choice(BASIC)


def gen_union(r, depth):
    n = r.choice([2, 2, 3])
    args, seen = [], set()
    while len(args) < n:
        a = gen_member(r, depth)
        key = json.dumps(a)
        if key in seen or (a[0] == 'annot' and json.dumps(a[1]) in seen):
            continue
        seen.add(key)
        args.append(a)
    if r.random() < 0.4:
        args.insert(r.randint(1, len(args)), ['nonetype'])
    # typing collapses Union[int, bool]? no - but Union[X] with one member collapses; keep >= 2
    return ['union', args, r.choice(['Union', 'Optional', 'bar'])]


def gen_ty(r, depth=0, allow_field=True):
    m = r.random()
    if m < 0.25:
        return r.choice(BASIC)
    if m < 0.40:
        g = r.choice(GENS)
        return ['gen', g[0], g[1]]
    if m < 0.58:
        return gen_union(r, depth)
    if m < 0.66:
        return gen_lit(r)
    if m < 0.72:
        return ['ref', 'Undefined_%d' % r.randint(0, 9), None]
    if m < 0.80 and depth == 0:
        t = gen_ty(r, 1, allow_field)
        if 'Undefined' not in ty_src(t):
            return ['ref', ty_src(t), t]
        return t
    if depth < 2:
        extras = []
        for _ in range(r.choice([1, 1, 2, 3])):
            if allow_field and r.random() < 0.55:
                extras.append(['field', gen_fd(r)])
            else:
                extras.append(['other', r.choice(["'meta'", '123', "'Hello world!'"])])
        inner = gen_ty(r, depth + 1, allow_field)
        if inner[0] == 'annot':       # typing flattens nested Annotated; keep the model's view flat too
            return ['annot', inner[1], inner[2] + extras]
        if inner[0] == 'ref' and inner[2] is not None:
            inner = inner[2]
        return ['annot', inner, extras]
    return r.choice(BASIC)


def gen_rhs(r):
    m = r.random()
    if m < 0.25:
        return None
    if m < 0.6:
        return ['val', gen_value(r)]
    return ['fd', gen_fd(r)]


def gen_decls(r, n, exotic=False):
    used, out = set(), []
    for _ in range(n):
        m = r.random()
        name = gen_name(r, used)
        used.add('_' + name)
        if m < 0.62:
            st, rhs = r.choice(['PubUnder', 'PubPub', 'UnderPub', 'UnderUnder', 'PubBoth']), gen_rhs(r)
            if st == 'PubBoth':
                if rhs is not None and rhs[0] == 'fd' and not exotic:
                    # (exotic stream: the property may be removed / read-only, the line then stays a real dataclass field
                    #  and init=False - not modelled - would matter)
                    rhs = ['fd', dict(rhs[1], init_false=True)]
                declares = rhs is not None and (rhs[0] == 'val' or 'default' in rhs[1] or 'factory' in rhs[1])
                out.append({'kind': 'prop', 'style': st, 'name': name, 'ty': gen_ty(r, allow_field=exotic or not declares), 'rhs': rhs,
                            'uty': gen_ty(r, allow_field=False), 'pub_first': r.random() < 0.7})
                continue
            # one declared default per field property: where the class-level value survives (different names) and
            # declares a default, the annotation carries no second one (two contradictory sources: exotic stream)
            two = (not exotic) and st in ('PubUnder', 'UnderPub') and rhs is not None and (rhs[0] == 'val' or 'default' in rhs[1] or 'factory' in rhs[1])
            out.append({'kind': 'prop', 'style': st, 'name': name, 'ty': gen_ty(r, allow_field=not two), 'rhs': rhs})
        elif m < 0.82:
            out.append({'kind': 'plain', 'name': name, 'ty': gen_ty(r, allow_field=False), 'rhs': gen_rhs(r)})
        elif m < 0.91:
            out.append({'kind': 'ro', 'name': name})
        else:
            out.append({'kind': 'ordinary', 'name': name})
    if not exotic:
        # dataclasses: required parameters first (field properties always have a default)
        def required(d):
            return is_required(d)
        req = [d for d in out if required(d)]
        rest = [d for d in out if not required(d)]
        first_def = next((i for i, d in enumerate(rest) if d['kind'] in ('prop', 'plain')), len(rest))
        out = rest[:first_def] + req + rest[first_def:]
    return out


def fields_of(decls):
    return [d for d in decls if d['kind'] in ('prop', 'plain')]


def is_required(d):
    return d['kind'] == 'plain' and (d['rhs'] is None or (d['rhs'][0] == 'fd' and not d['rhs'][1]))


def gen_arg(r):
    if r.random() < 0.25:
        return ['new', r.randint(20, 60)]
    return gen_value(r)


def gen_calls(r, decls, n):
    fs = fields_of(decls)
    calls = []
    for i in range(n):
        p = [0.0, 1.0, 0.5, 0.3][i % 4]
        args = {d['name']: gen_arg(r) for d in fs if is_required(d) or r.random() < p}
        assign = []
        for d in decls:
            if d['kind'] in ('prop', 'ordinary') and r.random() < 0.5:
                assign.append([d['name'], gen_arg(r)])
        c = {'args': args, 'assign': assign}
        if i % 4 == 1 and r.random() < 0.5:      # all arguments, positionally, in declaration order
            c['positional'] = [d['name'] for d in fs]
        calls.append(c)
    return calls


# --------------------------------------------------------------------------- reference text
class Numbering:
    """object identity as index of first appearance (same convention as the runner)"""
    def __init__(self):
        self.n = 0
        self.known = {}

    def fresh(self):
        self.n += 1
        return self.n - 1

    def arg(self, vj):
        k = id(vj)
        if k not in self.known:
            self.known[k] = self.fresh()
        return self.known[k]


def reference_text(decls, calls, queries, getters):
    fs = fields_of(decls)
    sig = []
    for d in fs:
        if d['kind'] == 'prop':
            sig.append('%s:P' % d['name'])
        else:
            r = d['rhs']
            if is_required(d):
                k = 'R'
            elif r[0] == 'val':
                k = 'V' + v_tok(r[1])
            else:
                k = 'V' + v_tok(r[1]['default']) if 'default' in r[1] else 'F'
            sig.append('%s:%s' % (d['name'], k))
    out = ['sig=' + ','.join(sig)]
    st = []
    byname = {}
    for d in decls:
        byname[d['name']] = d
    for q in queries:
        d = byname.get(q.lstrip('_'))
        if d is None:
            s = 'noprop'
        elif d['kind'] in ('ro', 'ordinary'):
            s = 'same' if q == d['name'] else 'noprop'
        elif d['kind'] == 'prop':
            s = 'wrapped' if q == d['name'] else 'noprop'      # the property ends up under the public name only
        else:
            s = 'noprop'
        st.append('%s=%s' % (q, s))
    out.append('props=' + ','.join(st))
    num = Numbering()
    for c in calls:
        store = {}

        def tok(x):
            if isinstance(x, tuple):           # ('obj', kind, number)
                return 'O%s#%d' % (x[1], x[2])
            return x

        def arg_tok(vj):
            if vj[0] == 'new':
                return ('obj', 'user%d' % vj[1], None, vj)
            return v_tok(vj)
        log = []
        for d in fs:
            if d['name'] in c['args']:
                v = arg_tok(c['args'][d['name']])
            elif d['kind'] == 'prop':
                x = declared_default(d)
                v = ('newobj', x[1]) if isinstance(x, tuple) else x
            else:
                r = d['rhs']
                if r[0] == 'val':
                    v = v_tok(r[1])
                else:
                    x = fd_expect(r[1])
                    v = ('newobj', x[1]) if isinstance(x, tuple) else x
            store[d['name']] = v
            if d['kind'] == 'prop':
                log.append((d['name'], v))

        # numbering happens in output order: log entries first, then getters
        resolved = {}

        def resolve(v):
            if isinstance(v, tuple) and v[0] == 'newobj':
                key = id(v)
                if key not in resolved:
                    resolved[key] = ('obj', v[1], num.fresh())
                return resolved[key]
            if isinstance(v, tuple) and v[0] == 'obj' and v[2] is None:
                return ('obj', v[1], num.arg(v[3]))
            return v

        def snap(log):
            lg = ','.join('%s=%s' % (n, tok(resolve(v))) for n, v in log)
            gs = []
            for g in getters:
                if g in store:
                    gs.append('%s=%s' % (g, tok(resolve(store[g]))))
                else:
                    gs.append('%s=!AttributeError' % g)
            return 'log=[%s] get=[%s]' % (lg, ','.join(gs))
        # plain-field factory products that are never logged still exist; they get numbers when first shown (getter)
        # user factories are called once per omitted argument, in field order (CALLS)
        facs = [v[1][4:] for v in (store[d['name']] for d in fs) if isinstance(v, tuple) and v[0] == 'newobj' and v[1].startswith('user')]
        line = 'call=ok ' + snap(log) + ' fac=[%s]' % ','.join(facs)
        for n, vj in c.get('assign', []):
            d = byname[n]
            v = arg_tok(vj)
            store[n] = v
            line += ' set:' + snap([(n, v)])
        out.append(line)
    return '\n'.join(out)


def renumber(text):
    """model ids -> index of first appearance"""
    import re
    ids = {}

    def sub(m):
        return '#%d' % ids.setdefault(m.group(1), len(ids))
    return re.sub(r'#(\d+)', sub, text)


# --------------------------------------------------------------------------- model side
PRELUDE = r'''
Fixpoint digits (fuel : nat) (n : N) (acc : pstr) : pstr :=
  match fuel with
  | O => acc
  | Datatypes.S f => let acc' := ch (48 + N.modulo n 10) :: acc in
                     if (n <? 10)%N then acc' else digits f (N.div n 10) acc'
  end.
Definition show_N (n : N) : pstr := digits 30 n [].
Definition show_Z (z : Z) : pstr := if (z <? 0)%Z then S "-" ++ show_N (Z.to_N (- z)) else show_N (Z.to_N z).
Definition conc_name (c : conc) : pstr :=
  match c with CInt => S "int" | CStr => S "str" | CFloat => S "float" | CBool => S "bool" | CBytes => S "bytes"
  | CTuple => S "tuple" | CFrozenset => S "frozenset" | CList => S "list" | CDict => S "dict" | CSet => S "set"
  | CNoZero => S "nozero" | COrdDict => S "orddict" | CDefDict => S "defdict" | CCounter => S "counter"
  | CMyList => S "mylist" | CMySet => S "myset" | CUserObj => S "userobj" | CDeque => S "deque" end.
Definition show_fac (f : factory) : pstr :=
  match f with FacConc c => conc_name c | FacUser t => S "user" ++ show_N t end.
Definition show_value (v : value) : pstr :=
  match v with
  | VNone => S "N" | VInt z => S "I" ++ show_Z z | VStr s => S "S" ++ hex s
  | VBool b => if b then S "B1" else S "B0" | VZero c => S "Z" ++ conc_name c
  | VNew f i => S "O" ++ show_fac f ++ S "#" ++ show_N i | VPropObj => S "P"
  end.
Definition show_err (e : cerr) : pstr :=
  match e with EReadOnly _ => S "AttributeError" | _ => S "TypeError" end.
Definition show_sig (fs : list (pstr * fdefault)) : pstr :=
  join (S ",") (map (fun e => fst e ++ S ":" ++
     match snd e with DReq => S "R" | DVal v => S "V" ++ show_value v | DFac _ => S "F" | DPropObj => S "P" end) fs).
Definition show_status (c : cls) (q : pstr) : pstr :=
  q ++ S "=" ++ match dget q (attrs c) with
                | Some (CProp _ None) => S "same"
                | Some (CProp _ (Some _)) => S "wrapped"
                | _ => S "noprop" end.
Definition show_snap (c : cls) (lg : list (pstr * value)) (i : dict value) (getters : list pstr) : pstr :=
  S "log=[" ++ join (S ",") (map (fun e => fst e ++ S "=" ++ show_value (snd e)) lg) ++ S "] get=[" ++
  join (S ",") (map (fun g => g ++ S "=" ++
     match get_attr (attrs c) i g with Some v => show_value v | None => S "!AttributeError" end) getters) ++ S "]".
Fixpoint show_assigns (c : cls) (getters : list pstr) (r : run) (asg : list (pstr * value)) : pstr * N :=
  match asg with
  | [] => ([], nxt r)
  | (n, v) :: rest =>
      match set_attr (attrs c) {| log := []; inst := inst r; nxt := nxt r |} n v with
      | Ok r' => let '(s, nx) := show_assigns c getters r' rest in
                 (S " set:" ++ show_snap c (log r') (inst r') getters ++ s, nx)
      | Err e => let '(s, nx) := show_assigns c getters r rest in (S " set:err:" ++ show_err e ++ s, nx)
      end
  end.
Fixpoint show_calls (c : cls) (getters : list pstr) (calls : list (dict value * list (pstr * value))) (next : N)
  : list pstr :=
  match calls with
  | [] => []
  | (args, asg) :: rest =>
      match construct c args next with
      | Err e => (S "call=err:" ++ show_err e) :: show_calls c getters rest next
      | Ok r => let '(s, nx) := show_assigns c getters r asg in
                (S "call=ok " ++ show_snap c (log r) (inst r) getters ++ S " fac=[" ++
                 join (S ",") (flat_map (fun e => match snd e with
                                                  | VNew (FacUser t) i => if (next <=? i)%N && (i <? nxt r)%N then [show_N t] else []
                                                  | _ => [] end) (inst r)) ++ S "]" ++ s)
                :: show_calls c getters rest nx
      end
  end.
Definition show_class (b : list stmt) (queries : list pstr) (getters : list pstr)
                      (calls : list (dict value * list (pstr * value))) : pstr :=
  let c := make_class b in
  match dataclass_fields c with
  | Err e => S "classerr:" ++ show_err e
  | Ok fs => join [c_nl] ([S "sig=" ++ show_sig fs; S "props=" ++ join (S ",") (map (show_status c) queries)]
                          ++ show_calls c getters calls 0)
  end.
'''


def model_expr(case):
    ids = {}
    k = [0]

    def reg(vj):
        if vj[0] == 'new' and id(vj) not in ids:
            ids[id(vj)] = 900000 + k[0]
            k[0] += 1
    for c in case['calls']:
        for v in c['args'].values():
            reg(v)
        for _, v in c.get('assign', []):
            reg(v)
    fs = [f['name'] for f in fields_of(case['decls'])] if 'decls' in case else case['order']
    calls = []
    for c in case['calls']:
        names = [n for n in fs if n in c['args']] + [n for n in c['args'] if n not in fs]
        args = coq_list(['(%s, %s)' % (coq_str(n), v_coq(c['args'][n], ids)) for n in names])
        asg = coq_list(['(%s, %s)' % (coq_str(n), v_coq(v, ids)) for n, v in c.get('assign', [])])
        calls.append('(%s, %s)' % (args, asg))
    getters = coq_list([coq_str(g) for g in case['getters']])
    return 'show_class %s %s %s %s' % (coq_list([stmt_coq(s) for s in case['body']]),
                                        coq_list([coq_str(q) for q in case['queries']]), getters, coq_list(calls))


# --------------------------------------------------------------------------- cases
def make_case(decls, body, calls, tag, domain=True):
    queries = []
    for d in decls:
        queries += [d['name'], under(d['name'])]
    getters = [d['name'] for d in decls]
    return {'tag': tag, 'decls': decls, 'body': body, 'calls': calls, 'queries': queries, 'getters': getters, 'src': class_src(body), 'domain': domain}


MATRIX_ANNS = (BASIC + [['gen', g[0], g[1]] for g in GENS] + [
    ['union', [['conc', 'int'], ['nonetype']], 'Optional'], ['union', [['conc', 'int'], ['nonetype']], 'bar'],
    ['union', [['conc', 'int'], ['conc', 'str']], 'Union'], ['union', [['conc', 'str'], ['conc', 'int']], 'bar'],
    ['union', [['conc', 'int'], ['conc', 'str'], ['nonetype']], 'Union'],
    ['union', [['gen', 'List[int]', 'list'], ['conc', 'str']], 'Union'],
    ['union', [['gen', 'list[int]', 'list'], ['conc', 'str']], 'Union'],
    ['union', [['gen', 'DefaultDict[str, int]', 'defdict'], ['conc', 'str']], 'Union'],
    ['union', [['conc', 'mylist'], ['conc', 'int']], 'Union'],
    ['union', [['conc', 'datetime'], ['conc', 'int']], 'Union'],
    ['union', [['ref', 'Undefined_1', None], ['conc', 'int']], 'Union'],
    ['union', [['lit', [['int', 1]]], ['conc', 'str']], 'Union'],
    ['lit', [['int', 1], ['str', '1'], ['int', 0], ['str', '0']]], ['lit', [['str', 'r'], ['str', 'r+']]], ['lit', [['none'], ['int', 3]]],
    ['ref', 'Undefined_0', None], ['ref', 'int', ['conc', 'int']], ['ref', 'Optional[int]', ['union', [['conc', 'int'], ['nonetype']], 'Optional']],
    ['ref', 'List[int]', ['gen', 'List[int]', 'list']],
    ['annot', ['conc', 'int'], [['other', "'Hello world!'"], ['other', '123']]],
    ['annot', ['union', [['conc', 'int'], ['conc', 'str']], 'Union'], [['other', "'m'"]]],
])
MATRIX_DK = ['none', 'value', 'value_none', 'field_default', 'field_factory_user', 'field_factory_list', 'field_empty',
             'field_factory_deque', 'field_factory_obj', 'field_factory_counter', 'ann_factory_obj',
             'ann_default', 'ann_factory', 'ann_empty']


def matrix_cases():
    out = []
    for st in ['PubUnder', 'PubPub', 'UnderPub', 'UnderUnder']:
        for dk in MATRIX_DK:
            for ai, ann in enumerate(MATRIX_ANNS):
                t, rhs = ann, None
                if dk in ('field_factory_deque', 'field_factory_obj', 'field_factory_counter', 'ann_factory_obj') and ai % 6:
                    continue        # the factory zoo does not depend on the annotation: every sixth kind
                if dk == 'value':
                    rhs = ['val', ['int', 7]]
                elif dk == 'value_none':
                    rhs = ['val', ['none']]
                elif dk == 'field_default':
                    rhs = ['fd', {'default': ['int', 7]}]
                elif dk == 'field_factory_user':
                    rhs = ['fd', {'factory': ['user', 1]}]
                elif dk == 'field_factory_deque':
                    rhs = ['fd', {'factory': ['user', 21]}]
                elif dk == 'field_factory_obj':
                    rhs = ['fd', {'factory': ['user', 31]}]
                elif dk == 'field_factory_counter':
                    rhs = ['fd', {'factory': ['user', 41]}]
                elif dk == 'field_factory_list':
                    rhs = ['fd', {'factory': ['conc', 'list']}]
                elif dk == 'field_empty':
                    rhs = ['fd', {}]
                elif dk.startswith('ann_'):
                    if ann[0] == 'ref' or ann[0] == 'annot':
                        continue
                    fd = {'ann_default': {'default': ['int', 9]}, 'ann_factory': {'factory': ['user', 2]}, 'ann_empty': {},
                          'ann_factory_obj': {'factory': ['user', 32]}}[dk]
                    t = ['annot', ann, [['other', "'doc'"], ['field', fd]]]
                d = {'kind': 'prop', 'style': st, 'name': 'wheels', 'ty': t, 'rhs': rhs}
                calls = [{'args': {}, 'assign': [['wheels', ['int', 123]]]}, {'args': {'wheels': ['str', '6']}, 'assign': []},
                         {'args': {}, 'assign': []}, {'args': {'wheels': ['new', 33]}, 'assign': [['wheels', ['new', 34]]],
                                                      'positional': ['wheels']}]
                out.append(make_case([d], layout([d], 'blocks', None), calls, 'matrix/%s/%s' % (st, dk)))
    # the "both annotated" variant: public field + `_wheels: int [= field(init=False) | field(default=7, init=False) | 7 | factory]`
    for pub_first in (True, False):
        for u in ('bare', 'field_init_false', 'field_default', 'value', 'field_factory_obj'):
            for dk in ('none', 'ann_default', 'ann_factory', 'ann_empty'):
                if u in ('field_default', 'value', 'field_factory_obj') and dk != 'none':
                    continue        # one declared default
                for ai, ann in enumerate(MATRIX_ANNS):
                    if not pub_first and ai % 3:
                        continue
                    t = ann
                    if dk != 'none':
                        if ann[0] in ('ref', 'annot'):
                            continue
                        fd = {'ann_default': {'default': ['int', 9]}, 'ann_factory': {'factory': ['user', 2]}, 'ann_empty': {}}[dk]
                        t = ['annot', ann, [['other', "'doc'"], ['field', fd]]]
                    rhs = {'bare': None, 'field_init_false': ['fd', {'init_false': True}],
                           'field_default': ['fd', {'default': ['int', 7], 'init_false': True}], 'value': ['val', ['int', 7]],
                           'field_factory_obj': ['fd', {'factory': ['user', 33], 'init_false': True}]}[u]
                    d = {'kind': 'prop', 'style': 'PubBoth', 'name': 'wheels', 'ty': t, 'uty': ['conc', 'int'], 'rhs': rhs,
                         'pub_first': pub_first}
                    calls = [{'args': {}, 'assign': [['wheels', ['int', 123]]]}, {'args': {'wheels': ['str', '6']}, 'assign': []},
                             {'args': {}, 'assign': []}]
                    out.append(make_case([d], layout([d], 'blocks', None), calls, 'matrix/PubBoth/%s/%s' % (u, dk)))
    return out


def random_cases(ctx):
    r = ctx.sub_rng('random')
    out = []
    n = 260 if ctx.tier == 'quick' else 3000
    for i in range(n):
        decls = gen_decls(r, r.choice([1, 2, 2, 3, 3, 4, 5, 6]))
        how = r.choice(['blocks', 'fields_first', 'mixed'])
        out.append(make_case(decls, layout(decls, how, r), gen_calls(r, decls, 4), 'random/' + how))
    return out


def exotic_cases(ctx):
    """shapes outside the property's domain: compared with the model only"""
    r = ctx.sub_rng('exotic')
    out = []
    n = 120 if ctx.tier == 'quick' else 1200
    for i in range(n):
        decls = gen_decls(r, r.choice([1, 2, 3, 4]), exotic=True)
        body = layout(decls, r.choice(['blocks', 'fields_first', 'mixed']), r)
        props = [d for d in decls if d['kind'] == 'prop']
        m = r.random()
        getter_extra = []
        if props and m < 0.25:            # both x and _x annotated
            d = r.choice(props)
            other = d['name'] if d['style'] in ('PubUnder', 'UnderUnder') else under(d['name'])
            body.insert(r.randint(0, len(body)), ('ann', other, gen_ty(r), gen_rhs(r)))
        elif props and m < 0.4:           # unannotated class attribute next to the property
            d = r.choice(props)
            other = d['name'] if d['style'] in ('PubUnder', 'UnderUnder') else under(d['name'])
            body.insert(0, ('assign', other, ['val', gen_value(r)]))
        elif m < 0.5:                     # ClassVar field
            for d in decls:
                if d['kind'] in ('prop', 'plain') and r.random() < 0.6:
                    d['ty'] = ['gen', 'ClassVar[int]', 'classvar']
                    if d.get('rhs') and d['rhs'][0] == 'fd' and 'factory' in d['rhs'][1]:
                        d['rhs'] = None      # dataclasses itself rejects a default_factory on a ClassVar
            body = layout(decls, 'blocks', r)
        elif m < 0.6:                     # a value bound after the property: the property is shadowed
            if props:
                d = r.choice(props)
                n_ = d['name'] if d['style'] in ('PubUnder', 'PubPub') else under(d['name'])
                body.append(('assign', n_, ['val', gen_value(r)]))
        elif m < 0.7 and props:           # read-only property paired with a field
            d = r.choice(props)
            body = [(s[0], s[1], False) if s[0] == 'prop' and s[1].lstrip('_') == d['name'] else s for s in body]
        calls = gen_calls(r, decls, 3)
        if r.random() < 0.3 and calls:
            calls[0]['args']['zz_unknown'] = ['int', 1]
        if r.random() < 0.3 and calls:
            for k in list(calls[-1]['args'])[:1]:
                del calls[-1]['args'][k]
        for c in calls:
            c.pop('positional', None)
        case = make_case(decls, body, calls, 'exotic', domain=False)
        out.append(case)
    return out


# --------------------------------------------------------------------------- annotation grammar (zero-value derivation)
class Nested:
    """typing caches aliases by EQUALITY of their parameters and Union[int, str] == Union[str, int], Literal[1, 2] ==
    Literal[2, 1]: an alias built AROUND such an object (Annotated[Union[str, int], 'm'], a string evaluated to it is
    fine) can come back as the one built earlier in the same interpreter with the members in the other order.  That is
    Python, not the library: below the top level every member set keeps the order it was first written with (per
    interpreter); at the top level - where the library sees exactly what was written - every order is generated."""
    def __init__(self):
        self.first = {}

    def canon(self, t):
        if t[0] == 'union':
            args = [self.canon(a) for a in t[1]]
            key = ('u',) + tuple(sorted(json.dumps(a) for a in args))
            args = self.first.setdefault(key, args)
            return ['union', args, 'Union']
        if t[0] == 'lit':
            key = ('l',) + tuple(sorted(json.dumps(v) for v in t[1]))
            return ['lit', self.first.setdefault(key, t[1])]
        if t[0] == 'annot':
            return ['annot', self.canon(t[1]), t[2]]
        return t


RICH_CLASSES = [['conc', c] for c in ['int', 'str', 'float', 'bool', 'bytes', 'tuple', 'frozenset', 'list', 'dict', 'set',
                                       'datetime', 'any', 'orddict', 'defdict', 'counter', 'mylist', 'myset', 'userobj', 'deque']]
COLLECTIONS = [['conc', c] for c in ['list', 'dict', 'set', 'orddict', 'defdict', 'counter', 'mylist', 'myset']]


def rich_member(r, depth):
    m = r.random()
    if m < 0.30:
        return r.choice(RICH_CLASSES)
    if m < 0.45:
        return r.choice(COLLECTIONS)
    if m < 0.68:
        g = r.choice(GENS)
        return ['gen', g[0], g[1]]
    if m < 0.74:
        return gen_lit(r)
    if m < 0.80:
        return ['ref', r.choice(['Undefined_%d' % r.randint(0, 9), 'int', 'MyList']), None]   # a ForwardRef member is never evaluated
    if depth < 2:
        extras = [['field', gen_fd(r)] if r.random() < 0.4 else ['other', repr(r.choice(['meta', 'x']))]
                  for _ in range(r.choice([1, 1, 2]))]
        inner = rich_member(r, 2)
        if inner[0] in ('ref', 'lit'):
            inner = r.choice(RICH_CLASSES)
        return ['annot', inner, extras]
    return r.choice(RICH_CLASSES)


def rich_union(r, depth):
    n = r.choice([2, 2, 3, 4])
    args, seen = [], set()
    while len(args) < n:
        a = rich_member(r, depth)
        key = json.dumps(a[1] if a[0] == 'annot' else a)
        if key in seen:
            continue
        seen.add(key)
        args.append(a)
    if r.random() < 0.35:
        args.insert(r.randint(0, len(args)), ['nonetype'])       # None at ANY position, the first included
    return ['union', args, r.choice(['Union', 'Optional', 'bar'])]


def rich_lit(r):
    pool = [['int', 1], ['str', '1'], ['int', 0], ['str', 'r+'], ['bool', True], ['none'], ['str', ''], ['int', 7], ['str', 'w']]
    return ['lit', r.sample(pool, r.choice([1, 2, 3, 4]))]


def rich_ty(r, depth=0, allow_field=True):
    m = r.random()
    if m < 0.16:
        return r.choice(RICH_CLASSES)
    if m < 0.24:
        return r.choice(COLLECTIONS)
    if m < 0.36:
        g = r.choice(GENS)
        return ['gen', g[0], g[1]]
    if m < 0.58:
        return rich_union(r, depth)
    if m < 0.68:
        return rich_lit(r)
    if m < 0.72:
        return ['ref', 'Undefined_%d' % r.randint(0, 9), None]
    if m < 0.80 and depth == 0:
        t = rich_ty(r, 1, allow_field)
        src = ty_src(t)
        if 'Undefined' not in src and "'" not in src and '"' not in src:
            return ['ref', src, t]
        return t
    if depth < 2:
        extras = []
        for _ in range(r.choice([1, 1, 2, 3, 4])):
            if allow_field and r.random() < 0.5:
                extras.append(['field', gen_fd(r)])
            else:
                extras.append(['other', r.choice(["'meta'", '123', "'Hello world!'"])])
        inner = rich_ty(r, depth + 1, allow_field)
        if inner[0] == 'annot':       # typing flattens nested Annotated
            return ['annot', inner[1], inner[2] + extras]
        if inner[0] == 'ref':
            # a string directly under Annotated IS evaluated by the library
            if inner[2] is None:
                return ['annot', inner, extras]
            if inner[2][0] == 'annot':
                return ['annot', inner[2][1], inner[2][2] + extras]
            if "'" in inner[1] or '"' in inner[1]:
                inner = inner[2]
        return ['annot', inner, extras]
    return r.choice(RICH_CLASSES)


def reorder(r, t):
    """an annotation that is == to `t` in Python with the members in another order (top level only)"""
    if t[0] == 'union' and len(t[1]) >= 2:
        args = list(t[1])
        while args == t[1]:
            r.shuffle(args)
        return ['union', args, 'Union']
    if t[0] == 'lit' and len(t[1]) >= 2:
        vs = list(t[1])
        while vs == t[1]:
            r.shuffle(vs)
        return ['lit', vs]
    return None


def canon_nested(nest, t):
    """top level free, everything below in first-written order"""
    if t[0] == 'union':
        return ['union', [nest.canon(a) for a in t[1]], t[2]]
    if t[0] == 'annot':
        return ['annot', nest.canon(t[1]), t[2]]
    if t[0] == 'ref' and t[2] is not None:
        t2 = canon_nested(nest, t[2])
        return ['ref', ty_src(t2), t2]
    return t


def expect_tok(x):
    return 'fresh:' + x[1] if isinstance(x, tuple) else x


def probe_anns(ctx):
    r = ctx.sub_rng('probe')
    nest = Nested()
    n = 1000 if ctx.tier == 'quick' else 9000
    out = []
    while len(out) < n:
        t = canon_nested(nest, rich_ty(r))
        out.append(t)
        t2 = reorder(r, t)
        if t2 is not None and r.random() < 0.7:
            out.append(t2)                      # == in Python, another order, same interpreter, right after
    return out


PROBE_PRELUDE = r"""
Definition show_noid (v : value) : pstr :=
  match v with VNew f _ => S "O" ++ show_fac f | _ => show_value v end.
Definition show_fdef (fd : fdef) : pstr :=
  match fd_factory fd with
  | Some f => S "factory=" ++ show_noid (fst (call_factory f 0))
  | None => match fd_default fd with Some v => S "default=" ++ show_noid v | None => S "empty" end
  end.
Definition show_routed (x : routed) : pstr :=
  match x with
  | RValue v => show_noid v
  | RFresh f => match fst (call_factory f 0) with VNew g _ => S "fresh:" ++ show_fac g | v => show_value v end
  end.
(* the hand-written model, the functions translated from the source text, and the Coq specification *)
Definition show_probe (t : ty) : pstr :=
  show_fdef (dfa t) ++ S "|" ++ show_fdef (default_from_annotation_src dfa_obj (OT t)) ++ S "|" ++ show_routed (implied t).
"""


def effective(obs):
    """what the setter would receive for a Field observed by the probe"""
    if obs == 'empty':
        return 'N'
    k, v = obs.split('=', 1)
    if k == 'factory' and v.startswith('O'):
        return 'fresh:' + v[1:]
    return v


def grammar_cases(ctx):
    """classes whose field properties take their default from annotations of the whole grammar; pairs of == annotations
    with reordered members in ONE class; first instance built without arguments and MUTATED, second built without
    arguments must still receive empty collections"""
    r = ctx.sub_rng('grammar')
    out = []
    n = 110 if ctx.tier == 'quick' else 1400
    for i in range(n):
        nest = Nested()
        used, decls = set(), []
        k = r.choice([2, 3, 4, 5, 6])
        while len(decls) < k:
            name = gen_name(r, used)
            used.add('_' + name)
            st = r.choice(['PubUnder', 'PubPub', 'UnderPub', 'UnderUnder', 'PubPub', 'UnderUnder'])
            rhs = None if r.random() < 0.75 else ['fd', {}]
            if st in ('PubPub', 'UnderUnder'):
                rhs = r.choice([None, None, ['val', gen_value(r)], ['fd', gen_fd(r)]])   # shadowed by the property anyway
            t = canon_nested(nest, rich_ty(r))
            decls.append({'kind': 'prop', 'style': st, 'name': name, 'ty': t, 'rhs': rhs})
            t2 = reorder(r, t)
            if t2 is not None and r.random() < 0.6:
                name2 = gen_name(r, used)
                used.add('_' + name2)
                decls.append({'kind': 'prop', 'style': r.choice(['PubPub', 'UnderUnder', 'PubUnder', 'UnderPub']), 'name': name2,
                              'ty': t2, 'rhs': None})
        how = r.choice(['blocks', 'fields_first', 'mixed'])
        calls = [{'args': {}, 'assign': [], 'mutate': True}, {'args': {}, 'assign': []}] + gen_calls(r, decls, 2)[1:]
        calls[-1]['mutate'] = True
        calls.append({'args': {}, 'assign': []})
        out.append(make_case(decls, layout(decls, how, r), calls, 'grammar/' + how))
    return out


# --------------------------------------------------------------------------- inheritance (direct predicate only)
HEADER0 = HEADER[:HEADER.rindex('@dataclass')]
STYLES4 = ['PubUnder', 'PubPub', 'UnderPub', 'UnderUnder']
F95 = 'F95-subclass-setter-gets-base-property-object'


def chain_src(levels):
    out, prev = HEADER0, None
    for i, body in enumerate(levels):
        name = 'K' if i == len(levels) - 1 else 'K%d' % i
        out += '@dataclass\nclass %s(%smetaclass=property_wizard):\n' % (name, prev + ', ' if prev else '')
        out += '\n'.join([l for s in body for l in stmt_src(s)] or ['    pass']) + '\n\n\n'
        prev = name
    return out


def declares(rhs):
    return rhs is not None and (rhs[0] == 'val' or 'default' in rhs[1] or 'factory' in rhs[1])


def chain_decl(r, name, override, force_prop=False):
    """one declaration of a class in a chain.  Every field has a default (dataclasses' ordering rule across the MRO).
    An override in the underscored-property or plain style carries its own class-level value: without one, Python's
    attribute lookup finds the BASE's class attribute (that is dataclasses' own rule for `x: T` in a subclass).  A field
    property is overridden by a field property (a plain field declared over it is no longer "a property paired with a
    field" of the subclass: whether the base's setter still runs then depends on dataclasses removing the class attribute)."""
    if force_prop or r.random() < 0.7:
        st, rhs = r.choice(STYLES4), gen_rhs(r)
        if override and st == 'UnderPub' and rhs is None:
            rhs = ['val', gen_value(r)]
        two = st in ('PubUnder', 'UnderPub') and declares(rhs)
        return {'kind': 'prop', 'style': st, 'name': name, 'ty': gen_ty(r, allow_field=not two), 'rhs': rhs}
    rhs = ['val', gen_value(r)] if r.random() < 0.6 else ['fd', gen_fd(r)]
    if not declares(rhs):
        rhs = ['val', gen_value(r)]
    return {'kind': 'plain', 'name': name, 'ty': gen_ty(r, allow_field=False), 'rhs': rhs}


def inherit_cases(ctx):
    """chains of 2-3 classes, each `@dataclass class Ki(K<i-1>, metaclass=property_wizard)`: field properties and plain
    fields added per level, earlier ones overridden by a full re-declaration (any style / a plain field).  Expected: the
    constructor of the last class has the fields in first-declaration order over the chain (dataclasses), each with the
    default of its LAST declaration, routed through the setter of its last declaration."""
    r = ctx.sub_rng('inherit')
    out = []
    n = 70 if ctx.tier == 'quick' else 700
    for i in range(n):
        depth = r.choice([2, 2, 3])
        used, flat, levels = set(), [], []
        region = False
        for lv in range(depth):
            decls = []
            for _ in range(r.choice([1, 2, 2, 3])):
                cands = [d for d in flat if d['name'] not in [e['name'] for e in decls]]
                if lv and cands and r.random() < 0.45:
                    old = r.choice(cands)
                    decls.append(chain_decl(r, old['name'], True, force_prop=old['kind'] == 'prop'))
                else:
                    name = gen_name(r, used)
                    used.add('_' + name)
                    decls.append(chain_decl(r, name, False))
            body = layout(decls, r.choice(['blocks', 'fields_first', 'mixed']), r)
            # shape of finding F95: the subclass redefines only the PROPERTY of a field property declared in a base
            cands = [d for d in flat if d['kind'] == 'prop' and d['name'] not in [e['name'] for e in decls]]
            if lv and cands and r.random() < 0.12:
                body.append(('prop', r.choice(cands)['name'], True))
                region = True
            levels.append(body)
            for d in decls:
                k = next((j for j, e in enumerate(flat) if e['name'] == d['name']), None)
                if k is None:
                    flat.append(d)
                else:
                    flat[k] = d
        calls = gen_calls(r, flat, 3)
        out.append({'tag': 'inherit/%d' % depth, 'decls': flat, 'body': None, 'calls': calls, 'queries': [],
                    'getters': [d['name'] for d in flat], 'src': chain_src(levels), 'domain': True, 'nomodel': True,
                    'region': F95 if region else None})
    return out


def replay_known(ctx):
    """the witnesses of the open findings listed in known_findings.d/C16.json"""
    f = ctx.finding(F95)
    if f is None:
        return
    still = False
    for w in f['witness']['classes']:
        got = ctx.impl('c16', {'classes': [{'src': w['src'], 'cls': 'K', 'queries': [], 'getters': w['getters'],
                                            'calls': w['calls']}]})['classes'][0]
        still = still or ('=P' in got.split('get=')[0] and got != w['expected'])
    ctx.known_finding(F95, still_fails=still)


def payload(cases):
    return {'classes': [{'src': c['src'], 'cls': 'K', 'queries': c['queries'], 'getters': c['getters'], 'calls': c['calls']}
                        for c in cases]}


def replay_obj(case):
    return {'kind': 'class', 'src': case['src'], 'queries': case['queries'], 'getters': case['getters'],
            'calls': case['calls'], 'expected': case.get('expected'), 'tag': case['tag']}


def nontrivial(case):
    ds = case['decls']
    if len(ds) >= 2:
        return True
    d = ds[0]
    return d['kind'] == 'prop' and not (d.get('rhs') is None and d['ty'][0] == 'conc')



def coq_retry(ctx, exprs, imports, prelude):
    """model evaluation; a coqc process killed by the machine (out of memory under load) is retried"""
    import time
    last = None
    for attempt in range(3):
        try:
            return ctx.coq(exprs, imports, prelude=prelude, tag='cases%d' % attempt)
        except Exception as e:      # noqa
            last = e
            time.sleep(10 * (attempt + 1))
    raise last


def run(ctx):
    cases = matrix_cases() + random_cases(ctx) + grammar_cases(ctx)
    ex = exotic_cases(ctx)
    replay_known(ctx)
    allc = cases + ex + inherit_cases(ctx)
    anns = probe_anns(ctx)
    pl = payload(allc)
    pl['probe'] = {'header': HEADER + '    pass\n', 'anns': [ty_src(t) for t in anns]}
    res = ctx.impl('c16', pl)
    impl = res['classes']
    run_probe(ctx, anns, res['probe'])

    # ---- model side ----
    model = None
    try:
        modeled = [c for c in allc if not c.get('nomodel')]
        texts = [renumber(t) for t in coq_retry(ctx, [model_expr(c) for c in modeled], ['PropWiz'], prelude=PRELUDE)]
        model = {id(c): t for c, t in zip(modeled, texts)}
    except Exception as e:
        ctx.broken_tie('model evaluation failed: %s' % str(e)[:800])

    n_dis = 0
    for i, c in enumerate(allc):
        got = impl[i]
        ctx.count(1, key=c['src'] + json.dumps(c['calls'], sort_keys=True), nontrivial=nontrivial(c))
        ctx.hist('stream', c['tag'])
        ctx.hist('n_decls', len(c['decls']))
        if any(in_f25_shape(d) for d in c['decls']):
            ctx.hist('f25_shape_covered', c['tag'].split('/')[0])
        # ---- direct predicate: the implementation against the independent reference ----
        if c['domain']:
            exp = reference_text(c['decls'], c['calls'], c['queries'], c['getters'])
            c['expected'] = exp
            for d in c['decls']:
                if d['kind'] == 'prop':
                    ctx.hist('style', d['style'])
                    ctx.hist('ann_kind', d['ty'][0])
                    ctx.hist('default_kind', 'none' if d['rhs'] is None else (d['rhs'][0] if d['rhs'][0] == 'val' else
                                                                              'field_' + ('default' if 'default' in d['rhs'][1] else 'factory' if 'factory' in d['rhs'][1] else 'empty')))
            if got != exp and c.get('region') and ctx.is_open_region(c['region']):
                ctx.hist('known_region', c['region'])
            elif got != exp and len(ctx.violations) < 8:
                x, y = first_diff(exp, got)
                ctx.violation('field-property class behaves differently from the specification (%s): expected %r, observed %r'
                              % (c['tag'], x, y), replay_obj(c))
        # ---- correspondence ----
        if model is not None and not c.get('nomodel'):
            ctx.traces_validated += 1
            if model[id(c)] != got:
                n_dis += 1
                ctx.disagreements_checked += 1
                if n_dis <= 5:
                    ctx.broken_tie('PropWiz model and implementation disagree (%s)' % c['tag'],
                                   {'src': c['src'], 'calls': c['calls'], 'impl': got, 'model': model[id(c)]})
    ctx.sample({'source': cases[len(cases) // 3]['src'], 'calls': cases[len(cases) // 3]['calls'], 'observed': impl[len(cases) // 3]})
    ctx.sample({'source': cases[-1]['src'], 'calls': cases[-1]['calls'], 'observed': impl[len(cases) - 1]})
    ctx.sample({'exotic_source': ex[0]['src'], 'observed': impl[len(cases)]})


def run_probe(ctx, anns, got):
    """the zero-value derivation on the annotation grammar, one interpreter: implementation vs (a) the hand-written model
    `dfa`, (b) the functions translated from the source text, (c) the Coq specification `implied`, (d) the independent
    Python reference `implied()` (direct predicate)"""
    model = None
    try:
        model = coq_retry(ctx, ['show_probe %s' % ty_coq(t) for t in anns],
                          ['PropWiz', 'PropWizObj', 'T_PropWizDefaultsAlg'], prelude=PRELUDE + PROBE_PRELUDE)
    except Exception as e:
        ctx.broken_tie('model evaluation of the zero-value derivation failed: %s' % str(e)[:800])
    n_dis = n_vio = 0
    for i, t in enumerate(anns):
        src = ty_src(t)
        ctx.count(1, key='probe:' + src, nontrivial=t[0] != 'conc')
        ctx.hist('probe_kind', t[0])
        if i and json.dumps(reorder_key(anns[i - 1])) == json.dumps(reorder_key(t)) and anns[i - 1] != t:
            ctx.hist('probe_reordered_pair', t[0])
        exp = expect_tok(implied(t))
        obs = got[i]
        if effective(obs) != exp and n_vio < 4:
            n_vio += 1
            ctx.violation('the default derived from annotation %s is %r, the property implies %r' % (src, obs, exp),
                          {'kind': 'probe', 'ann': src, 'expected': exp, 'header': HEADER + '    pass\n'})
        if model is not None:
            ctx.traces_validated += 1
            hand, translated, spec = model[i].split('|')
            if not (hand == translated == obs and spec == effective(obs)):
                n_dis += 1
                ctx.disagreements_checked += 1
                if n_dis <= 3:
                    ctx.broken_tie('zero-value derivation: model / translated source / implementation disagree',
                                   {'annotation': src, 'impl': obs, 'model_dfa': hand, 'translated_source': translated,
                                    'coq_spec': spec})
    ctx.sample({'probe_annotation': ty_src(anns[len(anns) // 2]), 'observed': got[len(anns) // 2]})


def reorder_key(t):
    if t[0] == 'union':
        return ['union', sorted(json.dumps(a) for a in t[1])]
    if t[0] == 'lit':
        return ['lit', sorted(json.dumps(v) for v in t[1])]
    return t


def first_diff(a, b):
    la, lb = a.split('\n'), b.split('\n')
    for x, y in itertools.zip_longest(la, lb, fillvalue='<missing>'):
        if x != y:
            return x, y
    return '', ''



def replay_demo(ctx, obj):
    """replay object written by the driver for a returned FIXED finding: run its demo script (exit 0 = holds)"""
    import os, re, subprocess
    from lib import framework
    m = re.search(r'(findings_demos/[\w.]+\.py)', str(obj.get('witness')))
    if not m:
        print('no demo script named in %r' % (obj,))
        return False
    p = subprocess.run([framework.PY, os.path.join(framework.VERIF, m.group(1))], capture_output=True, text=True,
                       timeout=300, env=framework.impl_env())
    print(p.stdout[-3000:])
    return p.returncode == 0


def replay(ctx, obj, quiet=False):
    if 'finding' in obj:
        return replay_demo(ctx, obj)
    if obj.get('kind') == 'probe':
        got = ctx.impl('c16', {'probe': {'header': obj['header'], 'anns': [obj['ann']]}})['probe'][0]
        if not quiet:
            print('annotation:', obj['ann'])
            print('expected default (effective):', obj['expected'])
            print('observed Field               :', got)
        return effective(got) == obj['expected']
    if obj.get('kind') != 'class':
        print('replay object names a broken tie, not an input: %s' % json.dumps(obj)[:1500])
        return False
    got = ctx.impl('c16', {'classes': [{'src': obj['src'], 'cls': 'K', 'queries': obj['queries'], 'getters': obj['getters'],
                                        'calls': obj['calls']}]})['classes'][0]
    if not quiet:
        print(obj['src'])
        print('calls   :', json.dumps(obj['calls']))
        print('expected:\n' + obj['expected'])
        print('observed:\n' + got)
    return got == obj['expected']
